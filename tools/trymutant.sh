#!/bin/bash
# tools/trymutant.sh <Cnn> <patch> [tier]  — applies a seeded change to /repo, runs the check, and reverts.
set -u
prop=$1; patch=$(readlink -f "$2"); tier=${3:-quick}
cd /repo || exit 2
if [ -n "$(git status --porcelain)" ]; then echo "/repo not clean"; exit 2; fi
git apply "$patch" || { echo "patch does not apply"; exit 2; }
cd /verif
mkdir -p /tmp/mut-evidence
cp evidence/$prop.json /tmp/mut-evidence/$prop.json.bak 2>/dev/null
./run $prop $tier > /tmp/mut-evidence/$prop.$(basename $patch).log 2>&1; rc=$?
grep -E '^(#|VIOLATION|KNOWN|INCONCLUSIVE|C[0-9]+ )' /tmp/mut-evidence/$prop.$(basename $patch).log | head -30
cp /tmp/mut-evidence/$prop.json.bak evidence/$prop.json 2>/dev/null
git -C /repo checkout -- . ; git -C /repo clean -fdq
echo "exit=$rc"
