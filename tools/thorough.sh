#!/bin/bash
# tools/thorough.sh <Cnn...> — runs the thorough tier of the given checks one after another, one status line each.
cd "$(dirname "$0")/.." # the tree this script is in: /verif, or a `vp run` snapshot of it
for p in "$@"; do
  n=$(echo $p | tr 'C' 'c')
  t0=$(date +%s)
  out=$(./run $n thorough 2>&1); rc=$?
  echo "$p rc=$rc $(( $(date +%s)-t0 ))s $(echo "$out" | grep -E "^$p " | cut -c1-160)"
  [ $rc -ne 0 ] && echo "$out" | grep -E "^(#|VIOLATION|INCONCLUSIVE)" | head -8
done
true
