#!/bin/bash
# tools/refix.sh — for every "fixed:" entry of known_findings.json: reverts that fix commit in /repo's working tree
# (if the reverse patch still applies), runs the property's quick check, restores the tree. A repaired defect that
# returns must be reported again. Nothing else may build from /repo meanwhile.
cd /verif
python3 - <<'PY' > /tmp/refix.list
import json,re
d=json.load(open('/verif/known_findings.json'))
for e in d['fixed']:
    m=re.match(r'fixed: property=(C\d+) ([0-9a-f]{7})',e)
    if m: print(m.group(1),m.group(2))
PY
mkdir -p /tmp/rv
while read prop commit; do
  git -C /repo diff $commit $commit~1 > /tmp/rv/refix-$commit.diff
  if ! git -C /repo apply --check /tmp/rv/refix-$commit.diff 2>/dev/null; then echo "$prop $commit reverse patch no longer applies (later commits touch the same lines)"; continue; fi
  out=$(./tools/trymutant.sh $prop /tmp/rv/refix-$commit.diff 2>&1)
  echo "$prop $commit $(echo "$out" | grep -o 'exit=[0-9]*') $(echo "$out" | grep '^# ' | head -1 | cut -c1-110)"
done < /tmp/refix.list
