NOT_BUILT = {}
check("C19", "exploration", "runtime monitoring: differential oracle (longest-prefix reference) over generated configuration trees",
      "The real util lookups are run over ~10^5 (quick) generated (tree, path, variable) cases loaded through viper.Set and YAML and compared with an independent longest-prefix model; held-on-what-was-explored, not a proof.",
      "Trusts viper's loading of YAML/Set; values that encode 'unset' (0s, empty string/list) are excluded by the statement's own notion of 'has a value'.")
