NOT_BUILT = {}
check("C19", "exploration", "runtime monitoring: differential oracle (longest-prefix reference) over generated configuration trees",
      "The real util lookups are run over ~10^5 (quick) generated (tree, path, variable) cases loaded through viper.Set and YAML and compared with an independent longest-prefix model; held-on-what-was-explored, not a proof.",
      "Trusts viper's loading of YAML/Set; values that encode 'unset' (0s, empty string/list) are excluded by the statement's own notion of 'has a value'.")
check("C18", "exploration", "runtime monitoring: reference-map oracle over recorded lookup/fetch events + Go race detector",
      "Thousands of generated histories of block events, hit/miss/failed lookups and cleaning runs against the real cache service, judged step by step against a reference map and the header provider's call counter; a concurrent variant runs under -race. Held on the histories explored.",
      "Handlers and clean job are driven through captured callbacks (fake events provider / scheduler); chain time is a virtual clock.")
check("C10", "exploration", "runtime monitoring: differential oracle (reference resolver from the documented precedence) over grammar-generated documents + round-trip monitor",
      "Tens of thousands (quick) of (document, validator) pairs from a grammar over the presence lattice are resolved by the real v2/legacy code and by an independent reference written from the documentation, and again after Marshal/Unmarshal; held on what was generated.",
      "Reference resolver (DESIGN.md A.1) is the trusted base; top-level bare alternation in account expressions is excluded (judged under C13).")
check("C06", "exploration", "runtime monitoring: BLS verification of every returned signature against an independently merkleised signing root; concurrent request storm under the Go race detector",
      "Tens of thousands of requests of all ten signing kinds (random content, epochs across domain boundaries, batches mixing ordinary and distributed accounts in any order) against one long-lived real signer; each signature verified with real BLS keys against a reference SSZ merkleisation; plus overlapping local-signing calls under -race. Held on what was generated.",
      "herumi BLS verification and sha256 are trusted; harness accounts play the remote signer (they sign what they are asked, the oracle decides whether that was the right thing).")
check("C02", "exploration", "runtime monitoring: per-job trace oracle over API results, invocations and hook observations under boundary stress and forced interleavings; porcupine linearizability check of the job table; Go race detector",
      "Thousands of real scheduler jobs per run in 11 stress modes and 7 orders forced at hook points inside the scheduler, each judged by exactly-once trace rules with the goroutine exit as a definite observation; periodic jobs monitored for overlap and continued ticking; concurrent table histories checked against a sequential model. Interleavings are sampled and forced, not enumerated.",
      "Hook points (build tag verif) only observe and delay; real timers are used, so verdicts that need 'the time has passed' wait for the goroutine's exit with an 8 s watchdog.")
echo 626fe30 > /dev/null
