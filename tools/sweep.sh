#!/bin/bash
# tools/sweep.sh <tier> <seed...> — runs every check at the given seeds and prints one status line per run.
tier=$1; shift
cd "$(dirname "$0")/.." # the tree this script is in: /verif, or a `vp run` snapshot of it
for seed in "$@"; do
  for n in 01 02 03 04 05 06 07 08 09 10 11 12 13 14 15 16 17 18 19 20; do
    out=$(VERIF_SEED=$seed ./run c$n $tier 2>&1); rc=$?
    echo "seed=$seed C$n rc=$rc $(echo "$out" | grep -E "^C$n " | cut -c1-120)"
    [ $rc -ne 0 ] && echo "$out" | grep -E "^(#|VIOLATION|INCONCLUSIVE)" | head -8
  done
done
