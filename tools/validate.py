#!/usr/bin/env python3
import json, jsonschema, glob, sys, os
H = os.path.dirname(os.path.dirname(os.path.abspath(__file__)))
jsonschema.validate(json.load(open(H+'/MANIFEST.json')), json.load(open('/root/.vp/MANIFEST.schema.json')))
es = json.load(open('/root/.vp/EVIDENCE.schema.json'))
for f in sorted(glob.glob(H+'/evidence/*.json')):
    jsonschema.validate(json.load(open(f)), es)
    print('ok', os.path.basename(f))
print('manifest ok')
