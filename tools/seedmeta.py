#!/usr/bin/env python3
"""tools/seedmeta.py <Cnn> <k> <detected:yes|no|partial> <needs...>  — writes seeded/<Cnn>-m<k>/meta.json"""
import sys, json, os, re, glob
pid, k, det = sys.argv[1], sys.argv[2], sys.argv[3]
needs = " ".join(sys.argv[4:])
d = f"/verif/seeded/{pid}-m{k}"
log = f"/tmp/mut-evidence/{pid}.m{k}.diff.log"
keys = []
if os.path.exists(log):
    keys = [l[2:].split(': ')[0] for l in open(log) if l.startswith('# ')]
conf = f"/tmp/seed-out/{pid}/m{k}.confirm.log"
meta = {
    "property": pid,
    "breaks": open(d + "/description.md").read().split("\n")[0][:300] if os.path.exists(d + "/description.md") else "",
    "needs_to_manifest": needs,
    "confirmed": "tools/confirm_seed.sh: full suite passes with the change; demo (demo_test.go) fails with it and passes without it, in a scratch worktree",
    "ran": [f"tools/confirm_seed.sh {pid} {k} <pkg>", f"tools/trymutant.sh {pid} seeded/{pid}-m{k}/patch.diff (quick tier)"],
    "detected_by_quick_check": det,
    "violation_keys": keys[:12],
}
json.dump(meta, open(d + "/meta.json", "w"), indent=1)
print(d, det, keys[:3])
