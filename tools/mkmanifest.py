#!/usr/bin/env python3
"""Generates MANIFEST.json from the table below (keeps it valid at all times)."""
import json, os, subprocess
HERE = os.path.dirname(os.path.dirname(os.path.abspath(__file__)))

# id -> (level, technique, level text, level note, design ref)
CHECKS = {}
def check(pid, level, technique, text, note, ref=None):
    CHECKS[pid] = dict(level=level, technique=technique, text=text, note=note, ref=ref or ("DESIGN.md §5 " + pid))

exec(open(os.path.join(HERE, "tools", "checks_table.py")).read())

props = [json.loads(l)["id"] for l in open(os.path.join(HERE, "properties.jsonl"))]
hook_commits = []
hc = os.path.join(HERE, "tools", "hook_commits.txt")
if os.path.exists(hc):
    hook_commits = [l.split()[0] for l in open(hc) if l.strip() and not l.startswith("#")]

m = {
    "version": 1,
    "setup_cmd": "./setup.sh",
    "hooks": {
        "guard": "verif",
        "enable": "go build -tags verif (the ./run driver always builds the check binary, and with it /repo through the go.mod replace directive, with -tags verif)",
        "baseline_off_cmd": "cd /repo && GOFLAGS=-mod=mod GOPROXY=off GOSUMDB=off GOTOOLCHAIN=local go test -vet=off -count=1 ./...",
        "source_commits": hook_commits,
        "add_only": True,
    },
    "engines": [
        {"name": "harness", "path": "harness/", "serves_properties": sorted(CHECKS), "kind_free_text": "parent/child process driver with case journal, crash attribution, Go race-log parser, known-findings filter, evidence writer; recording fakes and reference models"},
    ],
    "checks": [],
    "not_applicable": [],
    "notes": "Runtime monitoring only: every check runs the real vouch code from /repo's working tree (replace directive) under generated workloads and judges recorded events with an independent oracle. Exit 0 held / 1 violated (VIOLATION line) / 2 inconclusive.",
}
for pid in props:
    if pid in CHECKS:
        c = CHECKS[pid]
        m["checks"].append({
            "property_id": pid,
            "quick_cmd": f"./run {pid} quick",
            "thorough_cmd": f"./run {pid} thorough",
            "evidence_file": f"evidence/{pid}.json",
            "replay_cmd_template": f"./run {pid} --replay {{path}}",
            "engine": "harness",
            "level_claimed": {"category": c["level"], "text": c["text"], "design_ref": c["ref"]},
            "level_note": c["note"],
            "technique": c["technique"],
        })
    else:
        m["not_applicable"].append({"property_id": pid, "reason": NOT_BUILT.get(pid, "monitor designed in DESIGN.md but not yet built; not claimed until its check runs silently on the unchanged tree")})
json.dump(m, open(os.path.join(HERE, "MANIFEST.json"), "w"), indent=1)
print("checks:", len(m["checks"]), "not_applicable:", len(m["not_applicable"]))
