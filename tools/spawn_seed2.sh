#!/bin/bash
# tools/spawn_seed2.sh <Cnn> [n] — second seeding round: worktree /tmp/wt-<Cnn>r2, prompt /tmp/seed-out/<Cnn>r2.prompt.txt;
# the prompt lists the one-line summaries of the first-round changes so that the new ones differ.
id=$1; n=${2:-3}; tag=${id}r2
git -C /repo worktree remove --force /tmp/wt-$tag 2>/dev/null
git -C /repo worktree add -q --detach /tmp/wt-$tag HEAD && mkdir -p /tmp/seed-out/$tag
[ -f /tmp/seed-out/$id.property.txt ] || python3 /verif/tools/proptext.py $id >/dev/null
python3 - "$id" "$n" <<'PY'
import sys,glob,os
id,n=sys.argv[1],sys.argv[2]
tag=id+'r2'
t=open('/verif/tools/seed_prompt.tmpl').read().replace('@ID@',tag).replace('@N@',n).replace('@PROPERTY@',open(f'/tmp/seed-out/{id}.property.txt').read())
prev=[]
for d in sorted(glob.glob(f'/verif/seeded/{id}-m*')):
    f=d+'/description.md'
    if os.path.exists(f): prev.append(open(f).read().split('\n')[0].lstrip('# ').strip())
extra="\n\nOther people have already produced the following changes for this property. Do NOT repeat them or close variants of them; choose different code sites and different parts of the property's statement (look at every file and mechanism the property names, and at code that feeds them):\n"+"\n".join(" - "+p for p in prev)+"\n"
t=t.replace("\nFor each change k = 1..", extra+"\nFor each change k = 1..",1)
open(f'/tmp/seed-out/{tag}.prompt.txt','w').write(t)
PY
echo "prepared /tmp/wt-$tag at $(git -C /tmp/wt-$tag rev-parse --short HEAD)"
