#!/bin/bash
# tools/confirm_seed.sh <Cnn> <k> <pkgdir-relative> [count]
# Confirms a seeded change in the scratch worktree /tmp/wt-<Cnn>: suite passes with it, demo fails with it, demo passes without.
# On success stores it under /verif/seeded/<Cnn>-m<k>/.
set -u
id=$1; k=$2; pkg=$3; count=${4:-1}
wt=/tmp/wt-$id; out=/tmp/seed-out/$id
export GOFLAGS=-mod=mod GOPROXY=off GOSUMDB=off GOTOOLCHAIN=local
cd $wt || exit 2
git checkout -q -- . ; git clean -fdq
demo=$out/m${k}_demo_test.go
[ -f "$demo" ] || { echo "no demo file $demo"; exit 2; }
tests=$(grep -o '^func Test[A-Za-z0-9_]*' $demo | sed 's/func //' | paste -sd'|')
log=/tmp/seed-out/$id/m$k.confirm.log; : > $log
git apply $out/m$k.diff || { echo "diff does not apply"; exit 2; }
echo "== suite with change" >> $log
if ! go test -vet=off -count=1 ./... >> $log 2>&1; then
  # one retry for timing flakes
  echo "== suite retry" >> $log
  go test -vet=off -count=1 ./... >> $log 2>&1 || { echo "FAIL: suite fails with change"; git checkout -q -- .; exit 1; }
fi
cp $demo $pkg/zz_demo_test.go
echo "== demo with change" >> $log
if go test -vet=off -count=$count -run "^($tests)\$" ./$pkg >> $log 2>&1; then echo "FAIL: demo passes with change"; rm -f $pkg/zz_demo_test.go; git checkout -q -- .; exit 1; fi
git checkout -q -- .
echo "== demo without change" >> $log
if ! go test -vet=off -count=$count -run "^($tests)\$" ./$pkg >> $log 2>&1; then echo "FAIL: demo fails without change"; rm -f $pkg/zz_demo_test.go; exit 1; fi
rm -f $pkg/zz_demo_test.go
d=/verif/seeded/$id-m$k; mkdir -p $d
cp $out/m$k.diff $d/patch.diff; cp $demo $d/demo_test.go; cp $out/m$k.md $d/description.md
echo "CONFIRMED $id m$k (demo tests: $tests in $pkg, count=$count)"
