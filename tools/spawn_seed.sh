#!/bin/bash
# tools/spawn_seed.sh <Cnn> [n] — prepares a scratch worktree of /repo HEAD and the prompt file for a seeding sub-agent.
id=$1; n=${2:-3}
git -C /repo worktree remove --force /tmp/wt-$id 2>/dev/null
git -C /repo worktree add -q --detach /tmp/wt-$id HEAD && mkdir -p /tmp/seed-out/$id
[ -f /tmp/seed-out/$id.property.txt ] || python3 /verif/tools/proptext.py $id >/dev/null
python3 - "$id" "$n" <<'PY'
import sys
id,n=sys.argv[1],sys.argv[2]
t=open('/verif/tools/seed_prompt.tmpl').read().replace('@ID@',id).replace('@N@',n).replace('@PROPERTY@',open(f'/tmp/seed-out/{id}.property.txt').read())
open(f'/tmp/seed-out/{id}.prompt.txt','w').write(t)
PY
echo "prepared /tmp/wt-$id at $(git -C /tmp/wt-$id rev-parse --short HEAD)"
