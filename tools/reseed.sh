#!/bin/bash
# tools/reseed.sh [Cnn...] — applies every kept seeded change to /repo in turn, runs its property's quick check, reverts;
# prints one line per change. Nothing else may build from /repo meanwhile.
cd /verif
props="$@"; [ -z "$props" ] && props=$(ls seeded | sed 's/-m.*//' | sort -u)
for p in $props; do
  for d in seeded/$p-m*; do
    k=${d##*-m}
    out=$(./tools/trymutant.sh $p $d/patch.diff 2>&1); rc=$(echo "$out" | grep -o "exit=[0-9]*")
    echo "$p m$k $rc $(echo "$out" | grep '^# ' | head -1 | cut -c1-140)"
  done
done
