#!/usr/bin/env python3
"""tools/proptext.py <Cnn> — renders the text of a property (all a seeding sub-agent gets) to /tmp/seed-out/<Cnn>.property.txt"""
import json, sys, os
pid = sys.argv[1]
for l in open('/verif/properties.jsonl'):
    d = json.loads(l)
    if d['id'] != pid:
        continue
    a = d.get('anchors', {})
    out = [f"ID: {d['id']}", f"Title: {d['title']}", f"Statement: {d['statement']}", f"Quantified over: {d['quantifier']['text']}",
           "Code anchors (files): " + ", ".join(a.get('files', [])),
           "Mechanisms meant to make it hold: " + "; ".join(f"{m['name']} ({m['where']})" for m in a.get('mechanism', []))]
    os.makedirs('/tmp/seed-out', exist_ok=True)
    open(f'/tmp/seed-out/{pid}.property.txt', 'w').write("\n".join(out) + "\n")
    print("\n".join(out))
