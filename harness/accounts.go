package harness

import (
	"context"
	"crypto/sha256"
	"encoding/binary"
	"errors"
	"fmt"
	"sync"

	"github.com/attestantio/go-eth2-client/api"
	"github.com/attestantio/go-eth2-client/spec/phase0"
	"github.com/google/uuid"
	e2types "github.com/wealdtech/go-eth2-types/v2"
	e2wtypes "github.com/wealdtech/go-eth2-wallet-types/v2"
)

var blsOnce sync.Once

// InitBLS initialises the BLS library once.
func InitBLS() {
	blsOnce.Do(func() {
		if err := e2types.InitBLS(); err != nil {
			panic(err)
		}
	})
}

// FWallet is a minimal wallet (only its name matters).
type FWallet struct {
	WName string
	id    uuid.UUID
	// Accts is what Accounts() offers.
	Accts []e2wtypes.Account
}

// NewFWallet creates a wallet offering the given accounts.
func NewFWallet(name string, accts []e2wtypes.Account) *FWallet {
	return &FWallet{WName: name, Accts: accts}
}

func (w *FWallet) ID() uuid.UUID { return w.id }
func (w *FWallet) Type() string  { return "fake" }
func (w *FWallet) Name() string  { return w.WName }
func (w *FWallet) Version() uint { return 1 }
func (w *FWallet) Accounts(_ context.Context) <-chan e2wtypes.Account {
	ch := make(chan e2wtypes.Account, len(w.Accts))
	for _, a := range w.Accts {
		ch <- a
	}
	close(ch)
	return ch
}

// SignReq is one signing request that reached an account (the "remote signer" boundary).
type SignReq struct {
	Seq       int
	Kind      string // sign | generic | proposal | attestation | attestations | genericmulti
	Account   string
	Data      []byte
	Domain    []byte
	Slot      uint64
	Committee uint64
	Source    uint64
	Target    uint64
	BlockRoot []byte
	Batch     int // batch id for multi requests
}

// SignLog records signing requests from all accounts of a case.
type SignLog struct {
	mu    sync.Mutex
	Reqs  []SignReq
	batch int
}

func (l *SignLog) add(r SignReq) {
	if l == nil {
		return
	}
	l.mu.Lock()
	r.Seq = len(l.Reqs)
	l.Reqs = append(l.Reqs, r)
	l.mu.Unlock()
}

func (l *SignLog) nextBatch() int {
	if l == nil {
		return 0
	}
	l.mu.Lock()
	defer l.mu.Unlock()
	l.batch++
	return l.batch
}

// Snapshot copies the log.
func (l *SignLog) Snapshot() []SignReq {
	l.mu.Lock()
	defer l.mu.Unlock()
	return append([]SignReq{}, l.Reqs...)
}

// Fault modes of an account.
const (
	FaultNone      = 0
	FaultError     = 1 // signing returns an error
	FaultNoSig     = 2 // multi-signer returns a nil signature for this account (single signers return an error)
	FaultErrorOnce = 3 // the next signing request returns an error, later ones succeed
)

type acctCore struct {
	name   string
	wallet *FWallet
	id     uuid.UUID
	priv   e2types.PrivateKey
	pub    e2types.PublicKey
	log    *SignLog
	mu     sync.Mutex
	fault  int
	Index  phase0.ValidatorIndex
}

func (a *acctCore) ID() uuid.UUID                { return a.id }
func (a *acctCore) Name() string                 { return a.name }
func (a *acctCore) PublicKey() e2types.PublicKey { return a.pub }
func (a *acctCore) Wallet() e2wtypes.Wallet      { return a.wallet }
func (a *acctCore) SetFault(f int)               { a.mu.Lock(); a.fault = f; a.mu.Unlock() }
func (a *acctCore) Fault() int {
	a.mu.Lock()
	defer a.mu.Unlock()
	if a.fault == FaultErrorOnce {
		a.fault = FaultNone
		return FaultError
	}
	return a.fault
}
func (a *acctCore) FullName() string { return a.wallet.WName + "/" + a.name }
func (a *acctCore) Pub48() phase0.BLSPubKey {
	var p phase0.BLSPubKey
	copy(p[:], a.pub.Marshal())
	return p
}
func (a *acctCore) core() *acctCore { return a }

// Lock, Unlock and IsUnlocked make every harness account an AccountLocker (any passphrase unlocks).
func (a *acctCore) Lock(_ context.Context) error               { return nil }
func (a *acctCore) Unlock(_ context.Context, _ []byte) error   { return nil }
func (a *acctCore) IsUnlocked(_ context.Context) (bool, error) { return true, nil }

// Acct is what the harness needs from every account kind.
type Acct interface {
	e2wtypes.Account
	SetFault(int)
	Fault() int
	FullName() string
	Pub48() phase0.BLSPubKey
	core() *acctCore
}

func signingRootLib(root []byte, domain []byte) [32]byte {
	var r phase0.Root
	copy(r[:], root)
	var d phase0.Domain
	copy(d[:], domain)
	c := phase0.SigningData{ObjectRoot: r, Domain: d}
	h, err := c.HashTreeRoot()
	if err != nil {
		panic(err)
	}
	return h
}

// PlainAcct signs arbitrary data (wallet-like).
type PlainAcct struct{ *acctCore }

func (a PlainAcct) Sign(_ context.Context, data []byte) (e2types.Signature, error) {
	a.log.add(SignReq{Kind: "sign", Account: a.name, Data: append([]byte{}, data...)})
	if a.Fault() != FaultNone {
		return nil, errors.New("scripted signing failure")
	}
	return a.priv.Sign(data), nil
}

// ProtAcct is a protecting signer (computes the signing root itself from root+domain).
type ProtAcct struct{ *acctCore }

func (a ProtAcct) SignGeneric(_ context.Context, data []byte, domain []byte) (e2types.Signature, error) {
	a.log.add(SignReq{Kind: "generic", Account: a.name, Data: append([]byte{}, data...), Domain: append([]byte{}, domain...)})
	if a.Fault() != FaultNone {
		return nil, errors.New("scripted signing failure")
	}
	r := signingRootLib(data, domain)
	return a.priv.Sign(r[:]), nil
}

func (a ProtAcct) SignBeaconProposal(_ context.Context, slot uint64, proposerIndex uint64, parentRoot []byte, stateRoot []byte, bodyRoot []byte, domain []byte) (e2types.Signature, error) {
	hdr := &phase0.BeaconBlockHeader{Slot: phase0.Slot(slot), ProposerIndex: phase0.ValidatorIndex(proposerIndex)}
	copy(hdr.ParentRoot[:], parentRoot)
	copy(hdr.StateRoot[:], stateRoot)
	copy(hdr.BodyRoot[:], bodyRoot)
	root, err := hdr.HashTreeRoot()
	if err != nil {
		return nil, err
	}
	a.log.add(SignReq{Kind: "proposal", Account: a.name, Slot: slot, Data: root[:], Domain: append([]byte{}, domain...)})
	if a.Fault() != FaultNone {
		return nil, errors.New("scripted signing failure")
	}
	r := signingRootLib(root[:], domain)
	return a.priv.Sign(r[:]), nil
}

func attDataRoot(slot, committee uint64, blockRoot []byte, sourceEpoch uint64, sourceRoot []byte, targetEpoch uint64, targetRoot []byte) [32]byte {
	d := &phase0.AttestationData{Slot: phase0.Slot(slot), Index: phase0.CommitteeIndex(committee),
		Source: &phase0.Checkpoint{Epoch: phase0.Epoch(sourceEpoch)}, Target: &phase0.Checkpoint{Epoch: phase0.Epoch(targetEpoch)}}
	copy(d.BeaconBlockRoot[:], blockRoot)
	copy(d.Source.Root[:], sourceRoot)
	copy(d.Target.Root[:], targetRoot)
	root, err := d.HashTreeRoot()
	if err != nil {
		panic(err)
	}
	return root
}

func (a ProtAcct) SignBeaconAttestation(_ context.Context, slot uint64, committeeIndex uint64, blockRoot []byte, sourceEpoch uint64, sourceRoot []byte, targetEpoch uint64, targetRoot []byte, domain []byte) (e2types.Signature, error) {
	a.log.add(SignReq{Kind: "attestation", Account: a.name, Slot: slot, Committee: committeeIndex, Source: sourceEpoch, Target: targetEpoch, BlockRoot: append([]byte{}, blockRoot...), Domain: append([]byte{}, domain...)})
	if a.Fault() != FaultNone {
		return nil, errors.New("scripted signing failure")
	}
	root := attDataRoot(slot, committeeIndex, blockRoot, sourceEpoch, sourceRoot, targetEpoch, targetRoot)
	r := signingRootLib(root[:], domain)
	return a.priv.Sign(r[:]), nil
}

// MultiAcct is a dirk-like account: protecting signer plus multi-signer.
type MultiAcct struct{ ProtAcct }

func (a MultiAcct) SignBeaconAttestations(_ context.Context, slot uint64, accounts []e2wtypes.Account, committeeIndices []uint64, blockRoot []byte, sourceEpoch uint64, sourceRoot []byte, targetEpoch uint64, targetRoot []byte, domain []byte) ([]e2types.Signature, error) {
	if len(accounts) != len(committeeIndices) {
		return nil, errors.New("mismatched lengths")
	}
	b := a.log.nextBatch()
	out := make([]e2types.Signature, len(accounts))
	for i, acc := range accounts {
		x, ok := acc.(Acct)
		if !ok {
			return nil, errors.New("foreign account in batch")
		}
		c := x.core()
		c.log.add(SignReq{Kind: "attestations", Account: c.name, Slot: slot, Committee: committeeIndices[i], Source: sourceEpoch, Target: targetEpoch, BlockRoot: append([]byte{}, blockRoot...), Domain: append([]byte{}, domain...), Batch: b})
		switch c.Fault() {
		case FaultError:
			return nil, errors.New("scripted signing failure")
		case FaultNoSig:
			continue
		}
		root := attDataRoot(slot, committeeIndices[i], blockRoot, sourceEpoch, sourceRoot, targetEpoch, targetRoot)
		r := signingRootLib(root[:], domain)
		out[i] = c.priv.Sign(r[:])
	}
	return out, nil
}

func (a MultiAcct) SignGenericMulti(_ context.Context, accounts []e2wtypes.Account, data [][]byte, domain []byte) ([]e2types.Signature, error) {
	if len(accounts) != len(data) {
		return nil, errors.New("mismatched lengths")
	}
	b := a.log.nextBatch()
	out := make([]e2types.Signature, len(accounts))
	for i, acc := range accounts {
		x, ok := acc.(Acct)
		if !ok {
			return nil, errors.New("foreign account in batch")
		}
		c := x.core()
		c.log.add(SignReq{Kind: "genericmulti", Account: c.name, Data: append([]byte{}, data[i]...), Domain: append([]byte{}, domain...), Batch: b})
		switch c.Fault() {
		case FaultError:
			return nil, errors.New("scripted signing failure")
		case FaultNoSig:
			continue
		}
		r := signingRootLib(data[i], domain)
		out[i] = c.priv.Sign(r[:])
	}
	return out, nil
}

// DistAcct is a distributed dirk-like account.
type DistAcct struct {
	MultiAcct
	composite e2types.PublicKey
}

func (a DistAcct) CompositePublicKey() e2types.PublicKey { return a.composite }
func (a DistAcct) SigningThreshold() uint32              { return 2 }
func (a DistAcct) Participants() map[uint64]string {
	return map[uint64]string{1: "a:1", 2: "b:2", 3: "c:3"}
}

// Account kinds.
const (
	KindPlain = iota
	KindProt
	KindMulti
	KindDist
)

// KeyPool hands out deterministic BLS keys (generation is slow, so keys are cached by number).
type KeyPool struct {
	mu   sync.Mutex
	keys map[int]e2types.PrivateKey
}

var Keys = &KeyPool{keys: map[int]e2types.PrivateKey{}}

// Key returns the n-th deterministic private key.
func (p *KeyPool) Key(n int) e2types.PrivateKey {
	InitBLS()
	p.mu.Lock()
	defer p.mu.Unlock()
	if k, ok := p.keys[n]; ok {
		return k
	}
	seed := sha256.Sum256([]byte(fmt.Sprintf("verif-key-%d", n)))
	seed[31] &= 0x3f // keep below the group order in either endianness
	seed[0] &= 0x3f
	k, err := e2types.BLSPrivateKeyFromBytes(seed[:])
	if err != nil {
		panic(err)
	}
	p.keys[n] = k
	return k
}

// NewAcct builds an account of the given kind using key number keyNo.
func NewAcct(kind int, wallet string, name string, keyNo int, index phase0.ValidatorIndex, log *SignLog) Acct {
	k := Keys.Key(keyNo)
	var id uuid.UUID
	binary.BigEndian.PutUint64(id[:8], uint64(keyNo)+1)
	var wid uuid.UUID
	copy(wid[:], sha256.New().Sum([]byte(wallet))[:16])
	c := &acctCore{name: name, wallet: &FWallet{WName: wallet, id: wid}, id: id, priv: k, pub: k.PublicKey(), log: log, Index: index}
	switch kind {
	case KindPlain:
		return PlainAcct{c}
	case KindProt:
		return ProtAcct{c}
	case KindMulti:
		return MultiAcct{ProtAcct{c}}
	default:
		comp := Keys.Key(keyNo + 100000).PublicKey()
		return DistAcct{MultiAcct: MultiAcct{ProtAcct{c}}, composite: comp}
	}
}

// AcctIndex returns the validator index given at construction.
func AcctIndex(a Acct) phase0.ValidatorIndex { return a.core().Index }

// VerifySig verifies sig over msg under the account's public key.
func VerifySig(a Acct, msg []byte, sig phase0.BLSSignature) bool {
	s, err := e2types.BLSSignatureFromBytes(sig[:])
	if err != nil {
		return false
	}
	return s.Verify(msg, a.PublicKey())
}

// RecDomains returns a distinct opaque domain per (type, epoch) and per (type, genesis).
type RecDomains struct{}

// DomainFor is the oracle-side definition.
func DomainFor(t phase0.DomainType, epoch uint64, genesis bool) phase0.Domain {
	h := sha256.New()
	h.Write(t[:])
	if genesis {
		h.Write([]byte("genesis"))
	} else {
		var b [8]byte
		binary.LittleEndian.PutUint64(b[:], epoch)
		h.Write([]byte("epoch"))
		h.Write(b[:])
	}
	var d phase0.Domain
	copy(d[:], h.Sum(nil))
	copy(d[:4], t[:])
	return d
}

func (RecDomains) Domain(_ context.Context, domainType phase0.DomainType, epoch phase0.Epoch) (phase0.Domain, error) {
	return DomainFor(domainType, uint64(epoch), false), nil
}

func (RecDomains) GenesisDomain(_ context.Context, domainType phase0.DomainType) (phase0.Domain, error) {
	return DomainFor(domainType, 0, true), nil
}

// Spec provider with settable slots per epoch and the standard domain types.
type SpecProv struct{ M map[string]any }

func (s *SpecProv) Spec(_ context.Context, _ *api.SpecOpts) (*api.Response[map[string]any], error) {
	return &api.Response[map[string]any]{Data: s.M, Metadata: map[string]any{}}, nil
}

// DomainTypes by spec name.
var DomainTypes = map[string]phase0.DomainType{
	"DOMAIN_BEACON_PROPOSER":                {0, 0, 0, 0},
	"DOMAIN_BEACON_ATTESTER":                {1, 0, 0, 0},
	"DOMAIN_RANDAO":                         {2, 0, 0, 0},
	"DOMAIN_DEPOSIT":                        {3, 0, 0, 0},
	"DOMAIN_VOLUNTARY_EXIT":                 {4, 0, 0, 0},
	"DOMAIN_SELECTION_PROOF":                {5, 0, 0, 0},
	"DOMAIN_AGGREGATE_AND_PROOF":            {6, 0, 0, 0},
	"DOMAIN_SYNC_COMMITTEE":                 {7, 0, 0, 0},
	"DOMAIN_SYNC_COMMITTEE_SELECTION_PROOF": {8, 0, 0, 0},
	"DOMAIN_CONTRIBUTION_AND_PROOF":         {9, 0, 0, 0},
	"DOMAIN_APPLICATION_BUILDER":            {0, 0, 0, 1},
	"DOMAIN_BLOB_SIDECAR":                   {11, 0, 0, 0},
}

// NewSpec builds a spec map.
func NewSpec(slotsPerEpoch uint64, extra map[string]any) *SpecProv {
	m := map[string]any{
		"SLOTS_PER_EPOCH":                          slotsPerEpoch,
		"TARGET_AGGREGATORS_PER_COMMITTEE":         uint64(16),
		"SYNC_COMMITTEE_SIZE":                      uint64(512),
		"SYNC_COMMITTEE_SUBNET_COUNT":              uint64(4),
		"TARGET_AGGREGATORS_PER_SYNC_SUBCOMMITTEE": uint64(16),
		"EPOCHS_PER_SYNC_COMMITTEE_PERIOD":         uint64(256),
	}
	for k, v := range DomainTypes {
		m[k] = v
	}
	for k, v := range extra {
		m[k] = v
	}
	return &SpecProv{M: m}
}
