package harness

import (
	"bufio"
	"bytes"
	"crypto/sha256"
	"encoding/hex"
	"encoding/json"
	"fmt"
	"math/rand"
	"os"
	"os/exec"
	"path/filepath"
	"regexp"
	"runtime"
	"sort"
	"strconv"
	"strings"
	"sync"
	"time"
)

// Violation is one witness that the property does not hold.
type Violation struct {
	// Key is a stable signature of the witness class (used for known findings and de-duplication).
	Key string `json:"key"`
	// What is a one-line human description.
	What string `json:"what"`
	// Case is the journaled case id that produced it.
	Case string `json:"case,omitempty"`
	// Detail is the witness: generated case, recorded history, stacks.
	Detail any `json:"detail,omitempty"`
}

// childResult is what a child process hands back to the parent.
type childResult struct {
	Evaluations int64            `json:"evaluations"`
	Distinct    []string         `json:"distinct"`
	Samples     []any            `json:"samples"`
	Violations  []Violation      `json:"violations"`
	Counters    map[string]int64 `json:"counters"`
	Inconcl     []string         `json:"inconclusive"`
	Done        bool             `json:"done"`
}

// Spec describes a check.
type Spec struct {
	Property string
	Level    string // evidence level
	Rule     string // how cases are generated, what makes one distinct/non-trivial
	// Batches returns the number of child processes for the tier.
	Batches func(tier string) int
	// Run executes one batch in the child.
	Run func(c *Ctx)
	// Race states the binary is built with -race: race reports are violations.
	Race bool
	// Parallel is how many batches run at once (default 1).
	Parallel int
	// ChildTimeout is the watchdog per child process.
	ChildTimeout func(tier string) time.Duration
	// MinDistinct is the coverage floor below which the run is inconclusive.
	MinDistinct   int
	Assumptions   []string
	CrashIsResult bool // C16: a crash is attributed to the journaled case and the batch is resumed after it
	// CrashKey lets a check derive a known-finding key from a crash's stderr.
	MaxRestarts int
}

// Ctx is the child-side context for one batch.
type Ctx struct {
	Spec      *Spec
	Tier      string
	Seed      int64
	Batch     int
	NBatches  int
	mu        sync.Mutex
	res       childResult
	distinct  map[string]struct{}
	journal   *os.File
	resume    string // skip cases up to and including this id
	skipping  bool
	replayID  string
	vioByKey  map[string]int
	sampleCap int
	lastFlush time.Time
}

// Quick reports whether the tier is quick.
func (c *Ctx) Quick() bool { return c.Tier != "thorough" }

// N picks the tier's case count.
func (c *Ctx) N(quick, thorough int) int {
	n := quick
	if !c.Quick() {
		n = thorough
	}
	if s := os.Getenv("VERIF_SCALE"); s != "" {
		if f, err := strconv.ParseFloat(s, 64); err == nil && f > 0 {
			n = int(float64(n) * f)
			if n < 1 {
				n = 1
			}
		}
	}
	// split across batches
	per := n / c.NBatches
	if c.Batch < n%c.NBatches {
		per++
	}
	return per
}

// Rand returns a PRNG derived from seed, batch and the labels.
func (c *Ctx) Rand(labels ...any) *rand.Rand {
	h := sha256.New()
	fmt.Fprintf(h, "%s|%d|%d", c.Spec.Property, c.Seed, c.Batch)
	for _, l := range labels {
		fmt.Fprintf(h, "|%v", l)
	}
	sum := h.Sum(nil)
	var s int64
	for i := 0; i < 8; i++ {
		s = s<<8 | int64(sum[i])
	}
	return rand.New(rand.NewSource(s))
}

// Case journals and runs a case unless it is being skipped (resume after crash / replay filter).
// The id must be derived only from seed-determined values.
func (c *Ctx) Case(id string, f func()) {
	full := fmt.Sprintf("b%d/%s", c.Batch, id)
	if c.replayID != "" && c.replayID != full {
		return
	}
	if c.skipping {
		if full == c.resume {
			c.skipping = false
		}
		return
	}
	if c.journal != nil {
		fmt.Fprintf(c.journal, "CASE %s\n", full)
	}
	c.mu.Lock()
	c.res.Evaluations++
	flush := time.Since(c.lastFlush) > 2*time.Second
	if flush {
		c.lastFlush = time.Now()
	}
	c.mu.Unlock()
	if flush {
		c.flush(false)
	}
	f()
}

// CaseID returns the full id for a local id.
func (c *Ctx) CaseID(id string) string { return fmt.Sprintf("b%d/%s", c.Batch, id) }

// Eval counts evaluations not wrapped in Case (e.g. sub-evaluations of a case).
func (c *Ctx) Eval(n int) {
	c.mu.Lock()
	c.res.Evaluations += int64(n)
	c.mu.Unlock()
}

// Distinct records a non-trivial case fingerprint.
func (c *Ctx) Distinct(fp string) {
	sum := sha256.Sum256([]byte(fp))
	k := hex.EncodeToString(sum[:8])
	c.mu.Lock()
	c.distinct[k] = struct{}{}
	c.mu.Unlock()
}

// Count adds to a named counter.
func (c *Ctx) Count(name string, n int64) {
	c.mu.Lock()
	c.res.Counters[name] += n
	c.mu.Unlock()
}

// Max keeps the largest value seen under the counter name.
func (c *Ctx) Max(name string, n int64) {
	c.mu.Lock()
	if n > c.res.Counters[name] {
		c.res.Counters[name] = n
	}
	c.mu.Unlock()
}

// Sample stores an actual case (capped).
func (c *Ctx) Sample(s any) {
	c.mu.Lock()
	if len(c.res.Samples) < c.sampleCap {
		c.res.Samples = append(c.res.Samples, s)
	}
	c.mu.Unlock()
}

// Violate records a violation (at most 5 witnesses per key are kept).
func (c *Ctx) Violate(key, what, caseID string, detail any) {
	c.mu.Lock()
	defer c.mu.Unlock()
	c.vioByKey[key]++
	c.res.Counters["violations_raw"]++
	if c.vioByKey[key] > 3 {
		return
	}
	if caseID != "" && !strings.HasPrefix(caseID, "b") {
		caseID = fmt.Sprintf("b%d/%s", c.Batch, caseID)
	}
	c.res.Violations = append(c.res.Violations, Violation{Key: key, What: what, Case: caseID, Detail: detail})
}

// Inconclusive records a reason the run cannot be judged.
func (c *Ctx) Inconclusive(reason string) {
	c.mu.Lock()
	c.res.Inconcl = append(c.res.Inconcl, reason)
	c.mu.Unlock()
}

func (c *Ctx) flush(done bool) {
	c.mu.Lock()
	defer c.mu.Unlock()
	c.res.Done = done
	c.res.Distinct = c.res.Distinct[:0]
	for k := range c.distinct {
		c.res.Distinct = append(c.res.Distinct, k)
	}
	path := os.Getenv("VERIF_RESULT")
	if path == "" {
		return
	}
	b, err := json.Marshal(&c.res)
	if err != nil {
		fmt.Fprintf(os.Stderr, "harness: marshal result: %v\n", err)
		// Retry without details.
		for i := range c.res.Violations {
			c.res.Violations[i].Detail = fmt.Sprintf("%+v", c.res.Violations[i].Detail)
		}
		c.res.Samples = nil
		b, _ = json.Marshal(&c.res)
	}
	tmp := path + ".tmp"
	_ = os.WriteFile(tmp, b, 0o644)
	_ = os.Rename(tmp, path)
}

// Checkpoint persists the partial result so that a later crash does not lose it.
func (c *Ctx) Checkpoint() { c.flush(false) }

func envInt(name string, def int64) int64 {
	if v := os.Getenv(name); v != "" {
		if n, err := strconv.ParseInt(v, 10, 64); err == nil {
			return n
		}
	}
	return def
}

// Main is the entry point of every check binary.
// usage: bin quick|thorough | --replay <file>
func Main(spec *Spec) {
	if os.Getenv("VERIF_CHILD") == "1" {
		childMain(spec)
		return
	}
	os.Exit(parentMain(spec))
}

func childMain(spec *Spec) {
	c := &Ctx{
		Spec:      spec,
		Tier:      os.Getenv("VERIF_TIER"),
		Seed:      envInt("VERIF_SEED", 1),
		Batch:     int(envInt("VERIF_BATCH", 0)),
		NBatches:  int(envInt("VERIF_NBATCHES", 1)),
		distinct:  map[string]struct{}{},
		vioByKey:  map[string]int{},
		resume:    os.Getenv("VERIF_RESUME_AFTER"),
		replayID:  os.Getenv("VERIF_REPLAY_CASE"),
		sampleCap: 4,
		lastFlush: time.Now(),
	}
	c.skipping = c.resume != ""
	c.res.Counters = map[string]int64{}
	if j := os.Getenv("VERIF_JOURNAL"); j != "" {
		f, err := os.OpenFile(j, os.O_CREATE|os.O_WRONLY|os.O_APPEND, 0o644)
		if err == nil {
			c.journal = f
		}
	}
	spec.Run(c)
	c.flush(true)
	if c.journal != nil {
		c.journal.Close()
	}
}

type knownFile struct {
	Findings []struct {
		Property string `json:"property"`
		Key      string `json:"key"`
		What     string `json:"what"`
	} `json:"findings"`
	Fixed []string `json:"fixed"`
}

// VerifDir is the directory of the framework (cwd of the run script).
func VerifDir() string {
	if d := os.Getenv("VERIF_DIR"); d != "" {
		return d
	}
	d, _ := os.Getwd()
	return d
}

func parentMain(spec *Spec) int {
	spec.Race = RaceEnabled
	start := time.Now()
	args := os.Args[1:]
	tier := "quick"
	replayCase := ""
	for i := 0; i < len(args); i++ {
		switch args[i] {
		case "quick", "thorough":
			tier = args[i]
		case "--replay":
			if i+1 < len(args) {
				b, err := os.ReadFile(args[i+1])
				if err != nil {
					fmt.Fprintf(os.Stderr, "cannot read replay: %v\n", err)
					return 2
				}
				var rp struct {
					Tier string `json:"tier"`
					Seed int64  `json:"seed"`
					Case string `json:"case"`
				}
				_ = json.Unmarshal(b, &rp)
				if rp.Tier != "" {
					tier = rp.Tier
				}
				os.Setenv("VERIF_SEED", strconv.FormatInt(rp.Seed, 10))
				replayCase = rp.Case
				i++
			}
		}
	}
	if t := os.Getenv("VERIF_TIER"); t != "" && len(args) == 0 {
		tier = t
	}
	seed := envInt("VERIF_SEED", 1)
	verif := VerifDir()
	work, err := os.MkdirTemp("", "verif-"+spec.Property+"-")
	if err != nil {
		fmt.Fprintf(os.Stderr, "mkdtemp: %v\n", err)
		return 2
	}
	if os.Getenv("VERIF_KEEP") == "" {
		defer os.RemoveAll(work)
	} else {
		fmt.Println("work dir:", work)
	}

	nb := 1
	if spec.Batches != nil {
		nb = spec.Batches(tier)
	} else if tier == "thorough" {
		nb = 8 // the thorough tier of a check that does not say otherwise is split over eight children
	}
	par := spec.Parallel
	if par < 1 {
		par = 1
		if spec.Batches == nil && tier == "thorough" {
			par = 8
		}
	}
	timeout := 10 * time.Minute
	if tier == "thorough" {
		timeout = 90 * time.Minute
	}
	if spec.ChildTimeout != nil {
		timeout = spec.ChildTimeout(tier)
	}
	maxRestarts := spec.MaxRestarts
	if maxRestarts == 0 {
		maxRestarts = 3
		if spec.CrashIsResult {
			maxRestarts = 200
		}
	}

	var mu sync.Mutex
	total := childResult{Counters: map[string]int64{}}
	distinct := map[string]struct{}{}
	var inconclusive []string
	merge := func(r *childResult) {
		mu.Lock()
		defer mu.Unlock()
		total.Evaluations += r.Evaluations
		for _, d := range r.Distinct {
			distinct[d] = struct{}{}
		}
		if len(total.Samples) < 6 {
			total.Samples = append(total.Samples, r.Samples...)
		}
		total.Violations = append(total.Violations, r.Violations...)
		for k, v := range r.Counters {
			total.Counters[k] += v
		}
		inconclusive = append(inconclusive, r.Inconcl...)
	}

	sem := make(chan struct{}, par)
	var wg sync.WaitGroup
	for b := 0; b < nb; b++ {
		wg.Add(1)
		sem <- struct{}{}
		go func(b int) {
			defer wg.Done()
			defer func() { <-sem }()
			resume := ""
			for attempt := 0; ; attempt++ {
				tag := fmt.Sprintf("b%d.%d", b, attempt)
				resPath := filepath.Join(work, tag+".result.json")
				jPath := filepath.Join(work, tag+".journal")
				outPath := filepath.Join(work, tag+".out")
				racePath := filepath.Join(work, tag+".race")
				cmd := exec.Command(os.Args[0])
				cmd.Env = append(os.Environ(),
					"VERIF_CHILD=1",
					"VERIF_TIER="+tier,
					"VERIF_SEED="+strconv.FormatInt(seed, 10),
					"VERIF_BATCH="+strconv.Itoa(b),
					"VERIF_NBATCHES="+strconv.Itoa(nb),
					"VERIF_RESULT="+resPath,
					"VERIF_JOURNAL="+jPath,
					"VERIF_RESUME_AFTER="+resume,
					"VERIF_REPLAY_CASE="+replayCase,
					"VERIF_DIR="+verif,
					"GOTRACEBACK=all",
				)
				if spec.Race {
					cmd.Env = append(cmd.Env, "GORACE=halt_on_error=0 history_size=5 log_path="+racePath)
				}
				out, _ := os.Create(outPath)
				cmd.Stdout = out
				cmd.Stderr = out
				err := cmd.Start()
				if err != nil {
					mu.Lock()
					inconclusive = append(inconclusive, "cannot start child: "+err.Error())
					mu.Unlock()
					return
				}
				done := make(chan error, 1)
				go func() { done <- cmd.Wait() }()
				timedOut := false
				select {
				case err = <-done:
				case <-time.After(timeout):
					timedOut = true
					_ = cmd.Process.Signal(syscallSIGQUIT)
					select {
					case err = <-done:
					case <-time.After(20 * time.Second):
						_ = cmd.Process.Kill()
						err = <-done
					}
				}
				out.Close()
				var r childResult
				haveRes := false
				if rb, rerr := os.ReadFile(resPath); rerr == nil {
					if json.Unmarshal(rb, &r) == nil {
						haveRes = true
					}
				}
				if r.Counters == nil {
					r.Counters = map[string]int64{}
				}
				if spec.Race {
					for _, v := range append(parseRaceLogs(racePath, b), parseRaceFile(outPath, b, map[string]bool{})...) {
						r.Violations = append(r.Violations, v)
						r.Counters["race_reports"]++
					}
				}
				if haveRes && r.Done && (err == nil || spec.Race) {
					// (a race-enabled child that completed exits 66 when reports were written; they were parsed above)
					merge(&r)
					return
				}
				// Child died or timed out.
				last := lastJournaled(jPath)
				stderrTxt := tailFile(outPath, 200*1024)
				if timedOut {
					merge(&r)
					// A watchdog firing is a violation only for checks that declare hangs as results
					// (they run their own per-call watchdogs); otherwise it is inconclusive.
					mu.Lock()
					inconclusive = append(inconclusive, fmt.Sprintf("batch %d: watchdog (%s) fired at case %s", b, timeout, last))
					mu.Unlock()
					saveArtifact(verif, spec.Property, fmt.Sprintf("watchdog-%s-b%d.txt", tier, b), stderrTxt)
					return
				}
				key, what := crashSignature(stderrTxt)
				r.Violations = append(r.Violations, Violation{
					Key:    key,
					What:   what,
					Case:   last,
					Detail: map[string]any{"stderr_tail": trimStack(stderrTxt), "exit": fmt.Sprint(err)},
				})
				r.Counters["child_crashes"]++
				merge(&r)
				if last == "" || attempt >= maxRestarts || replayCase != "" {
					if attempt >= maxRestarts {
						mu.Lock()
						inconclusive = append(inconclusive, fmt.Sprintf("batch %d: more than %d crashes, rest of batch not explored", b, maxRestarts))
						mu.Unlock()
					}
					return
				}
				resume = last
			}
		}(b)
	}
	wg.Wait()

	// De-duplicate violations by key, apply known findings.
	var known knownFile
	if kb, err := os.ReadFile(filepath.Join(verif, "known_findings.json")); err == nil {
		_ = json.Unmarshal(kb, &known)
	}
	byKey := map[string][]Violation{}
	var keys []string
	for _, v := range total.Violations {
		if _, ok := byKey[v.Key]; !ok {
			keys = append(keys, v.Key)
		}
		byKey[v.Key] = append(byKey[v.Key], v)
	}
	sort.Strings(keys)
	nViol := 0
	nKnown := 0
	var lines []string
	_ = os.MkdirAll(filepath.Join(verif, "replays"), 0o755)
	for _, k := range keys {
		isKnown := false
		for _, f := range known.Findings {
			if f.Property == spec.Property && f.Key == k {
				isKnown = true
				lines = append(lines, fmt.Sprintf("KNOWN-FINDING: property=%s %s [%s] (seen %d times)", spec.Property, f.What, k, len(byKey[k])))
				break
			}
		}
		if isKnown {
			nKnown++
			continue
		}
		nViol++
		v := byKey[k][0]
		sum := sha256.Sum256([]byte(k))
		rp := filepath.Join(verif, "replays", fmt.Sprintf("%s-%s.json", spec.Property, hex.EncodeToString(sum[:6])))
		rb, _ := json.MarshalIndent(map[string]any{
			"property": spec.Property, "tier": tier, "seed": seed, "case": v.Case,
			"key": v.Key, "what": v.What, "detail": v.Detail, "witnesses": len(byKey[k]),
		}, "", " ")
		_ = os.WriteFile(rp, rb, 0o644)
		fmt.Printf("# %s: %s\n", k, v.What)
		lines = append(lines, fmt.Sprintf("VIOLATION property=%s replay=%s", spec.Property, rp))
	}

	nd := len(distinct)
	status := "held"
	if nViol > 0 {
		status = "violated"
	} else if len(inconclusive) > 0 {
		status = "inconclusive"
	} else if replayCase == "" && nd < max(spec.MinDistinct, 2) {
		status = "inconclusive"
		inconclusive = append(inconclusive, fmt.Sprintf("coverage floor not reached: %d distinct non-trivial cases < %d", nd, max(spec.MinDistinct, 2)))
	}

	// Evidence.
	cov := map[string]any{
		"evaluations":         total.Evaluations,
		"distinct_nontrivial": nd,
		"rule":                spec.Rule,
		"samples":             total.Samples,
		"counters":            total.Counters,
		"batches":             nb,
		"status":              status,
		"known_findings_seen": nKnown,
		"gomaxprocs":          runtime.GOMAXPROCS(0),
	}
	if len(inconclusive) > 0 {
		cov["inconclusive"] = inconclusive
	}
	if len(total.Samples) == 0 {
		cov["samples"] = []any{"(none recorded)"}
	}
	ev := map[string]any{
		"property_id": spec.Property,
		"tier":        tier,
		"seed":        seed,
		"level":       spec.Level,
		"coverage":    cov,
		"assumptions": spec.Assumptions,
		"wall_s":      time.Since(start).Seconds(),
		"violations":  nViol,
	}
	if replayCase == "" {
		_ = os.MkdirAll(filepath.Join(verif, "evidence"), 0o755)
		eb, _ := json.MarshalIndent(ev, "", " ")
		_ = os.WriteFile(filepath.Join(verif, "evidence", spec.Property+".json"), eb, 0o644)
	}

	ck, _ := json.Marshal(total.Counters)
	fmt.Printf("%s %s seed=%d: %s; evaluations=%d distinct_nontrivial=%d counters=%s wall=%.1fs\n",
		spec.Property, tier, seed, status, total.Evaluations, nd, ck, time.Since(start).Seconds())
	for _, r := range inconclusive {
		fmt.Printf("INCONCLUSIVE: %s\n", r)
	}
	for _, l := range lines {
		fmt.Println(l)
	}
	switch status {
	case "held":
		return 0
	case "violated":
		return 1
	default:
		return 2
	}
}

func saveArtifact(verif, prop, name, content string) {
	dir := filepath.Join(verif, "replays")
	_ = os.MkdirAll(dir, 0o755)
	_ = os.WriteFile(filepath.Join(dir, prop+"-"+name), []byte(content), 0o644)
}

func lastJournaled(path string) string {
	f, err := os.Open(path)
	if err != nil {
		return ""
	}
	defer f.Close()
	last := ""
	sc := bufio.NewScanner(f)
	sc.Buffer(make([]byte, 1<<20), 1<<20)
	for sc.Scan() {
		if strings.HasPrefix(sc.Text(), "CASE ") {
			last = strings.TrimPrefix(sc.Text(), "CASE ")
		}
	}
	return last
}

func tailFile(path string, n int64) string {
	b, err := os.ReadFile(path)
	if err != nil {
		return ""
	}
	// keep the head (panic message is first) and the tail
	if int64(len(b)) > 2*n {
		return string(b[:n]) + "\n...\n" + string(b[int64(len(b))-n:])
	}
	return string(b)
}

func trimStack(s string) string {
	if len(s) > 12000 {
		return s[:12000] + "\n...(truncated)"
	}
	return s
}

var (
	vouchFrame = regexp.MustCompile(`(?m)^(github\.com/attestantio/vouch/[^\s(]+(?:\([^)]*\))?[^\s(]*)\(`)
	lineNoRe   = regexp.MustCompile(`:\d+( \+0x[0-9a-f]+)?$`)
)

// crashSignature derives (key, what) from a crashed child's output.
func crashSignature(out string) (string, string) {
	kind := "exit"
	msg := ""
	idx := -1
	for _, marker := range []string{"panic: ", "fatal error: ", "SIGQUIT"} {
		if i := strings.Index(out, marker); i >= 0 && (idx < 0 || i < idx) {
			idx = i
			kind = strings.TrimSuffix(strings.TrimSpace(marker), ":")
			end := strings.IndexByte(out[i:], '\n')
			if end < 0 {
				end = len(out) - i
			}
			msg = out[i : i+end]
		}
	}
	frame := ""
	if idx >= 0 {
		rest := out[idx:]
		// first goroutine block after the panic
		if g := strings.Index(rest, "\ngoroutine "); g >= 0 {
			rest = rest[g:]
		}
		if m := vouchFrame.FindStringSubmatch(rest); m != nil {
			frame = m[1]
		}
	}
	frame = strings.TrimPrefix(frame, "github.com/attestantio/vouch/")
	// normalise addresses in message
	msg = regexp.MustCompile(`0x[0-9a-f]+`).ReplaceAllString(msg, "0x?")
	msg = regexp.MustCompile(`\[recovered\].*`).ReplaceAllString(msg, "")
	if len(msg) > 160 {
		msg = msg[:160]
	}
	key := fmt.Sprintf("crash:%s@%s", kind, frame)
	return key, fmt.Sprintf("process crashed (%s) in %s", msg, frame)
}

// parseRaceLogs reads race detector logs (path.*), returning one violation per distinct function pair.
func parseRaceLogs(prefix string, batch int) []Violation {
	matches, _ := filepath.Glob(prefix + ".*")
	var out []Violation
	seen := map[string]bool{}
	for _, m := range matches {
		out = append(out, parseRaceFile(m, batch, seen)...)
	}
	return out
}

func parseRaceFile(m string, batch int, seen map[string]bool) []Violation {
	var out []Violation
	{
		b, err := os.ReadFile(m)
		if err != nil {
			return nil
		}
		for _, blk := range bytes.Split(b, []byte("==================")) {
			s := string(blk)
			if !strings.Contains(s, "WARNING: DATA RACE") {
				continue
			}
			key := raceKey(s)
			if seen[key] {
				continue
			}
			seen[key] = true
			out = append(out, Violation{Key: key, What: "data race " + strings.TrimPrefix(key, "race:"), Case: fmt.Sprintf("b%d", batch), Detail: trimStack(s)})
		}
	}
	return out
}

var raceFrame = regexp.MustCompile(`(?m)^  (\S+)\(\)\n\s+(\S+):\d+`)

// raceKey: the innermost vouch frame of each of the two conflicting accesses, sorted.
func raceKey(report string) string {
	// split into the two access stacks: sections start with "Write at"/"Read at"/"Previous write at"/"Previous read at"
	secRe := regexp.MustCompile(`(?m)^(Write at|Read at|Previous write at|Previous read at|Atomic|Previous atomic)[^\n]*\n((?:  \S.*\n\s+.*\n)+)`)
	secs := secRe.FindAllStringSubmatch(report, -1)
	var fs []string
	for _, s := range secs {
		f := ""
		for _, fr := range raceFrame.FindAllStringSubmatch(s[2], -1) {
			if strings.Contains(fr[1], "attestantio/vouch/") {
				f = fr[1]
				break
			}
		}
		if f == "" {
			if fr := raceFrame.FindStringSubmatch(s[2]); fr != nil {
				f = fr[1]
			}
		}
		f = strings.TrimPrefix(f, "github.com/attestantio/vouch/")
		// strip closure numbering differences
		f = regexp.MustCompile(`\.func\d+(\.\d+)*$`).ReplaceAllString(f, ".func")
		f = lineNoRe.ReplaceAllString(f, "")
		fs = append(fs, f)
		if len(fs) == 2 {
			break
		}
	}
	sort.Strings(fs)
	return "race:" + strings.Join(fs, "|")
}
