package harness

import "syscall"

var syscallSIGQUIT = syscall.SIGQUIT
