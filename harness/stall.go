package harness

import (
	"sync"
	"time"
)

// Stall monitor: a goroutine that wakes every two milliseconds and records how late it was woken. Checks whose verdicts
// depend on measured times ask it whether the process was starved of CPU while a case ran (a loaded machine, a GC pause,
// our own concurrency); such a case's timing verdicts are skipped and counted, never reported: wall-clock time is
// evidence only while the process was running.
var stall struct {
	once sync.Once
	mu   sync.Mutex
	at   []time.Time     // when a gap ended
	gap  []time.Duration // how long it was
}

// StartStallMonitor starts the monitor (once).
func StartStallMonitor() {
	stall.once.Do(func() {
		go func() {
			last := time.Now()
			for {
				time.Sleep(2 * time.Millisecond)
				now := time.Now()
				if g := now.Sub(last); g > 15*time.Millisecond {
					stall.mu.Lock()
					stall.at = append(stall.at, now)
					stall.gap = append(stall.gap, g)
					if len(stall.at) > 4096 {
						stall.at, stall.gap = stall.at[2048:], stall.gap[2048:]
					}
					stall.mu.Unlock()
				}
				last = now
			}
		}()
	})
}

// MaxStallSince returns the longest wake-up delay recorded for an interval ending after t.
func MaxStallSince(t time.Time) time.Duration {
	stall.mu.Lock()
	defer stall.mu.Unlock()
	var m time.Duration
	for i := len(stall.at) - 1; i >= 0 && stall.at[i].After(t); i-- {
		if stall.gap[i] > m {
			m = stall.gap[i]
		}
	}
	return m
}
