package harness

import (
	"math/big"

	"github.com/attestantio/go-eth2-client/api"
	apiv1bellatrix "github.com/attestantio/go-eth2-client/api/v1/bellatrix"
	apiv1capella "github.com/attestantio/go-eth2-client/api/v1/capella"
	apiv1deneb "github.com/attestantio/go-eth2-client/api/v1/deneb"
	"github.com/attestantio/go-eth2-client/spec"
	"github.com/attestantio/go-eth2-client/spec/altair"
	"github.com/attestantio/go-eth2-client/spec/bellatrix"
	"github.com/attestantio/go-eth2-client/spec/capella"
	"github.com/attestantio/go-eth2-client/spec/deneb"
	"github.com/attestantio/go-eth2-client/spec/phase0"
	"github.com/holiman/uint256"
	"github.com/prysmaticlabs/go-bitfield"
)

// Versions lists the data versions proposals are generated for.
var Versions = []spec.DataVersion{spec.DataVersionPhase0, spec.DataVersionAltair, spec.DataVersionBellatrix, spec.DataVersionCapella, spec.DataVersionDeneb}

func markRoot(marker uint64, tag byte) (r phase0.Root) {
	for i := 0; i < 8; i++ {
		r[i] = byte(marker >> (8 * i))
	}
	r[31] = tag
	return r
}

func eth1() *phase0.ETH1Data { return &phase0.ETH1Data{BlockHash: make([]byte, 32)} }
func syncAgg() *altair.SyncAggregate {
	return &altair.SyncAggregate{SyncCommitteeBits: bitfield.NewBitvector512()}
}

// NewProposal builds a proposal of the version for the slot; marker makes its roots unique; blinded only for
// bellatrix onwards.
func NewProposal(version spec.DataVersion, blinded bool, slot phase0.Slot, proposer phase0.ValidatorIndex, marker uint64, graffiti [32]byte) *api.VersionedProposal {
	parent, state := markRoot(marker, 0x11), markRoot(marker, 0x22)
	fr := bellatrix.ExecutionAddress{0xfe, 0xe0, byte(marker)}
	p := &api.VersionedProposal{Version: version, Blinded: blinded, ConsensusValue: big.NewInt(int64(marker%1000) + 1), ExecutionValue: big.NewInt(5)}
	var base [32]byte
	base[0] = 7
	switch version {
	case spec.DataVersionPhase0:
		p.Blinded = false
		p.Phase0 = &phase0.BeaconBlock{Slot: slot, ProposerIndex: proposer, ParentRoot: parent, StateRoot: state, Body: &phase0.BeaconBlockBody{ETH1Data: eth1(), Graffiti: graffiti}}
	case spec.DataVersionAltair:
		p.Blinded = false
		p.Altair = &altair.BeaconBlock{Slot: slot, ProposerIndex: proposer, ParentRoot: parent, StateRoot: state, Body: &altair.BeaconBlockBody{ETH1Data: eth1(), Graffiti: graffiti, SyncAggregate: syncAgg()}}
	case spec.DataVersionBellatrix:
		if blinded {
			p.BellatrixBlinded = &apiv1bellatrix.BlindedBeaconBlock{Slot: slot, ProposerIndex: proposer, ParentRoot: parent, StateRoot: state, Body: &apiv1bellatrix.BlindedBeaconBlockBody{ETH1Data: eth1(), Graffiti: graffiti, SyncAggregate: syncAgg(),
				ExecutionPayloadHeader: &bellatrix.ExecutionPayloadHeader{FeeRecipient: fr, BaseFeePerGas: base, BlockNumber: marker}}}
		} else {
			p.Bellatrix = &bellatrix.BeaconBlock{Slot: slot, ProposerIndex: proposer, ParentRoot: parent, StateRoot: state, Body: &bellatrix.BeaconBlockBody{ETH1Data: eth1(), Graffiti: graffiti, SyncAggregate: syncAgg(),
				ExecutionPayload: &bellatrix.ExecutionPayload{FeeRecipient: fr, BaseFeePerGas: base, BlockNumber: marker}}}
		}
	case spec.DataVersionCapella:
		if blinded {
			p.CapellaBlinded = &apiv1capella.BlindedBeaconBlock{Slot: slot, ProposerIndex: proposer, ParentRoot: parent, StateRoot: state, Body: &apiv1capella.BlindedBeaconBlockBody{ETH1Data: eth1(), Graffiti: graffiti, SyncAggregate: syncAgg(),
				ExecutionPayloadHeader: &capella.ExecutionPayloadHeader{FeeRecipient: fr, BaseFeePerGas: base, BlockNumber: marker}}}
		} else {
			p.Capella = &capella.BeaconBlock{Slot: slot, ProposerIndex: proposer, ParentRoot: parent, StateRoot: state, Body: &capella.BeaconBlockBody{ETH1Data: eth1(), Graffiti: graffiti, SyncAggregate: syncAgg(),
				ExecutionPayload: &capella.ExecutionPayload{FeeRecipient: fr, BaseFeePerGas: base, BlockNumber: marker}}}
		}
	case spec.DataVersionDeneb:
		if blinded {
			p.DenebBlinded = &apiv1deneb.BlindedBeaconBlock{Slot: slot, ProposerIndex: proposer, ParentRoot: parent, StateRoot: state, Body: &apiv1deneb.BlindedBeaconBlockBody{ETH1Data: eth1(), Graffiti: graffiti, SyncAggregate: syncAgg(),
				ExecutionPayloadHeader: &deneb.ExecutionPayloadHeader{FeeRecipient: fr, BaseFeePerGas: uint256.NewInt(7), BlockNumber: marker}}}
		} else {
			p.Deneb = &apiv1deneb.BlockContents{Block: &deneb.BeaconBlock{Slot: slot, ProposerIndex: proposer, ParentRoot: parent, StateRoot: state, Body: &deneb.BeaconBlockBody{ETH1Data: eth1(), Graffiti: graffiti, SyncAggregate: syncAgg(),
				ExecutionPayload: &deneb.ExecutionPayload{FeeRecipient: fr, BaseFeePerGas: uint256.NewInt(7), BlockNumber: marker}}}}
		}
	}
	return p
}

// Unblinded builds the full signed block a relay returns for a signed blinded proposal: same header fields,
// same signature; marker identifies the relay that produced it.
func Unblinded(signed *api.VersionedSignedProposal, marker uint64) *api.VersionedSignedProposal {
	out := &api.VersionedSignedProposal{Version: signed.Version}
	fr := bellatrix.ExecutionAddress{0xfe, 0xe0}
	var base [32]byte
	base[0] = 7
	extra := []byte{byte(marker), byte(marker >> 8), 0xee}
	switch signed.Version {
	case spec.DataVersionBellatrix:
		b := signed.BellatrixBlinded
		if b == nil || b.Message == nil {
			return nil
		}
		out.Bellatrix = &bellatrix.SignedBeaconBlock{Signature: b.Signature, Message: &bellatrix.BeaconBlock{Slot: b.Message.Slot, ProposerIndex: b.Message.ProposerIndex, ParentRoot: b.Message.ParentRoot, StateRoot: b.Message.StateRoot,
			Body: &bellatrix.BeaconBlockBody{ETH1Data: eth1(), SyncAggregate: syncAgg(), ExecutionPayload: &bellatrix.ExecutionPayload{FeeRecipient: fr, BaseFeePerGas: base, ExtraData: extra}}}}
	case spec.DataVersionCapella:
		b := signed.CapellaBlinded
		if b == nil || b.Message == nil {
			return nil
		}
		out.Capella = &capella.SignedBeaconBlock{Signature: b.Signature, Message: &capella.BeaconBlock{Slot: b.Message.Slot, ProposerIndex: b.Message.ProposerIndex, ParentRoot: b.Message.ParentRoot, StateRoot: b.Message.StateRoot,
			Body: &capella.BeaconBlockBody{ETH1Data: eth1(), SyncAggregate: syncAgg(), ExecutionPayload: &capella.ExecutionPayload{FeeRecipient: fr, BaseFeePerGas: base, ExtraData: extra}}}}
	case spec.DataVersionDeneb:
		b := signed.DenebBlinded
		if b == nil || b.Message == nil {
			return nil
		}
		out.Deneb = &apiv1deneb.SignedBlockContents{SignedBlock: &deneb.SignedBeaconBlock{Signature: b.Signature, Message: &deneb.BeaconBlock{Slot: b.Message.Slot, ProposerIndex: b.Message.ProposerIndex, ParentRoot: b.Message.ParentRoot, StateRoot: b.Message.StateRoot,
			Body: &deneb.BeaconBlockBody{ETH1Data: eth1(), SyncAggregate: syncAgg(), ExecutionPayload: &deneb.ExecutionPayload{FeeRecipient: fr, BaseFeePerGas: uint256.NewInt(7), ExtraData: extra}}}}}
	}
	return out
}

// SignedBlindedBlock wraps a blinded proposal as the signed blinded block a beacon node sends for unblinding (zero signature).
func SignedBlindedBlock(p *api.VersionedProposal) *api.VersionedSignedBlindedBeaconBlock {
	out := &api.VersionedSignedBlindedBeaconBlock{Version: p.Version}
	switch p.Version {
	case spec.DataVersionBellatrix:
		out.Bellatrix = &apiv1bellatrix.SignedBlindedBeaconBlock{Message: p.BellatrixBlinded}
	case spec.DataVersionCapella:
		out.Capella = &apiv1capella.SignedBlindedBeaconBlock{Message: p.CapellaBlinded}
	case spec.DataVersionDeneb:
		out.Deneb = &apiv1deneb.SignedBlindedBeaconBlock{Message: p.DenebBlinded}
	}
	return out
}
