package harness

import (
	"crypto/sha256"
	"encoding/binary"
)

// Independent SSZ merkleisation of the fixed-size signing containers (DESIGN.md A.2).
// No use of the client library's HashTreeRoot here.

type Chunk = [32]byte

func U64Chunk(v uint64) Chunk {
	var c Chunk
	binary.LittleEndian.PutUint64(c[:8], v)
	return c
}

func BytesChunk(b []byte) Chunk {
	var c Chunk
	copy(c[:], b)
	return c
}

func hash2(a, b Chunk) Chunk {
	h := sha256.New()
	h.Write(a[:])
	h.Write(b[:])
	var c Chunk
	copy(c[:], h.Sum(nil))
	return c
}

// Merkleize pads the chunk list with zero chunks to the next power of two and reduces it.
func Merkleize(chunks ...Chunk) Chunk {
	n := 1
	for n < len(chunks) {
		n *= 2
	}
	layer := make([]Chunk, n)
	copy(layer, chunks)
	for len(layer) > 1 {
		next := make([]Chunk, len(layer)/2)
		for i := range next {
			next[i] = hash2(layer[2*i], layer[2*i+1])
		}
		layer = next
	}
	return layer[0]
}

// BytesVector merkleises a fixed-length byte vector (e.g. 48-byte key, 96-byte signature).
func BytesVector(b []byte) Chunk {
	var chunks []Chunk
	for i := 0; i < len(b); i += 32 {
		end := i + 32
		if end > len(b) {
			end = len(b)
		}
		chunks = append(chunks, BytesChunk(b[i:end]))
	}
	return Merkleize(chunks...)
}

func RefCheckpoint(epoch uint64, root []byte) Chunk {
	return Merkleize(U64Chunk(epoch), BytesChunk(root))
}

func RefAttestationData(slot, index uint64, blockRoot []byte, srcEpoch uint64, srcRoot []byte, tgtEpoch uint64, tgtRoot []byte) Chunk {
	return Merkleize(U64Chunk(slot), U64Chunk(index), BytesChunk(blockRoot), RefCheckpoint(srcEpoch, srcRoot), RefCheckpoint(tgtEpoch, tgtRoot))
}

func RefBlockHeader(slot, proposer uint64, parent, state, body []byte) Chunk {
	return Merkleize(U64Chunk(slot), U64Chunk(proposer), BytesChunk(parent), BytesChunk(state), BytesChunk(body))
}

func RefSigningRoot(objectRoot Chunk, domain []byte) Chunk {
	return Merkleize(objectRoot, BytesChunk(domain))
}

func RefSyncSelectionData(slot, subcommittee uint64) Chunk {
	return Merkleize(U64Chunk(slot), U64Chunk(subcommittee))
}

// RefContribution: slot, beacon_block_root, subcommittee_index, aggregation_bits (Bitvector[128]), signature.
func RefContribution(slot uint64, blockRoot []byte, subcommittee uint64, bits []byte, sig []byte) Chunk {
	return Merkleize(U64Chunk(slot), BytesChunk(blockRoot), U64Chunk(subcommittee), BytesChunk(bits), BytesVector(sig))
}

func RefContributionAndProof(aggregator uint64, contribution Chunk, selectionProof []byte) Chunk {
	return Merkleize(U64Chunk(aggregator), contribution, BytesVector(selectionProof))
}

func RefValidatorRegistration(feeRecipient []byte, gasLimit, timestamp uint64, pubkey []byte) Chunk {
	return Merkleize(BytesChunk(feeRecipient), U64Chunk(gasLimit), U64Chunk(timestamp), BytesVector(pubkey))
}
