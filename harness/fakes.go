package harness

import (
	"context"
	"sort"
	"sync"
	"time"

	eth2client "github.com/attestantio/go-eth2-client"
	apiv1 "github.com/attestantio/go-eth2-client/api/v1"
	"github.com/attestantio/go-eth2-client/spec/phase0"
	"github.com/attestantio/vouch/services/scheduler"
)

// VClock implements chaintime.Service with a settable "now" (virtual time).
// Slot start times are real arithmetic on a base time far in the future so that no real timer fires.
type VClock struct {
	mu            sync.Mutex
	Genesis       time.Time
	SlotDuration  time.Duration
	SlotsPerEpoch uint64
	slot          phase0.Slot
}

// NewVClock creates a clock whose genesis is 1000 days in the future.
func NewVClock(slotDuration time.Duration, slotsPerEpoch uint64) *VClock {
	return &VClock{Genesis: time.Now().Add(1000 * 24 * time.Hour).Truncate(time.Second), SlotDuration: slotDuration, SlotsPerEpoch: slotsPerEpoch}
}

func (c *VClock) SetSlot(s phase0.Slot)  { c.mu.Lock(); c.slot = s; c.mu.Unlock() }
func (c *VClock) GenesisTime() time.Time { return c.Genesis }
func (c *VClock) StartOfSlot(slot phase0.Slot) time.Time {
	return c.Genesis.Add(time.Duration(slot) * c.SlotDuration)
}
func (c *VClock) StartOfEpoch(epoch phase0.Epoch) time.Time {
	return c.Genesis.Add(time.Duration(uint64(epoch)*c.SlotsPerEpoch) * c.SlotDuration)
}
func (c *VClock) CurrentSlot() phase0.Slot { c.mu.Lock(); defer c.mu.Unlock(); return c.slot }
func (c *VClock) CurrentEpoch() phase0.Epoch {
	c.mu.Lock()
	defer c.mu.Unlock()
	return phase0.Epoch(uint64(c.slot) / c.SlotsPerEpoch)
}
func (c *VClock) SlotToEpoch(slot phase0.Slot) phase0.Epoch {
	return phase0.Epoch(uint64(slot) / c.SlotsPerEpoch)
}
func (c *VClock) FirstSlotOfEpoch(epoch phase0.Epoch) phase0.Slot {
	return phase0.Slot(uint64(epoch) * c.SlotsPerEpoch)
}

// SchedCall is one recorded scheduler API call.
type SchedCall struct {
	Op    string
	Name  string
	Class string
	At    time.Time
	Err   error
}

// CapJob is a job captured by CapSched.
type CapJob struct {
	Class    string
	Name     string
	At       time.Time
	Fn       scheduler.JobFunc
	Runtime  scheduler.RuntimeFunc
	Periodic bool
	Ctx      context.Context
}

// CapSched is a scheduler that never runs anything by itself: it keeps a job table with the real
// scheduler's name-uniqueness semantics and lets the driver run jobs. All calls are recorded.
type CapSched struct {
	mu      sync.Mutex
	jobs    map[string]*CapJob
	Calls   []SchedCall
	running map[string]int
	wg      sync.WaitGroup
	// afterSchedule, when set, is called after a job has been entered in the table and before ScheduleJob returns
	// to its caller (outside the lock): a caller that is descheduled right after the scheduler took its job.
	afterSchedule func(name string)
}

// SetAfterSchedule installs (or with nil removes) the after-schedule hook.
func (s *CapSched) SetAfterSchedule(f func(name string)) {
	s.mu.Lock()
	s.afterSchedule = f
	s.mu.Unlock()
}

func NewCapSched() *CapSched {
	return &CapSched{jobs: map[string]*CapJob{}, running: map[string]int{}}
}

func (s *CapSched) rec(op, class, name string, at time.Time, err error) {
	s.Calls = append(s.Calls, SchedCall{Op: op, Name: name, Class: class, At: at, Err: err})
}

func (s *CapSched) ScheduleJob(ctx context.Context, class string, name string, runtime time.Time, job scheduler.JobFunc) error {
	err := s.scheduleJob(ctx, class, name, runtime, job)
	if err == nil {
		s.mu.Lock()
		hook := s.afterSchedule
		s.mu.Unlock()
		if hook != nil {
			hook(name)
		}
	}
	return err
}

func (s *CapSched) scheduleJob(ctx context.Context, class string, name string, runtime time.Time, job scheduler.JobFunc) error {
	s.mu.Lock()
	defer s.mu.Unlock()
	if name == "" {
		s.rec("schedule", class, name, runtime, scheduler.ErrNoJobName)
		return scheduler.ErrNoJobName
	}
	if job == nil {
		s.rec("schedule", class, name, runtime, scheduler.ErrNoJobFunc)
		return scheduler.ErrNoJobFunc
	}
	if _, ok := s.jobs[name]; ok {
		s.rec("schedule", class, name, runtime, scheduler.ErrJobAlreadyExists)
		return scheduler.ErrJobAlreadyExists
	}
	s.jobs[name] = &CapJob{Class: class, Name: name, At: runtime, Fn: job, Ctx: ctx}
	s.rec("schedule", class, name, runtime, nil)
	return nil
}

func (s *CapSched) SchedulePeriodicJob(ctx context.Context, class string, name string, runtime scheduler.RuntimeFunc, job scheduler.JobFunc) error {
	s.mu.Lock()
	defer s.mu.Unlock()
	if _, ok := s.jobs[name]; ok {
		return scheduler.ErrJobAlreadyExists
	}
	s.jobs[name] = &CapJob{Class: class, Name: name, Fn: job, Runtime: runtime, Periodic: true, Ctx: ctx}
	s.rec("schedule-periodic", class, name, time.Time{}, nil)
	return nil
}

func (s *CapSched) CancelJob(_ context.Context, name string) error {
	s.mu.Lock()
	defer s.mu.Unlock()
	if _, ok := s.jobs[name]; !ok {
		s.rec("cancel", "", name, time.Time{}, scheduler.ErrNoSuchJob)
		return scheduler.ErrNoSuchJob
	}
	delete(s.jobs, name)
	s.rec("cancel", "", name, time.Time{}, nil)
	return nil
}

func (s *CapSched) CancelJobIfExists(ctx context.Context, name string) {
	_ = s.CancelJob(ctx, name)
}

func (s *CapSched) CancelJobs(_ context.Context, prefix string) {
	s.mu.Lock()
	defer s.mu.Unlock()
	for name := range s.jobs {
		if len(name) >= len(prefix) && name[:len(prefix)] == prefix {
			delete(s.jobs, name)
			s.rec("cancel", "", name, time.Time{}, nil)
		}
	}
}

// take removes a one-off job (periodic jobs stay) and returns it.
func (s *CapSched) take(name string) *CapJob {
	s.mu.Lock()
	defer s.mu.Unlock()
	j, ok := s.jobs[name]
	if !ok {
		return nil
	}
	if !j.Periodic {
		delete(s.jobs, name)
	}
	s.running[name]++
	return j
}

func (s *CapSched) finish(name string) {
	s.mu.Lock()
	s.running[name]--
	if s.running[name] == 0 {
		delete(s.running, name)
	}
	s.mu.Unlock()
}

// RunJob starts the job on its own goroutine, like the real scheduler (asynchronous).
func (s *CapSched) RunJob(_ context.Context, name string) error {
	j := s.take(name)
	s.mu.Lock()
	if j == nil {
		s.rec("run", "", name, time.Time{}, scheduler.ErrNoSuchJob)
		s.mu.Unlock()
		return scheduler.ErrNoSuchJob
	}
	s.rec("run", "", name, time.Time{}, nil)
	s.mu.Unlock()
	s.wg.Add(1)
	go func() {
		defer s.wg.Done()
		defer s.finish(name)
		j.Fn(j.Ctx)
	}()
	return nil
}

func (s *CapSched) RunJobIfExists(ctx context.Context, name string) { _ = s.RunJob(ctx, name) }

func (s *CapSched) JobExists(_ context.Context, name string) bool {
	s.mu.Lock()
	defer s.mu.Unlock()
	_, ok := s.jobs[name]
	return ok
}

func (s *CapSched) ListJobs(_ context.Context) []string {
	s.mu.Lock()
	defer s.mu.Unlock()
	out := make([]string, 0, len(s.jobs))
	for n := range s.jobs {
		out = append(out, n)
	}
	sort.Strings(out)
	return out
}

// RunSync runs the named job on the caller's goroutine (driver use); false if it does not exist.
func (s *CapSched) RunSync(name string) bool {
	j := s.take(name)
	if j == nil {
		return false
	}
	defer s.finish(name)
	j.Fn(j.Ctx)
	return true
}

// Job returns the captured job.
func (s *CapSched) Job(name string) *CapJob {
	s.mu.Lock()
	defer s.mu.Unlock()
	return s.jobs[name]
}

// Jobs returns a snapshot of the pending jobs sorted by time then name.
func (s *CapSched) Jobs() []*CapJob {
	s.mu.Lock()
	defer s.mu.Unlock()
	out := make([]*CapJob, 0, len(s.jobs))
	for _, j := range s.jobs {
		out = append(out, j)
	}
	sort.Slice(out, func(a, b int) bool {
		if !out[a].At.Equal(out[b].At) {
			return out[a].At.Before(out[b].At)
		}
		return out[a].Name < out[b].Name
	})
	return out
}

// Running reports the names of jobs whose function is executing.
func (s *CapSched) Running() []string {
	s.mu.Lock()
	defer s.mu.Unlock()
	out := make([]string, 0, len(s.running))
	for n := range s.running {
		out = append(out, n)
	}
	sort.Strings(out)
	return out
}

// Wait waits for all asynchronously started jobs.
func (s *CapSched) Wait() { s.wg.Wait() }

// TakeCalls returns and clears the recorded calls.
func (s *CapSched) TakeCalls() []SchedCall {
	s.mu.Lock()
	defer s.mu.Unlock()
	c := s.Calls
	s.Calls = nil
	return c
}

// CapEvents captures event handlers by topic.
type CapEvents struct {
	mu       sync.Mutex
	Handlers map[string][]eth2client.EventHandlerFunc
}

func NewCapEvents() *CapEvents {
	return &CapEvents{Handlers: map[string][]eth2client.EventHandlerFunc{}}
}

func (e *CapEvents) Events(_ context.Context, topics []string, handler eth2client.EventHandlerFunc) error {
	e.mu.Lock()
	defer e.mu.Unlock()
	for _, t := range topics {
		e.Handlers[t] = append(e.Handlers[t], handler)
	}
	return nil
}

// Emit delivers the event to every handler of the topic, on the caller's goroutine.
func (e *CapEvents) Emit(topic string, data any) {
	e.mu.Lock()
	hs := append([]eth2client.EventHandlerFunc{}, e.Handlers[topic]...)
	e.mu.Unlock()
	for _, h := range hs {
		h(&apiv1.Event{Topic: topic, Data: data})
	}
}
