//go:build !race

package harness

// RaceEnabled reports whether the binary was built with the race detector.
const RaceEnabled = false
