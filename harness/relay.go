package harness

import (
	"context"
	"errors"
	"sync"
	"time"

	builderapi "github.com/attestantio/go-builder-client/api"
	builderdeneb "github.com/attestantio/go-builder-client/api/deneb"
	builderv1 "github.com/attestantio/go-builder-client/api/v1"
	builderspec "github.com/attestantio/go-builder-client/spec"
	consensusapi "github.com/attestantio/go-eth2-client/api"
	"github.com/attestantio/go-eth2-client/spec"
	"github.com/attestantio/go-eth2-client/spec/bellatrix"
	"github.com/attestantio/go-eth2-client/spec/deneb"
	"github.com/attestantio/go-eth2-client/spec/phase0"
	"github.com/holiman/uint256"
)

// BidSpec describes one bid a relay offers.
type BidSpec struct {
	Value      uint64 `json:"value"`
	Builder    int    `json:"builder"` // builder identity (key number)
	Header     int    `json:"header"`  // payload identity: relays offering the same header offer the same payload
	ZeroFeeRec bool   `json:"zero_fee_recipient,omitempty"`
	BadTime    bool   `json:"wrong_timestamp,omitempty"`
	BadSig     bool   `json:"bad_signature,omitempty"`
	Empty      bool   `json:"empty,omitempty"`
	Nil        bool   `json:"nil,omitempty"`
}

// Served is one answer a relay gave.
type Served struct {
	At  time.Duration
	Bid *BidSpec // nil for error / nil bid
	Err bool
}

// Relay is a scripted MEV relay (builder client).
type Relay struct {
	Addr      string
	KeyNo     int  // relay BLS key number
	HasPubkey bool // whether Pubkey() reveals the relay key
	// Script: the bid offered at elapsed time t is the last step with At <= t.
	Steps []struct {
		At  time.Duration
		Bid *BidSpec
		Err bool
	}
	Latency time.Duration
	Silent  bool // block until the context ends
	Start   time.Time
	SlotTS  uint64 // timestamp of the slot start
	Parent  phase0.Hash32

	mu       sync.Mutex
	Served   []Served
	Regs     [][]*builderapi.VersionedSignedValidatorRegistration
	Unblinds []*builderapi.UnblindProposalOpts
	RegErr   bool
	// RegHold, when set, is called when a registration request arrives, before it is recorded; an error aborts the request.
	RegHold func(ctx context.Context) error
	// UnblindFn decides the unblinding reply (nil: error).
	UnblindFn func(ctx context.Context, opts *builderapi.UnblindProposalOpts) (*consensusapi.VersionedSignedProposal, error)
}

func (r *Relay) Name() string    { return "fake relay" }
func (r *Relay) Address() string { return r.Addr }
func (r *Relay) Pubkey() *phase0.BLSPubKey {
	if !r.HasPubkey {
		return nil
	}
	pk := RelayPub(r.KeyNo)
	return &pk
}

// RelayPub returns the public key of relay key number n.
func RelayPub(n int) phase0.BLSPubKey {
	var pk phase0.BLSPubKey
	copy(pk[:], Keys.Key(5000+n).PublicKey().Marshal())
	return pk
}

// BuilderPub returns the identity of builder n.
func BuilderPub(n int) phase0.BLSPubKey {
	var pk phase0.BLSPubKey
	copy(pk[:], Keys.Key(6000+n).PublicKey().Marshal())
	return pk
}

// HeaderHash is the block hash that identifies payload h.
func HeaderHash(h int) phase0.Hash32 {
	var x phase0.Hash32
	x[0], x[1], x[31] = byte(h>>8), byte(h), 0xbd
	x[2] = 1
	return x
}

// BuildBid constructs and signs the bid on the relay's configured parent.
func (r *Relay) BuildBid(b *BidSpec) *builderspec.VersionedSignedBuilderBid {
	return r.BuildBidOn(b, r.Parent)
}

// BuildBidOn constructs and signs the bid for a payload built on the given parent.
func (r *Relay) BuildBidOn(b *BidSpec, parent phase0.Hash32) *builderspec.VersionedSignedBuilderBid {
	if b.Empty {
		return &builderspec.VersionedSignedBuilderBid{Version: spec.DataVersionDeneb}
	}
	fr := bellatrix.ExecutionAddress{9, 9, 9}
	if b.ZeroFeeRec {
		fr = bellatrix.ExecutionAddress{}
	}
	ts := r.SlotTS
	if b.BadTime {
		ts += 12
	}
	msg := &builderdeneb.BuilderBid{
		Header: &deneb.ExecutionPayloadHeader{ParentHash: parent, FeeRecipient: fr, Timestamp: ts, BlockHash: HeaderHash(b.Header),
			BaseFeePerGas: uint256.NewInt(7), BlockNumber: uint64(b.Header), GasLimit: 30000000},
		Value:  uint256.NewInt(b.Value),
		Pubkey: BuilderPub(b.Builder),
	}
	bid := &builderspec.VersionedSignedBuilderBid{Version: spec.DataVersionDeneb, Deneb: &builderdeneb.SignedBuilderBid{Message: msg}}
	root, err := bid.MessageHashTreeRoot()
	if err != nil {
		panic(err)
	}
	dom := DomainFor(DomainTypes["DOMAIN_APPLICATION_BUILDER"], 0, true)
	sr := RefSigningRoot(Chunk(root), dom[:])
	key := Keys.Key(5000 + r.KeyNo)
	if b.BadSig {
		key = Keys.Key(5999)
	}
	copy(bid.Deneb.Signature[:], key.Sign(sr[:]).Marshal())
	return bid
}

func (r *Relay) BuilderBid(ctx context.Context, opts *builderapi.BuilderBidOpts) (*builderapi.Response[*builderspec.VersionedSignedBuilderBid], error) {
	if r.Silent {
		<-ctx.Done()
		return nil, ctx.Err()
	}
	if r.Latency > 0 {
		select {
		case <-time.After(r.Latency):
		case <-ctx.Done():
			return nil, ctx.Err()
		}
	}
	el := time.Since(r.Start)
	var cur *BidSpec
	curErr := false
	for _, st := range r.Steps {
		if st.At <= el {
			cur, curErr = st.Bid, st.Err
		}
	}
	r.mu.Lock()
	r.Served = append(r.Served, Served{At: el, Bid: cur, Err: curErr || cur == nil})
	r.mu.Unlock()
	if curErr || cur == nil {
		return nil, errors.New("scripted relay error")
	}
	if cur.Nil {
		return &builderapi.Response[*builderspec.VersionedSignedBuilderBid]{Data: nil, Metadata: map[string]any{}}, nil
	}
	// a relay bids on the parent it is asked about
	parent := r.Parent
	if opts != nil && opts.ParentHash != (phase0.Hash32{}) {
		parent = opts.ParentHash
	}
	return &builderapi.Response[*builderspec.VersionedSignedBuilderBid]{Data: r.BuildBidOn(cur, parent), Metadata: map[string]any{}}, nil
}

func (r *Relay) SubmitValidatorRegistrations(ctx context.Context, opts *builderapi.SubmitValidatorRegistrationsOpts) error {
	r.mu.Lock()
	hold := r.RegHold
	r.mu.Unlock()
	if hold != nil {
		// a request that is given up (its context ends) before the relay has taken it never reaches the relay
		if err := hold(ctx); err != nil {
			return err
		}
	}
	r.mu.Lock()
	r.Regs = append(r.Regs, opts.Registrations)
	fail := r.RegErr
	r.mu.Unlock()
	if fail {
		return errors.New("scripted registration failure")
	}
	return nil
}

func (r *Relay) UnblindProposal(ctx context.Context, opts *builderapi.UnblindProposalOpts) (*builderapi.Response[*consensusapi.VersionedSignedProposal], error) {
	r.mu.Lock()
	r.Unblinds = append(r.Unblinds, opts)
	f := r.UnblindFn
	r.mu.Unlock()
	if f == nil {
		return nil, errors.New("scripted unblinding failure")
	}
	p, err := f(ctx, opts)
	if err != nil {
		return nil, err
	}
	return &builderapi.Response[*consensusapi.VersionedSignedProposal]{Data: p, Metadata: map[string]any{}}, nil
}

// ServedSnapshot copies what was served.
func (r *Relay) ServedSnapshot() []Served {
	r.mu.Lock()
	defer r.mu.Unlock()
	return append([]Served{}, r.Served...)
}

// RegsSnapshot copies the registrations received.
func (r *Relay) RegsSnapshot() [][]*builderapi.VersionedSignedValidatorRegistration {
	r.mu.Lock()
	defer r.mu.Unlock()
	return append([][]*builderapi.VersionedSignedValidatorRegistration{}, r.Regs...)
}

var _ = builderv1.ValidatorRegistration{}

// SetUnblindFn replaces the unblinding behaviour.
func (r *Relay) SetUnblindFn(f func(ctx context.Context, opts *builderapi.UnblindProposalOpts) (*consensusapi.VersionedSignedProposal, error)) {
	r.mu.Lock()
	r.UnblindFn = f
	r.mu.Unlock()
}

// SetRegHold installs (or with nil removes) the hold on registration requests.
func (r *Relay) SetRegHold(f func(ctx context.Context) error) {
	r.mu.Lock()
	r.RegHold = f
	r.mu.Unlock()
}
