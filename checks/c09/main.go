// C09: the relay auction selects the best eligible bid and only eligible bids.
// Monitor: the real builderbid strategies (best, deadline) over scripted relays injected through the
// builder-client cache hook; bids are signed with real relay BLS keys; the oracle recomputes eligibility and
// scores over what each relay was measured to have served in time.
package main

import (
	"context"
	"fmt"
	"math/big"
	"math/rand"
	"sort"
	"strings"
	"sync"
	"sync/atomic"
	"time"

	"github.com/attestantio/go-block-relay/services/blockauctioneer"
	"github.com/attestantio/go-eth2-client/spec/bellatrix"
	"github.com/attestantio/go-eth2-client/spec/phase0"
	"github.com/attestantio/vouch/services/beaconblockproposer"
	"github.com/attestantio/vouch/services/blockrelay"
	nullmetrics "github.com/attestantio/vouch/services/metrics/null"
	bidbest "github.com/attestantio/vouch/strategies/builderbid/best"
	biddeadline "github.com/attestantio/vouch/strategies/builderbid/deadline"
	"github.com/attestantio/vouch/util"
	"github.com/rs/zerolog"
	"github.com/shopspring/decimal"
	"verif/checks/relaycommon"
	"verif/harness"
)

const (
	timeout = 800 * time.Millisecond
	margin  = 130 * time.Millisecond
	slack   = 700 * time.Millisecond
	theSlot = phase0.Slot(123456)
)

type relaySpec struct {
	Lat      string           `json:"latency"` // fast | mid | late | silent | error
	Bid      *harness.BidSpec `json:"bid,omitempty"`
	Second   *harness.BidSpec `json:"second_bid,omitempty"` // deadline strategy: offered from 350 ms on
	MinValue uint64           `json:"min_value"`
	KeyKnown string           `json:"relay_key"` // config | provider | unknown
}

type builderCfg struct {
	Factor *int64 `json:"factor,omitempty"`
	Offset *int64 `json:"offset,omitempty"`
}

type acase struct {
	Strategy string             `json:"strategy"`
	Via      string             `json:"via,omitempty"` // "blockrelay": through the real block relay service
	Relays   []relaySpec        `json:"relays"`
	Builders map[int]builderCfg `json:"builder_configs"`
}

func genBid(r *rand.Rand, headerPool []int) *harness.BidSpec {
	b := &harness.BidSpec{Value: uint64(1+r.Intn(12)) * 1000, Builder: r.Intn(4)}
	// a payload (header) is built by one builder with one value; relays may carry the same payload
	if len(headerPool) > 0 && r.Intn(3) == 0 {
		h := headerPool[r.Intn(len(headerPool))]
		b.Header = h
		b.Builder = h % 4
		b.Value = uint64(1+(h/4)%12) * 1000
	} else {
		b.Header = int(b.Value/1000-1)*4 + b.Builder + 48*r.Intn(3)
	}
	switch r.Intn(14) {
	case 0:
		b.ZeroFeeRec = true
	case 1:
		b.BadTime = true
	case 2:
		b.BadSig = true
	case 3:
		b.Empty = true
	case 4:
		b.Nil = true
	}
	return b
}

func genCase(r *rand.Rand, strategy string) *acase {
	c := &acase{Strategy: strategy, Builders: map[int]builderCfg{}}
	for b := 0; b < 4; b++ {
		switch r.Intn(6) {
		case 0:
			f := int64(0) // excluded builder
			c.Builders[b] = builderCfg{Factor: &f}
		case 1:
			f := int64([]int{50, 150, 100, 99}[r.Intn(4)])
			o := int64(r.Intn(5000) - 900)
			c.Builders[b] = builderCfg{Factor: &f, Offset: &o}
		case 2:
			o := int64(r.Intn(6000) - 900)
			c.Builders[b] = builderCfg{Offset: &o}
		case 3:
			f := int64([]int{50, 150, 200, 10}[r.Intn(4)])
			c.Builders[b] = builderCfg{Factor: &f}
		}
	}
	n := 1 + r.Intn(6)
	var headers []int
	for i := 0; i < n; i++ {
		rs := relaySpec{Lat: []string{"fast", "fast", "fast", "mid", "mid", "late", "silent", "error"}[r.Intn(8)], KeyKnown: []string{"config", "provider", "unknown"}[r.Intn(3)]}
		if strategy == "deadline" && rs.Lat != "silent" && rs.Lat != "error" {
			rs.Lat = "fast"
		}
		if rs.Lat != "silent" && rs.Lat != "error" {
			rs.Bid = genBid(r, headers)
			headers = append(headers, rs.Bid.Header)
			if strategy == "deadline" && r.Intn(2) == 0 {
				rs.Second = genBid(r, headers)
				headers = append(headers, rs.Second.Header)
				if r.Intn(3) == 0 {
					// the same payload offered again at another price (the value is not part of the header),
					// possibly with a signature that does not verify
					cp := *rs.Bid
					cp.Value = uint64(1+r.Intn(14)) * 1000
					cp.BadSig = r.Intn(2) == 0
					rs.Second = &cp
				}
			}
		}
		if r.Intn(3) == 0 {
			rs.MinValue = uint64(1+r.Intn(12)) * 1000
		}
		c.Relays = append(c.Relays, rs)
	}
	return c
}

func scoreOf(b *harness.BidSpec, cfgs map[int]builderCfg) *big.Int {
	s := new(big.Int).SetUint64(b.Value)
	if cfg, ok := cfgs[b.Builder]; ok {
		if cfg.Offset != nil {
			s.Add(s, big.NewInt(*cfg.Offset))
		}
		if cfg.Factor != nil {
			s.Mul(s, big.NewInt(*cfg.Factor))
			s.Div(s, big.NewInt(100))
		}
	}
	return s
}

func eligible(b *harness.BidSpec, rs relaySpec, cfgs map[int]builderCfg) bool {
	if b == nil || b.Nil || b.Empty || b.Value == 0 || b.Value < rs.MinValue || b.ZeroFeeRec || b.BadTime {
		return false
	}
	if b.BadSig && rs.KeyKnown != "unknown" {
		return false
	}
	return scoreOf(b, cfgs).Sign() != 0
}

var caseNo int64
var caseMu sync.Mutex

var judgedCases, stalledCases atomic.Int64

type strategySvc interface {
	BuilderBid(ctx context.Context, slot phase0.Slot, parentHash phase0.Hash32, pubkey phase0.BLSPubKey, proposerConfig *beaconblockproposer.ProposerConfig,
		builderConfigs map[phase0.BLSPubKey]*blockrelay.BuilderConfig) (*blockauctioneer.Results, error)
}

// viaRelay runs the auction through the real block relay service: the proposer settings come from its execution
// configuration document, the builder configurations from its parameters, and the strategy is the one it was given.
type viaRelay struct {
	env  *relaycommon.Env
	acct harness.Acct
}

func (v viaRelay) BuilderBid(ctx context.Context, slot phase0.Slot, parentHash phase0.Hash32, _ phase0.BLSPubKey, _ *beaconblockproposer.ProposerConfig,
	_ map[phase0.BLSPubKey]*blockrelay.BuilderConfig) (*blockauctioneer.Results, error) {
	return v.env.Svc.AuctionBlock(ctx, slot, parentHash, v.acct.Pub48())
}

func builderConfigsOf(ac *acase) map[phase0.BLSPubKey]*blockrelay.BuilderConfig {
	out := map[phase0.BLSPubKey]*blockrelay.BuilderConfig{}
	for b, bc := range ac.Builders {
		cfg := &blockrelay.BuilderConfig{Category: "priority"}
		if bc.Factor != nil {
			cfg.Factor = big.NewInt(*bc.Factor)
		}
		if bc.Offset != nil {
			cfg.Offset = big.NewInt(*bc.Offset)
		}
		out[harness.BuilderPub(b)] = cfg
	}
	return out
}

func relayAddr(c *harness.Ctx, uniq, i int) string {
	return fmt.Sprintf("http://relay%d-%d-%d.example.com/", c.Batch, uniq, i)
}

func runCase(c *harness.Ctx, id string, ac *acase, uniq int) {
	ctx := context.Background()
	parent := phase0.Hash32{7, 7, 7}
	clock := harness.NewVClock(12*time.Second, 32)
	specP := harness.NewSpec(32, nil)
	var via *viaRelay
	if ac.Via == "blockrelay" {
		// everything that takes time is done before the time base is fixed
		inner, err := bidbest.New(ctx, bidbest.WithLogLevel(zerolog.Disabled), bidbest.WithMonitor(nullmetrics.New()), bidbest.WithSpecProvider(specP), bidbest.WithDomainProvider(harness.RecDomains{}),
			bidbest.WithChainTime(clock), bidbest.WithTimeout(timeout), bidbest.WithReleaseVersion("verif"))
		if err != nil {
			c.Inconclusive("cannot build strategy: " + err.Error())
			return
		}
		acct := harness.NewAcct(harness.KindPlain, "W", "c09", 1500+uniq%4, phase0.ValidatorIndex(7000+uniq%4), nil)
		env, err := relaycommon.NewEnvWith([]harness.Acct{acct}, 0, relaycommon.Outcome{Kind: "error"}, &relaycommon.Bidder{Inner: inner}, builderConfigsOf(ac))
		if err != nil {
			c.Inconclusive("cannot build block relay: " + err.Error())
			return
		}
		var parts []string
		for i, rs := range ac.Relays {
			f := fmt.Sprintf(`"min_value":"0.%018d"`, rs.MinValue)
			if rs.KeyKnown == "config" {
				f += fmt.Sprintf(`,"public_key":"%#x"`, harness.RelayPub(i))
			}
			parts = append(parts, fmt.Sprintf("%q:{%s}", relayAddr(c, uniq, i), f))
		}
		doc := fmt.Sprintf(`{"version":2,"fee_recipient":"0x0909090000000000000000000000000000000000","relays":{%s}}`, strings.Join(parts, ","))
		env.Config.Set(relaycommon.Outcome{Kind: "valid", Doc: doc})
		if !env.Refresh() {
			c.Inconclusive("configuration fetch job missing")
			return
		}
		via = &viaRelay{env, acct}
	}
	now := time.Now()
	// chain time: the slot starts 100 ms from now (deadline strategy measures from the slot start)
	slotStart := now.Add(100 * time.Millisecond).Truncate(time.Second)
	if ac.Strategy == "deadline" {
		// the slot start must be a whole second (bid timestamps are in seconds); place it just behind us
		slotStart = now.Truncate(time.Second)
	}
	clock.Genesis = slotStart.Add(-time.Duration(theSlot) * 12 * time.Second)
	deadlineAfterSlot := now.Add(timeout).Sub(slotStart) // absolute deadline = now + timeout

	cfgs := builderConfigsOf(ac)
	pc := &beaconblockproposer.ProposerConfig{FeeRecipient: bellatrix.ExecutionAddress{9, 9, 9}}
	relays := make([]*harness.Relay, len(ac.Relays))
	for i, rs := range ac.Relays {
		rl := &harness.Relay{Addr: relayAddr(c, uniq, i), KeyNo: i, HasPubkey: rs.KeyKnown == "provider", Start: now,
			SlotTS: uint64(slotStart.Unix()), Parent: parent}
		switch rs.Lat {
		case "fast":
			rl.Latency = time.Duration(5+uniq%50) * time.Millisecond
		case "mid":
			rl.Latency = 600 * time.Millisecond
		case "late":
			rl.Latency = 1080 * time.Millisecond
		case "silent":
			rl.Silent = true
		}
		step := func(at time.Duration, b *harness.BidSpec, e bool) {
			rl.Steps = append(rl.Steps, struct {
				At  time.Duration
				Bid *harness.BidSpec
				Err bool
			}{at, b, e})
		}
		if rs.Lat == "error" {
			step(0, nil, true)
		} else if rs.Bid != nil {
			step(0, rs.Bid, false)
			if rs.Second != nil {
				step(350*time.Millisecond, rs.Second, false)
			}
		}
		relays[i] = rl
		util.VerifSetBuilderClient(rl.Addr, rl)
		rc := &beaconblockproposer.RelayConfig{Address: rl.Addr, FeeRecipient: pc.FeeRecipient, GasLimit: 30000000, MinValue: decimal.NewFromInt(int64(rs.MinValue))}
		if rs.KeyKnown == "config" {
			pk := harness.RelayPub(i)
			rc.PublicKey = &pk
		}
		pc.Relays = append(pc.Relays, rc)
	}
	var svc strategySvc
	var err error
	if via != nil {
		svc = via
	} else if ac.Strategy == "best" {
		svc, err = bidbest.New(ctx, bidbest.WithLogLevel(zerolog.Disabled), bidbest.WithMonitor(nullmetrics.New()), bidbest.WithSpecProvider(specP), bidbest.WithDomainProvider(harness.RecDomains{}),
			bidbest.WithChainTime(clock), bidbest.WithTimeout(timeout), bidbest.WithReleaseVersion("verif"))
	} else {
		svc, err = biddeadline.New(ctx, biddeadline.WithLogLevel(zerolog.Disabled), biddeadline.WithMonitor(nullmetrics.New()), biddeadline.WithSpecProvider(specP), biddeadline.WithDomainProvider(harness.RecDomains{}),
			biddeadline.WithChainTime(clock), biddeadline.WithDeadline(deadlineAfterSlot), biddeadline.WithBidGap(100*time.Millisecond), biddeadline.WithReleaseVersion("verif"))
	}
	if err != nil {
		c.Inconclusive("cannot build strategy: " + err.Error())
		return
	}
	type out struct {
		res *blockauctioneer.Results
		err error
	}
	done := make(chan out, 1)
	lag := time.Since(now)
	if lag > 40*time.Millisecond {
		c.Count("cases_skipped_setup_lag", 1)
		return // the machine stalled between fixing the time base and the call: the timing classes would be off
	}
	go func() {
		res, err := svc.BuilderBid(ctx, theSlot, parent, phase0.BLSPubKey{1}, pc, cfgs)
		done <- out{res, err}
	}()
	var o out
	select {
	case o = <-done:
	case <-time.After(10 * time.Second):
		c.Violate("auction-never-returns:"+ac.Strategy, "auction did not return within 10 s", id, map[string]any{"case": ac})
		return
	}
	took := time.Since(now)
	// let every relay finish answering, so that bids the auction did not wait for are known to the oracle too
	if rest := 1150*time.Millisecond - took; rest > 0 {
		time.Sleep(rest)
	}
	// what was served, and when
	type offer struct {
		relay int
		bid   *harness.BidSpec
		at    time.Duration
	}
	var offers []offer
	var servedDesc []string
	for i, rl := range relays {
		for _, sv := range rl.ServedSnapshot() {
			if sv.Bid != nil && !sv.Err {
				offers = append(offers, offer{i, sv.Bid, sv.At})
			}
			servedDesc = append(servedDesc, fmt.Sprintf("relay%d@%dms:%+v", i, sv.At.Milliseconds(), sv.Bid))
		}
	}
	detail := map[string]any{"case": ac, "served": servedDesc, "took_ms": took.Milliseconds(), "error": fmt.Sprint(o.err)}
	// was the process starved of CPU while the auction ran? then measured times say nothing about the strategy
	stalled := harness.MaxStallSince(now) > 60*time.Millisecond
	judgedCases.Add(1)
	if stalled {
		stalledCases.Add(1)
		c.Count("cases_with_timing_verdicts_skipped_process_stalled", 1)
	}
	timing := map[string]bool{"eligible-bid-but-no-winner": true, "not-the-best-bid": true, "auction-late": true, "ineligible-bid-won:late": true}
	fail := func(key, what string) {
		if stalled && timing[key] {
			return
		}
		c.Violate(key+":"+ac.Strategy, what, id, detail)
	}
	if o.err != nil || o.res == nil {
		fail("auction-error", "auction returned an error instead of a result: "+fmt.Sprint(o.err))
		return
	}
	if took > timeout+slack {
		fail("auction-late", fmt.Sprintf("auction returned after %v (deadline %v)", took, timeout))
	}
	res := o.res
	if via != nil {
		// what the block relay then serves to a beacon node asking for the bid of this slot, parent and proposer
		served, serr := via.env.Svc.BuilderBid(ctx, theSlot, parent, via.acct.Pub48())
		c.Count("bids_served_by_block_relay", 1)
		switch {
		case res.WinningParticipation == nil && served != nil:
			fail("served-bid-without-winner", "the auction had no winner but the block relay serves a bid to the beacon node (the local payload would not be used)")
		case res.WinningParticipation != nil && (served == nil || serr != nil):
			fail("winner-not-served", fmt.Sprintf("the auction has a winner but the block relay serves no bid to the beacon node (err %v)", serr))
		case res.WinningParticipation != nil:
			sh, _ := served.BlockHash()
			sv, _ := served.Value()
			wh, _ := res.WinningParticipation.Bid.BlockHash()
			wv, _ := res.WinningParticipation.Bid.Value()
			if sh != wh || sv.Cmp(wv) != 0 {
				fail("served-bid-is-not-the-winner", fmt.Sprintf("the block relay serves bid %x/%s, the auction's winner is %x/%s", sh[:3], sv, wh[:3], wv))
			}
		}
		// a request for the same slot and proposer on another parent (a reorg inside the slot) is not answered with this
		// auction's result: whatever is served builds on the parent asked for
		other := phase0.Hash32{8, 8, 8}
		if served2, _ := via.env.Svc.BuilderBid(ctx, theSlot, other, via.acct.Pub48()); served2 != nil {
			if ph, err := served2.ParentHash(); err == nil && ph != other {
				fail("served-bid-of-another-parent", fmt.Sprintf("asked for a bid on parent %x the block relay serves one built on parent %x (the result of the auction held for that other parent)", other[:3], ph[:3]))
			}
		}
		c.Count("bids_asked_on_another_parent", 1)
		// A second auction for the same slot, parent and proposer in which no relay offers anything any more (the
		// beacon node asks again after the relays withdrew): its result, no winner, is what is served from then on.
		if res.WinningParticipation != nil && uniq%2 == 0 {
			for k, rl := range relays {
				rl.Silent, rl.Latency = false, 5*time.Millisecond
				rl.Steps = rl.Steps[:0]
				rl.Steps = append(rl.Steps, struct {
					At  time.Duration
					Bid *harness.BidSpec
					Err bool
				}{0, nil, k%2 == 0})
			}
			res2, err2 := via.env.Svc.AuctionBlock(ctx, theSlot, parent, via.acct.Pub48())
			if err2 == nil && res2 != nil && res2.WinningParticipation == nil {
				if served3, _ := via.env.Svc.BuilderBid(ctx, theSlot, parent, via.acct.Pub48()); served3 != nil {
					fail("served-bid-without-winner:after-an-earlier-winner", "a second auction for the same slot, parent and proposer had no winner, yet the block relay still serves the first auction's bid to the beacon node")
				}
				c.Count("second_auctions_without_winner", 1)
			}
		}
	}
	// eligible offers that clearly arrived / may have arrived before the deadline
	var defBest, genBest *big.Int
	for _, of := range offers {
		if !eligible(of.bid, ac.Relays[of.relay], ac.Builders) {
			continue
		}
		sc := scoreOf(of.bid, ac.Builders)
		limitDef, limitGen := timeout-margin, timeout+margin
		if ac.Strategy == "deadline" {
			limitDef = timeout - 100*time.Millisecond - margin // last poll is one bid gap before the deadline
		}
		if of.at < limitDef && (defBest == nil || sc.Cmp(defBest) > 0) {
			defBest = sc
		}
		if of.at < limitGen && (genBest == nil || sc.Cmp(genBest) > 0) {
			genBest = sc
		}
	}
	if res.WinningParticipation == nil {
		if defBest != nil {
			fail("eligible-bid-but-no-winner", fmt.Sprintf("an eligible bid with score %s arrived clearly before the deadline but the result has no winner", defBest))
		}
		if len(res.Providers) != 0 {
			fail("providers-without-winner", "result lists relays for unblinding but has no winning bid")
		}
		c.Count("auctions_without_winner", 1)
		return
	}
	c.Count("auctions_with_winner", 1)
	wb := res.WinningParticipation.Bid
	wHash, _ := wb.BlockHash()
	wVal, _ := wb.Value()
	wBuilder, _ := wb.Builder()
	detail["winner"] = fmt.Sprintf("header %x value %s score %s", wHash[:3], wVal, res.WinningParticipation.Score)
	// the winner is one of the offers, eligible, in time
	var winOffers []offer
	for _, of := range offers {
		if harness.HeaderHash(of.bid.Header) == wHash && wVal.Uint64() == of.bid.Value && harness.BuilderPub(of.bid.Builder) == wBuilder && !of.bid.Empty && !of.bid.Nil {
			winOffers = append(winOffers, of)
		}
	}
	if len(winOffers) == 0 {
		fail("winner-nobody-offered", "the winning bid was offered by no relay")
		return
	}
	okElig := false
	for _, of := range winOffers {
		if eligible(of.bid, ac.Relays[of.relay], ac.Builders) && of.at < timeout+margin {
			okElig = true
		}
	}
	if !okElig {
		why := "ineligible"
		of := winOffers[0]
		switch {
		case of.at >= timeout+margin:
			why = "late"
		case of.bid.ZeroFeeRec:
			why = "zero-fee-recipient"
		case of.bid.BadTime:
			why = "wrong-timestamp"
		case of.bid.BadSig:
			why = "bad-signature"
		case of.bid.Value < ac.Relays[of.relay].MinValue:
			why = "below-minimum"
		case scoreOf(of.bid, ac.Builders).Sign() == 0:
			why = "excluded-builder"
		}
		fail("ineligible-bid-won:"+why, "the winning bid is not eligible ("+why+")")
		return
	}
	wantScore := scoreOf(winOffers[0].bid, ac.Builders)
	if res.WinningParticipation.Score == nil || res.WinningParticipation.Score.Cmp(wantScore) != 0 {
		fail("winner-score-wrong", fmt.Sprintf("winning score %v, (value+offset)*factor/100 is %s", res.WinningParticipation.Score, wantScore))
	}
	if defBest != nil && wantScore.Cmp(defBest) < 0 {
		fail("not-the-best-bid", fmt.Sprintf("winner has score %s although an eligible bid with score %s arrived clearly before the deadline", wantScore, defBest))
	}
	// providers: each offered the winning payload; the winner's relay is among them
	if len(res.Providers) == 0 {
		fail("winner-without-providers", "winning bid but no relay listed for unblinding")
	}
	hasWinnerRelay := false
	for _, p := range res.Providers {
		offered := false
		for _, of := range offers {
			if relays[of.relay].Addr == p.Address() && harness.HeaderHash(of.bid.Header) == wHash && !of.bid.Empty && !of.bid.Nil {
				offered = true
				for _, w := range winOffers {
					if w.relay == of.relay {
						hasWinnerRelay = true
					}
				}
			}
		}
		if !offered {
			fail("provider-did-not-offer-winning-payload", "relay "+p.Address()+" is listed for unblinding but never offered the winning payload")
		}
	}
	if len(res.Providers) > 0 && !hasWinnerRelay {
		fail("winner-relay-not-listed", "no relay that offered the winning bid is listed for unblinding")
	}
	if len(res.AllProviders) != len(relays) {
		fail("all-providers-incomplete", fmt.Sprintf("AllProviders lists %d of %d relays", len(res.AllProviders), len(relays)))
	}
}

// concurrentServe: several beacon nodes ask the block relay for the bid of a proposer it has held no auction for, at the
// same time. The first auction finds no acceptable bid; a relay starts offering one while that auction is still under
// way. Whatever the interleaving, there was one auction, it had no winner, so every caller is told "no bid".
func concurrentServe(c *harness.Ctx, id string, r *rand.Rand, uniq int) {
	ctx := context.Background()
	parent := phase0.Hash32{7, 7, 7}
	clock := harness.NewVClock(12*time.Second, 32)
	specP := harness.NewSpec(32, nil)
	inner, err := bidbest.New(ctx, bidbest.WithLogLevel(zerolog.Disabled), bidbest.WithMonitor(nullmetrics.New()), bidbest.WithSpecProvider(specP), bidbest.WithDomainProvider(harness.RecDomains{}),
		bidbest.WithChainTime(clock), bidbest.WithTimeout(timeout), bidbest.WithReleaseVersion("verif"))
	if err != nil {
		c.Inconclusive("cannot build strategy: " + err.Error())
		return
	}
	acct := harness.NewAcct(harness.KindPlain, "W", "c09s", 1510+uniq%4, phase0.ValidatorIndex(7100+uniq%4), nil)
	env, err := relaycommon.NewEnvWith([]harness.Acct{acct}, 0, relaycommon.Outcome{Kind: "error"}, &relaycommon.Bidder{Inner: inner}, map[phase0.BLSPubKey]*blockrelay.BuilderConfig{})
	if err != nil {
		c.Inconclusive("cannot build block relay: " + err.Error())
		return
	}
	addrA, addrB := fmt.Sprintf("http://serveA%d-%d.example.com/", c.Batch, uniq), fmt.Sprintf("http://serveB%d-%d.example.com/", c.Batch, uniq)
	env.Config.Set(relaycommon.Outcome{Kind: "valid", Doc: fmt.Sprintf(`{"version":2,"fee_recipient":"0x0909090000000000000000000000000000000000","relays":{%q:{},%q:{}}}`, addrA, addrB)})
	if !env.Refresh() {
		c.Inconclusive("configuration fetch job missing")
		return
	}
	now := time.Now()
	slotStart := now.Truncate(time.Second)
	clock.Genesis = slotStart.Add(-time.Duration(theSlot) * 12 * time.Second)
	bad := []*harness.BidSpec{{Value: 5000, Builder: 1, Header: 3, BadTime: true}, {Value: 5000, Builder: 1, Header: 3, ZeroFeeRec: true}, nil}[r.Intn(3)]
	mk := func(addr string, keyNo int, lat time.Duration, steps ...any) *harness.Relay {
		rl := &harness.Relay{Addr: addr, KeyNo: keyNo, Start: now, SlotTS: uint64(slotStart.Unix()), Parent: parent, Latency: lat}
		for i := 0; i < len(steps); i += 2 {
			b, _ := steps[i+1].(*harness.BidSpec)
			rl.Steps = append(rl.Steps, struct {
				At  time.Duration
				Bid *harness.BidSpec
				Err bool
			}{steps[i].(time.Duration), b, b == nil})
		}
		util.VerifSetBuilderClient(addr, rl)
		return rl
	}
	slow := time.Duration(200+r.Intn(200)) * time.Millisecond
	relayA := mk(addrA, 0, slow, time.Duration(0), bad)
	relayB := mk(addrB, 1, 0, time.Duration(0), bad, slow/2, &harness.BidSpec{Value: 9000, Builder: 2, Header: 9})
	callers := 2 + r.Intn(3)
	var wg sync.WaitGroup
	type ans struct {
		bid bool
		err error
	}
	answers := make([]ans, callers)
	for k := 0; k < callers; k++ {
		wg.Add(1)
		go func(k int) {
			defer wg.Done()
			time.Sleep(time.Duration(k) * 10 * time.Millisecond)
			b, err := env.Svc.BuilderBid(ctx, theSlot, parent, acct.Pub48())
			answers[k] = ans{b != nil, err}
		}(k)
	}
	done := make(chan struct{})
	go func() { wg.Wait(); close(done) }()
	select {
	case <-done:
	case <-time.After(15 * time.Second):
		c.Violate("serve-never-returns", "concurrent bid requests to the block relay did not return within 15 s", id, nil)
		return
	}
	nA, nB := len(relayA.ServedSnapshot()), len(relayB.ServedSnapshot())
	detail := map[string]any{"callers": callers, "answers": fmt.Sprint(answers), "requests_to_slow_relay": nA, "requests_to_fast_relay": nB, "slow_relay_latency_ms": slow.Milliseconds()}
	c.Count("concurrent_serve_cases", 1)
	for k, a := range answers {
		if a.bid {
			c.Violate("served-bid-without-winner:concurrent-requests", fmt.Sprintf("the auction for the slot found no acceptable bid, yet caller %d of %d concurrent ones was served a bid (one that only appeared while the auction was under way)", k, callers), id, detail)
			return
		}
	}
	if nA > 1 || nB > 1 {
		c.Violate("second-auction-for-one-request:concurrent-requests", fmt.Sprintf("%d concurrent requests for the same slot, parent and proposer led to %d / %d bid requests to the two relays: more than one auction was held", callers, nA, nB), id, detail)
	}
	c.Distinct(fmt.Sprintf("serve|%d|%v", callers, bad == nil))
}

func run(c *harness.Ctx) {
	harness.InitBLS()
	harness.StartStallMonitor()
	for i := 0; i < 8; i++ { // key generation is slow: do it before any clock is started
		harness.RelayPub(i)
		harness.BuilderPub(i)
	}
	harness.Keys.Key(5999)
	n := c.N(900, 20000)
	var wg sync.WaitGroup
	sem := make(chan struct{}, 40)
	for i := 0; i < n; i++ {
		strategy := []string{"best", "deadline"}[i%2]
		id := fmt.Sprintf("%s#%d", strategy, i)
		c.Case(id, func() {
			r := c.Rand("case", i)
			ac := genCase(r, strategy)
			if strategy == "best" && i%10 == 4 {
				ac.Via = "blockrelay"
			}
			wg.Add(1)
			sem <- struct{}{}
			go func() {
				defer wg.Done()
				defer func() { <-sem }()
				runCase(c, id, ac, i)
				var ks []string
				nElig := 0
				for _, rs := range ac.Relays {
					k := rs.Lat[:1]
					if rs.Bid != nil {
						if eligible(rs.Bid, rs, ac.Builders) {
							k += "E"
							nElig++
						} else {
							k += "i"
						}
					}
					if rs.Second != nil {
						k += "2"
					}
					ks = append(ks, k)
				}
				sort.Strings(ks)
				if len(ac.Relays) >= 2 && nElig >= 1 {
					c.Distinct(strategy + "|" + strings.Join(ks, ",") + fmt.Sprintf("|b%d", len(ac.Builders)))
				}
				if i < 2 {
					c.Sample(ac)
				}
			}()
		})
	}
	ns := c.N(16, 400)
	for i := 0; i < ns; i++ {
		id := fmt.Sprintf("serve#%d", i)
		c.Case(id, func() {
			wg.Add(1)
			sem <- struct{}{}
			go func() {
				defer wg.Done()
				defer func() { <-sem }()
				concurrentServe(c, id, c.Rand("serve", i), i)
			}()
		})
	}
	wg.Wait()
	if j, st := judgedCases.Load(), stalledCases.Load(); j > 0 && st*3 > j {
		c.Inconclusive(fmt.Sprintf("the process was starved of CPU in %d of %d auctions: their timing verdicts were skipped", st, j))
	}
}

func main() {
	harness.Main(&harness.Spec{
		Property:     "C09",
		Level:        "exploration",
		Rule:         "auctions over 1-6 scripted relays: bids with values 1000-12000, 4 builders with random {factor 0 (excluded) / factor / offset / both / none} configs, shared payload headers, relay minimum values, zero fee recipient, wrong timestamp, bad signature (relay key known from config, from the provider, or unknown), empty and nil bids, latencies fast / 600 ms / 1080 ms / silent / error against a 0.8 s deadline; deadline strategy polled every 100 ms with bids that change at 350 ms (improving or worsening); bids signed with real BLS keys; one best-strategy auction in ten goes through the real block relay service (settings from its configuration document) and the bid it then serves is compared with the winner; 2-4 concurrent bid requests for a proposer without auction, whose only acceptable bid appears while the first auction is under way, must all be answered with no bid after one auction. distinct = (strategy, multiset of relay (latency, eligibility, second bid) classes, configured builders); non-trivial = >=2 relays and >=1 eligible bid",
		Batches:      func(string) int { return 2 },
		Parallel:     2,
		Run:          run,
		MinDistinct:  100,
		ChildTimeout: func(string) time.Duration { return 40 * time.Minute },
		Assumptions:  []string{"scores are non-negative (offsets never exceed the value downwards)", "replies measured within +-130 ms of the deadline are ambiguous: either outcome accepted", "relays are injected through the builder-client cache hook (no HTTP)"},
	})
}
