// C19: hierarchical settings resolve to the most specific configured value.
// Monitor: the real util lookups over the global viper instance, against a longest-prefix reference.
package main

import (
	"bytes"
	"fmt"
	"math/rand"
	"os"
	"sort"
	"strings"
	"sync"
	"time"

	"github.com/attestantio/vouch/util"
	"github.com/rs/zerolog"
	"github.com/spf13/viper"
	"verif/harness"
)

var comps = []string{"strategies", "attestationdata", "best", "first", "majority", "submitter", "controller", "a", "b", "blockrelay", "beaconblockproposal"}

var levels = map[string]zerolog.Level{
	"none": zerolog.Disabled, "trace": zerolog.TraceLevel, "debug": zerolog.DebugLevel, "warn": zerolog.WarnLevel,
	"warning": zerolog.WarnLevel, "info": zerolog.InfoLevel, "information": zerolog.InfoLevel, "err": zerolog.ErrorLevel,
	"error": zerolog.ErrorLevel, "fatal": zerolog.FatalLevel, "Debug": zerolog.DebugLevel, "TRACE": zerolog.TraceLevel,
}

type setting struct {
	Path string `json:"path"`
	Var  string `json:"var"`
	Val  any    `json:"val"`
}

var vars = []string{"beacon-node-addresses", "timeout", "log-level", "process-concurrency", "flagx", "flagy"}

func genVal(r *rand.Rand, v string) any {
	switch v {
	case "beacon-node-addresses":
		n := 1 + r.Intn(3)
		out := make([]string, n)
		for i := range out {
			out[i] = fmt.Sprintf("node%d:%d", r.Intn(50), 5000+r.Intn(100))
		}
		return out
	case "timeout":
		return fmt.Sprintf("%dms", 1+r.Intn(100000))
	case "log-level":
		ks := make([]string, 0, len(levels))
		for k := range levels {
			ks = append(ks, k)
		}
		sort.Strings(ks)
		return ks[r.Intn(len(ks))]
	case "process-concurrency":
		return r.Intn(64) // 0 is a value too
	default:
		return r.Intn(2) == 0
	}
}

func parent(p string) (string, bool) {
	if p == "" {
		return "", false
	}
	i := strings.LastIndex(p, ".")
	if i < 0 {
		return "", true
	}
	return p[:i], true
}

// toYAML renders the settings as a nested YAML document.
func toYAML(ss []setting) string {
	type node struct {
		kids map[string]*node
		vals map[string]any
	}
	root := &node{kids: map[string]*node{}, vals: map[string]any{}}
	for _, s := range ss {
		n := root
		if s.Path != "" {
			for _, c := range strings.Split(s.Path, ".") {
				k, ok := n.kids[c]
				if !ok {
					k = &node{kids: map[string]*node{}, vals: map[string]any{}}
					n.kids[c] = k
				}
				n = k
			}
		}
		n.vals[s.Var] = s.Val
	}
	var b bytes.Buffer
	var emit func(n *node, ind string)
	emit = func(n *node, ind string) {
		vk := make([]string, 0)
		for k := range n.vals {
			vk = append(vk, k)
		}
		sort.Strings(vk)
		for _, k := range vk {
			switch v := n.vals[k].(type) {
			case []string:
				fmt.Fprintf(&b, "%s%s:\n", ind, k)
				for _, e := range v {
					fmt.Fprintf(&b, "%s  - '%s'\n", ind, e)
				}
			case string:
				fmt.Fprintf(&b, "%s%s: '%s'\n", ind, k, v)
			default:
				fmt.Fprintf(&b, "%s%s: %v\n", ind, k, v)
			}
		}
		kk := make([]string, 0)
		for k := range n.kids {
			kk = append(kk, k)
		}
		sort.Strings(kk)
		for _, k := range kk {
			fmt.Fprintf(&b, "%s%s:\n", ind, k)
			emit(n.kids[k], ind+"  ")
		}
	}
	emit(root, "")
	return b.String()
}

var envSet []string

// lookupStr makes one hierarchical lookup and prints its answer.
func lookupStr(v, lp string) string {
	switch v {
	case "beacon-node-addresses":
		return fmt.Sprint(util.BeaconNodeAddresses(lp))
	case "timeout":
		return util.Timeout(lp).String()
	case "log-level":
		return util.LogLevel(lp).String()
	case "process-concurrency":
		return fmt.Sprint(util.ProcessConcurrency(lp))
	default:
		return fmt.Sprint(util.HierarchicalBool(v, lp))
	}
}

func run(c *harness.Ctx) {
	zerolog.SetGlobalLevel(zerolog.Disabled)
	nTrees := c.N(1500, 80000)
	for t := 0; t < nTrees; t++ {
		c.Case(fmt.Sprintf("tree%d", t), func() {
			r := c.Rand("tree", t)
			// Generate a path universe: a random tree of depth <= 5.
			var paths []string
			paths = append(paths, "")
			nPaths := 1 + r.Intn(7)
			for i := 0; i < nPaths; i++ {
				d := 1 + r.Intn(5)
				parts := make([]string, d)
				for j := range parts {
					parts[j] = comps[r.Intn(len(comps))]
				}
				// Share prefixes with existing paths often.
				if len(paths) > 1 && r.Intn(2) == 0 {
					base := paths[1+r.Intn(len(paths)-1)]
					bp := strings.Split(base, ".")
					k := 1 + r.Intn(len(bp))
					parts = append(append([]string{}, bp[:k]...), parts[:1+r.Intn(len(parts))]...)
					if len(parts) > 5 {
						parts = parts[:5]
					}
				}
				for k := 1; k <= len(parts); k++ {
					paths = append(paths, strings.Join(parts[:k], "."))
				}
			}
			// Settings: each (path, var) present with some probability.
			truth := map[string]map[string]any{}
			for _, v := range vars {
				truth[v] = map[string]any{}
			}
			var ss []setting
			legacy := ""
			seen := map[string]bool{}
			for _, p := range paths {
				if seen[p] {
					continue
				}
				seen[p] = true
				for _, v := range vars {
					prob := 35
					if p == "" {
						prob = 60
					}
					if r.Intn(100) < prob {
						val := genVal(r, v)
						truth[v][p] = val
						ss = append(ss, setting{Path: p, Var: v, Val: val})
					}
				}
			}
			if r.Intn(3) == 0 {
				legacy = fmt.Sprintf("legacy%d:5052", r.Intn(10))
			}
			mode := r.Intn(4)
			viper.Reset()
			for _, k := range envSet {
				os.Unsetenv(k)
			}
			envSet = envSet[:0]
			if mode >= 2 {
				// as main.go does
				viper.SetEnvPrefix("VOUCH")
				viper.SetEnvKeyReplacer(strings.NewReplacer("-", "_", ".", "_"))
				viper.AutomaticEnv()
			}
			var yamlPart []setting
			sources := map[string]int{}
			for _, s := range ss {
				k := s.Var
				if s.Path != "" {
					k = s.Path + "." + s.Var
				}
				src := mode
				if mode == 3 {
					src = r.Intn(4) // 0 Set, 1 YAML, 2 env, 3 default
				}
				sources[[]string{"set", "yaml", "env", "default"}[src]]++
				switch src {
				case 0:
					viper.Set(k, s.Val)
				case 1:
					yamlPart = append(yamlPart, s)
				case 2:
					name := "VOUCH_" + strings.ToUpper(strings.NewReplacer("-", "_", ".", "_").Replace(k))
					val := fmt.Sprint(s.Val)
					if l, ok := s.Val.([]string); ok {
						val = strings.Join(l, " ")
					}
					os.Setenv(name, val)
					envSet = append(envSet, name)
				default:
					viper.SetDefault(k, s.Val)
				}
			}
			if legacy != "" {
				// the single-address flag delivers a string; a configuration file may also hold a list
				var lv any = []string{legacy}
				if r.Intn(2) == 0 {
					lv = legacy
				}
				if mode == 1 {
					yamlPart = append(yamlPart, setting{Path: "", Var: "beacon-node-address", Val: lv})
				} else {
					viper.Set("beacon-node-address", lv)
				}
			}
			if len(yamlPart) > 0 {
				viper.SetConfigType("yaml")
				if err := viper.ReadConfig(strings.NewReader(toYAML(yamlPart))); err != nil {
					c.Inconclusive("generated YAML did not parse: " + err.Error())
					return
				}
			}
			// Lookup paths: known paths, below them, beside them.
			var lookups []string
			for p := range seen {
				lookups = append(lookups, p)
				if len(strings.Split(p, ".")) < 6 {
					ext := comps[r.Intn(len(comps))]
					if p == "" {
						lookups = append(lookups, ext)
					} else {
						lookups = append(lookups, p+"."+ext, p+"."+ext+"."+comps[r.Intn(len(comps))])
					}
					// per-client paths are built from the client's address (eth2client.<URL>): slashes, colons and periods
					url := []string{"http://localhost:5052", "https://10.1.2.3:5052/", "node-1.example.com:5051", "http://user:pw@lh/eth"}[r.Intn(4)]
					if p == "" {
						lookups = append(lookups, url)
					} else {
						lookups = append(lookups, p+"."+url)
					}
				}
			}
			sort.Strings(lookups)
			for _, lp := range lookups {
				for _, v := range vars {
					// reference: longest prefix with a value
					var want any
					found := false
					mask := ""
					depthAns := -1
					p := lp
					depth := 0
					if lp != "" {
						depth = strings.Count(lp, ".") + 1
					}
					for d := depth; ; d-- {
						if val, ok := truth[v][p]; ok {
							mask += "1"
							if !found {
								found = true
								want = val
								depthAns = d
							}
						} else {
							mask += "0"
						}
						np, ok := parent(p)
						if !ok {
							break
						}
						p = np
					}
					c.Eval(1)
					var got any
					var wantCmp any
					switch v {
					case "beacon-node-addresses":
						got = util.BeaconNodeAddresses(lp)
						if found {
							wantCmp = want
						} else if legacy != "" {
							wantCmp = []string{legacy}
						} else {
							wantCmp = []string(nil)
						}
						if fmt.Sprint(got) != fmt.Sprint(wantCmp) && !(len(got.([]string)) == 0 && len(wantCmp.([]string)) == 0) {
							c.Violate("mismatch:"+v, fmt.Sprintf("%s(%q)=%v want %v", v, lp, got, wantCmp), fmt.Sprintf("tree%d", t),
								map[string]any{"settings": ss, "legacy": legacy, "mode": mode, "lookup": lp, "got": got, "want": wantCmp})
						}
					case "timeout":
						g := util.Timeout(lp)
						var w time.Duration
						if found {
							w, _ = time.ParseDuration(want.(string))
						}
						if g != w {
							c.Violate("mismatch:"+v, fmt.Sprintf("%s(%q)=%v want %v", v, lp, g, w), fmt.Sprintf("tree%d", t),
								map[string]any{"settings": ss, "mode": mode, "lookup": lp, "got": g.String(), "want": w.String()})
						}
					case "log-level":
						g := util.LogLevel(lp)
						w := zerolog.GlobalLevel() // not used when !found
						if found {
							w = levels[want.(string)]
						} else {
							w = util.LogLevel("") // unset everywhere: the logger default, whatever it is
						}
						if g != w {
							c.Violate("mismatch:"+v, fmt.Sprintf("%s(%q)=%v want %v", v, lp, g, w), fmt.Sprintf("tree%d", t),
								map[string]any{"settings": ss, "mode": mode, "lookup": lp, "got": g.String(), "want": w.String()})
						}
					case "process-concurrency":
						g := util.ProcessConcurrency(lp)
						var w int64
						if found {
							w = int64(want.(int))
						}
						if g != w {
							c.Violate("mismatch:"+v, fmt.Sprintf("%s(%q)=%v want %v", v, lp, g, w), fmt.Sprintf("tree%d", t),
								map[string]any{"settings": ss, "mode": mode, "lookup": lp, "got": g, "want": w})
						}
					default:
						g := util.HierarchicalBool(v, lp)
						w := false
						if found {
							w = want.(bool)
						}
						if g != w {
							c.Violate("mismatch:bool", fmt.Sprintf("HierarchicalBool(%s,%q)=%v want %v", v, lp, g, w), fmt.Sprintf("tree%d", t),
								map[string]any{"settings": ss, "mode": mode, "lookup": lp, "got": g, "want": w})
						}
					}
					// non-trivial: at least two levels on the chain, and at least one level set
					if depth >= 1 && strings.Contains(mask, "1") {
						c.Distinct(fmt.Sprintf("%s|%s|%d|%d", v, mask, depthAns, mode))
					}
					if depth >= 2 && found {
						c.Count("lookups_with_fallthrough_or_override", 1)
					}
				}
			}
			// The same lookups from several goroutines at once, as services that are constructed side by side
			// make them: each must still give the answer it gives alone.
			if t%3 == 0 {
				alone := map[string]string{}
				for _, lp := range lookups {
					for _, v := range vars {
						alone[v+"|"+lp] = lookupStr(v, lp)
					}
				}
				var wg sync.WaitGroup
				for g := 0; g < 4; g++ {
					wg.Add(1)
					go func(g int) {
						defer wg.Done()
						for i := range lookups {
							lp := lookups[(i*(2*g+1)+g)%len(lookups)]
							for j := range vars {
								v := vars[(j+g)%len(vars)]
								if got := lookupStr(v, lp); got != alone[v+"|"+lp] {
									c.Violate("concurrent-lookup-differs:"+v, fmt.Sprintf("%s(%q) called while three other goroutines made lookups gave %s; alone it gives %s", v, lp, got, alone[v+"|"+lp]), fmt.Sprintf("tree%d", t),
										map[string]any{"settings": ss, "mode": mode, "lookup": lp, "got": got, "want": alone[v+"|"+lp]})
									return
								}
							}
						}
					}(g)
				}
				wg.Wait()
				c.Count("concurrent_lookups", int64(4*len(lookups)*len(vars)))
			}
			if t < 2 {
				c.Sample(map[string]any{"settings": ss, "legacy": legacy, "mode": []string{"viper.Set", "yaml", "env", "mixed"}[mode], "sources": sources, "lookups": lookups})
			}
		})
	}
	viper.Reset()
}

func main() {
	harness.Main(&harness.Spec{
		Property:    "C19",
		Level:       "exploration",
		Rule:        "random configuration trees (depth<=5, each of 6 variables present/absent at every level, loaded through viper.Set, generated YAML, VOUCH_* environment variables (as main.go configures viper) or a per-setting mixture incl. defaults) x lookup paths inside/below/beside the tree; every third tree also has the same lookups made from four goroutines at once and compared with the answers given alone; a case is (variable, presence mask along the lookup chain, depth of the answering level, load mode); non-trivial = path has >=1 component and some level on the chain has a value",
		Run:         run,
		MinDistinct: 50,
		Assumptions: []string{"values avoid the encodings that mean 'unset' (zero duration, empty string, empty list)", "the configuration is loaded from one goroutine; lookups are made from one goroutine and from four at once"},
	})
}
