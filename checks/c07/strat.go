// Shared by C07 and C20 (symlinked into checks/c20): scripted fake beacon nodes and the table of all 17 strategy services.
package main

import (
	"context"
	"encoding/binary"
	"errors"
	"fmt"
	"math/big"
	"math/rand"
	"strings"
	"sync"
	"time"

	eth2client "github.com/attestantio/go-eth2-client"
	"github.com/attestantio/go-eth2-client/api"
	apiv1 "github.com/attestantio/go-eth2-client/api/v1"
	"github.com/attestantio/go-eth2-client/spec"
	"github.com/attestantio/go-eth2-client/spec/altair"
	"github.com/attestantio/go-eth2-client/spec/bellatrix"
	"github.com/attestantio/go-eth2-client/spec/capella"
	"github.com/attestantio/go-eth2-client/spec/phase0"
	nullmetrics "github.com/attestantio/vouch/services/metrics/null"
	aggbest "github.com/attestantio/vouch/strategies/aggregateattestation/best"
	aggfirst "github.com/attestantio/vouch/strategies/aggregateattestation/first"
	adbest "github.com/attestantio/vouch/strategies/attestationdata/best"
	adfirst "github.com/attestantio/vouch/strategies/attestationdata/first"
	admaj "github.com/attestantio/vouch/strategies/attestationdata/majority"
	hdrfirst "github.com/attestantio/vouch/strategies/beaconblockheader/first"
	propbest "github.com/attestantio/vouch/strategies/beaconblockproposal/best"
	propfirst "github.com/attestantio/vouch/strategies/beaconblockproposal/first"
	rootfirst "github.com/attestantio/vouch/strategies/beaconblockroot/first"
	rootlatest "github.com/attestantio/vouch/strategies/beaconblockroot/latest"
	rootmaj "github.com/attestantio/vouch/strategies/beaconblockroot/majority"
	sbbfirst "github.com/attestantio/vouch/strategies/signedbeaconblock/first"
	scbest "github.com/attestantio/vouch/strategies/synccommitteecontribution/best"
	scfirst "github.com/attestantio/vouch/strategies/synccommitteecontribution/first"
	"github.com/holiman/uint256"
	"github.com/prysmaticlabs/go-bitfield"
	"github.com/rs/zerolog"
	"verif/harness"
)

const (
	timeout = 800 * time.Millisecond
	soft    = timeout / 2
	margin  = 130 * time.Millisecond
	slack   = 600 * time.Millisecond
	slot    = phase0.Slot(32*1000 + 5)
	spe     = 32
)

// behaviour of one node in one case.
type nb struct {
	Kind string `json:"kind"`    // valid | invalid | error | silent | hang
	Lat  string `json:"latency"` // fast | mid | late
	Rank int    `json:"rank"`    // score rank (best/latest) or head slot (majority tie-break)
	Val  int    `json:"value"`   // which value the node reports (majority)
	Inv  int    `json:"invalid_kind,omitempty"`
	Src  int    `json:"source_variant,omitempty"` // attestation data majority: same head, different source checkpoint
	Zero bool   `json:"no_participation,omitempty"` // sync committee contribution: valid, with no participation bit set (a quiet subnet)
}

func (b nb) latency(r *rand.Rand) time.Duration {
	switch b.Lat {
	case "fast":
		return time.Duration(5+r.Intn(60)) * time.Millisecond
	case "mid":
		return 600*time.Millisecond + time.Duration(r.Intn(30))*time.Millisecond
	default:
		return 1080 * time.Millisecond
	}
}

// fnode is a scripted node implementing every provider interface used by the strategies.
type fnode struct {
	name    string
	b       nb
	lat     time.Duration
	start   time.Time
	mu      sync.Mutex
	replied time.Duration // measured instant the reply left the fake (0 = none)
	called  bool
	strat   string
}

func (n *fnode) Address() string { return n.name }
func (n *fnode) Name() string    { return n.name }
func (n *fnode) IsActive() bool  { return true }
func (n *fnode) IsSynced() bool  { return true }

// wait plays the latency; returns an error for error/silent/hang kinds.
func (n *fnode) wait(ctx context.Context) error {
	n.mu.Lock()
	n.called = true
	n.mu.Unlock()
	switch n.b.Kind {
	case "silent":
		<-ctx.Done()
		return ctx.Err()
	case "hang":
		time.Sleep(timeout + 500*time.Millisecond) // ignores the context
		return errors.New("gave up")
	case "deaf":
		time.Sleep(n.lat) // ignores the context, then answers as a valid node would
		n.mu.Lock()
		n.replied = time.Since(n.start)
		n.mu.Unlock()
		return nil
	}
	select {
	case <-time.After(n.lat):
	case <-ctx.Done():
		return ctx.Err()
	}
	n.mu.Lock()
	n.replied = time.Since(n.start)
	n.mu.Unlock()
	if n.b.Kind == "error" {
		return errors.New("scripted node error")
	}
	return nil
}

func keyRoot(val, rank int) phase0.Root {
	var r phase0.Root
	binary.BigEndian.PutUint32(r[0:4], uint32(val)+1)
	binary.BigEndian.PutUint32(r[4:8], uint32(rank)+1)
	r[31] = 0x5c
	return r
}

func decodeKey(r phase0.Root) string {
	return fmt.Sprintf("v%d/r%d", int(binary.BigEndian.Uint32(r[0:4]))-1, int(binary.BigEndian.Uint32(r[4:8]))-1)
}

func (n *fnode) key() string {
	if n.b.Zero {
		return fmt.Sprintf("v%d/r%d", n.b.Val+100, n.b.Rank) // told apart from a node with the same value and participation
	}
	if n.b.Src > 0 {
		return fmt.Sprintf("v%d/r%d/s%d", n.b.Val, n.b.Rank, n.b.Src)
	}
	return fmt.Sprintf("v%d/r%d", n.b.Val, n.b.Rank)
}

func (n *fnode) AttestationData(ctx context.Context, opts *api.AttestationDataOpts) (*api.Response[*phase0.AttestationData], error) {
	if err := n.wait(ctx); err != nil {
		return nil, err
	}
	d := &phase0.AttestationData{Slot: opts.Slot, Index: opts.CommitteeIndex, BeaconBlockRoot: keyRoot(n.b.Val, n.b.Rank),
		Source: &phase0.Checkpoint{Epoch: phase0.Epoch(n.b.Rank)}, Target: &phase0.Checkpoint{Epoch: phase0.Epoch(uint64(opts.Slot) / spe)}}
	if n.b.Src > 0 {
		d.Source.Epoch = phase0.Epoch(100 + n.b.Src)
	}
	if strings.Contains(n.strat, "head-distance") {
		d.Source.Epoch = 5 // every node reports the same checkpoints: only the distance of the head decides
	}
	if n.b.Kind == "invalid" {
		switch n.b.Inv % 4 {
		case 0:
			d.Target.Epoch++ // target epoch is not the slot's epoch
			d.Source.Epoch = d.Target.Epoch
		case 1:
			d.Target.Epoch--
		case 3:
			// consistent in itself, but for a slot of another epoch than the one asked for
			d.Slot = opts.Slot + phase0.Slot(spe)
			d.Target.Epoch = phase0.Epoch(uint64(d.Slot) / spe)
		default:
			return &api.Response[*phase0.AttestationData]{Data: nil, Metadata: map[string]any{}}, nil // missing data
		}
	}
	return &api.Response[*phase0.AttestationData]{Data: d, Metadata: map[string]any{}}, nil
}

func (n *fnode) AggregateAttestation(ctx context.Context, _ *api.AggregateAttestationOpts) (*api.Response[*phase0.Attestation], error) {
	if err := n.wait(ctx); err != nil {
		return nil, err
	}
	if n.b.Kind == "invalid" {
		return &api.Response[*phase0.Attestation]{Data: nil, Metadata: map[string]any{}}, nil
	}
	bits := bitfield.NewBitlist(128)
	for i := 0; i < n.b.Rank+1; i++ {
		bits.SetBitAt(uint64(i), true)
	}
	a := &phase0.Attestation{AggregationBits: bits, Data: &phase0.AttestationData{Slot: slot, BeaconBlockRoot: keyRoot(n.b.Val, n.b.Rank), Source: &phase0.Checkpoint{}, Target: &phase0.Checkpoint{}}}
	return &api.Response[*phase0.Attestation]{Data: a, Metadata: map[string]any{}}, nil
}

func (n *fnode) SyncCommitteeContribution(ctx context.Context, _ *api.SyncCommitteeContributionOpts) (*api.Response[*altair.SyncCommitteeContribution], error) {
	if err := n.wait(ctx); err != nil {
		return nil, err
	}
	if n.b.Kind == "invalid" {
		return &api.Response[*altair.SyncCommitteeContribution]{Data: nil, Metadata: map[string]any{}}, nil
	}
	bits := bitfield.NewBitvector128()
	for i := 0; i < n.b.Rank+1 && !n.b.Zero; i++ {
		bits.SetBitAt(uint64(i), true)
	}
	c := &altair.SyncCommitteeContribution{Slot: slot, BeaconBlockRoot: keyRoot(n.b.Val, n.b.Rank), AggregationBits: bits}
	if n.b.Zero {
		c.BeaconBlockRoot = keyRoot(n.b.Val+100, n.b.Rank)
	}
	return &api.Response[*altair.SyncCommitteeContribution]{Data: c, Metadata: map[string]any{}}, nil
}

func (n *fnode) Proposal(ctx context.Context, opts *api.ProposalOpts) (*api.Response[*api.VersionedProposal], error) {
	if err := n.wait(ctx); err != nil {
		return nil, err
	}
	fr := bellatrix.ExecutionAddress{1, 2, 3}
	p := &api.VersionedProposal{Version: spec.DataVersionCapella, ConsensusValue: new(big.Int).Mul(big.NewInt(int64(n.b.Rank)+1), big.NewInt(3_000_000_000_000_000_000)), ExecutionValue: big.NewInt(0), // 3 ETH per rank, in Wei: above 2^64 from rank 6 on
		Capella: &capella.BeaconBlock{Slot: opts.Slot, ParentRoot: keyRoot(n.b.Val, n.b.Rank), Body: &capella.BeaconBlockBody{ETH1Data: &phase0.ETH1Data{},
			SyncAggregate:    &altair.SyncAggregate{SyncCommitteeBits: bitfield.NewBitvector512()},
			ExecutionPayload: &capella.ExecutionPayload{FeeRecipient: fr}}}}
	if n.b.Kind == "invalid" && strings.HasSuffix(n.strat, "best") {
		if n.b.Inv%2 == 0 {
			p.Capella.Body.ExecutionPayload.FeeRecipient = bellatrix.ExecutionAddress{} // zero fee recipient
		} else {
			p.Blinded = true // blinded flag without a blinded block: missing data
		}
		p.ConsensusValue = new(big.Int).Mul(big.NewInt(100), big.NewInt(1_000_000_000_000_000_000)) // tempting
	}
	return &api.Response[*api.VersionedProposal]{Data: p, Metadata: map[string]any{}}, nil
}

func (n *fnode) BeaconBlockRoot(ctx context.Context, _ *api.BeaconBlockRootOpts) (*api.Response[*phase0.Root], error) {
	if err := n.wait(ctx); err != nil {
		return nil, err
	}
	r := keyRoot(n.b.Val, n.b.Rank)
	return &api.Response[*phase0.Root]{Data: &r, Metadata: map[string]any{}}, nil
}

func (n *fnode) BeaconBlockHeader(ctx context.Context, _ *api.BeaconBlockHeaderOpts) (*api.Response[*apiv1.BeaconBlockHeader], error) {
	if err := n.wait(ctx); err != nil {
		if n.b.Kind == "error" && n.b.Inv%2 == 1 {
			return nil, &api.Error{Method: "GET", StatusCode: 404}
		}
		return nil, err
	}
	h := &apiv1.BeaconBlockHeader{Root: keyRoot(n.b.Val, n.b.Rank), Header: &phase0.SignedBeaconBlockHeader{Message: &phase0.BeaconBlockHeader{Slot: slot}}}
	return &api.Response[*apiv1.BeaconBlockHeader]{Data: h, Metadata: map[string]any{}}, nil
}

func (n *fnode) SignedBeaconBlock(ctx context.Context, _ *api.SignedBeaconBlockOpts) (*api.Response[*spec.VersionedSignedBeaconBlock], error) {
	if err := n.wait(ctx); err != nil {
		if n.b.Kind == "error" && n.b.Inv%2 == 1 {
			return nil, &api.Error{Method: "GET", StatusCode: 503}
		}
		return nil, err
	}
	b := &spec.VersionedSignedBeaconBlock{Version: spec.DataVersionPhase0, Phase0: &phase0.SignedBeaconBlock{Message: &phase0.BeaconBlock{Slot: slot, ParentRoot: keyRoot(n.b.Val, n.b.Rank), Body: &phase0.BeaconBlockBody{ETH1Data: &phase0.ETH1Data{}}}}}
	return &api.Response[*spec.VersionedSignedBeaconBlock]{Data: b, Metadata: map[string]any{}}, nil
}

// slotCache maps a key root to a head slot: slot-1-(20-rank) so that a higher rank is a later head.
type slotCache struct{ mode string }

func (c slotCache) BlockRootToSlot(ctx context.Context, root phase0.Root) (phase0.Slot, error) {
	if ctx.Err() != nil {
		return 0, ctx.Err() // the real cache fetches the header on a miss, with this context
	}
	rank := int(binary.BigEndian.Uint32(root[4:8])) - 1
	if rank < 0 {
		return 0, errors.New("unknown root")
	}
	if c.mode == "const" {
		return slot - 1, nil
	}
	return slot - 30 + phase0.Slot(rank), nil
}

type strategy struct {
	Name        string
	Class       string // best | majority | first
	Invalid     bool   // has validity rules, i.e. "invalid" node behaviour applies
	Threshold   bool
	SoftDecides bool // decides at the soft timeout when it has replies
	build       func(nodes []*fnode, threshold int) (func(ctx context.Context) (string, error), error)
}

var _ = uint256.NewInt

func strategies() []strategy {
	mon := nullmetrics.New()
	clock := harness.NewVClock(12*time.Second, spe)
	var out []strategy
	// attestation data
	adProviders := func(nodes []*fnode) map[string]eth2client.AttestationDataProvider {
		m := map[string]eth2client.AttestationDataProvider{}
		for _, n := range nodes {
			m[n.name] = n
		}
		return m
	}
	adCall := func(f func(context.Context, *api.AttestationDataOpts) (*api.Response[*phase0.AttestationData], error)) func(context.Context) (string, error) {
		return func(ctx context.Context) (string, error) {
			r, err := f(ctx, &api.AttestationDataOpts{Slot: slot, CommitteeIndex: 3})
			if err != nil {
				return "", err
			}
			if r == nil || r.Data == nil {
				return "<nil>", nil
			}
			if uint64(r.Data.Target.Epoch) != uint64(slot)/spe {
				return "<invalid:target>", nil
			}
			if r.Data.Source.Epoch > 100 {
				return fmt.Sprintf("%s/s%d", decodeKey(r.Data.BeaconBlockRoot), r.Data.Source.Epoch-100), nil
			}
			return decodeKey(r.Data.BeaconBlockRoot), nil
		}
	}
	out = append(out, strategy{Name: "attestationdata/best", Class: "best", Invalid: true, SoftDecides: true, build: func(nodes []*fnode, _ int) (func(context.Context) (string, error), error) {
		s, err := adbest.New(context.Background(), adbest.WithLogLevel(zerolog.Disabled), adbest.WithClientMonitor(mon), adbest.WithProcessConcurrency(6), adbest.WithAttestationDataProviders(adProviders(nodes)),
			adbest.WithTimeout(timeout), adbest.WithChainTime(clock), adbest.WithBlockRootToSlotCache(slotCache{"const"}))
		if err != nil {
			return nil, err
		}
		return adCall(s.AttestationData), nil
	}})
	// the same strategy with every node reporting the same checkpoints and heads at different distances (slot-30+rank)
	out = append(out, strategy{Name: "attestationdata/best(head-distance)", Class: "best", Invalid: true, SoftDecides: true, build: func(nodes []*fnode, _ int) (func(context.Context) (string, error), error) {
		s, err := adbest.New(context.Background(), adbest.WithLogLevel(zerolog.Disabled), adbest.WithClientMonitor(mon), adbest.WithProcessConcurrency(6), adbest.WithAttestationDataProviders(adProviders(nodes)),
			adbest.WithTimeout(timeout), adbest.WithChainTime(clock), adbest.WithBlockRootToSlotCache(slotCache{}))
		if err != nil {
			return nil, err
		}
		return adCall(s.AttestationData), nil
	}})
	out = append(out, strategy{Name: "attestationdata/majority", Class: "majority", Invalid: true, Threshold: true, build: func(nodes []*fnode, th int) (func(context.Context) (string, error), error) {
		s, err := admaj.New(context.Background(), admaj.WithLogLevel(zerolog.Disabled), admaj.WithClientMonitor(mon), admaj.WithProcessConcurrency(6), admaj.WithAttestationDataProviders(adProviders(nodes)),
			admaj.WithTimeout(timeout), admaj.WithChainTime(clock), admaj.WithBlockRootToSlotCache(slotCache{}), admaj.WithThreshold(th))
		if err != nil {
			return nil, err
		}
		return adCall(s.AttestationData), nil
	}})
	out = append(out, strategy{Name: "attestationdata/first", Class: "first", build: func(nodes []*fnode, _ int) (func(context.Context) (string, error), error) {
		s, err := adfirst.New(context.Background(), adfirst.WithLogLevel(zerolog.Disabled), adfirst.WithClientMonitor(mon), adfirst.WithAttestationDataProviders(adProviders(nodes)), adfirst.WithTimeout(timeout))
		if err != nil {
			return nil, err
		}
		return adCall(s.AttestationData), nil
	}})
	// aggregate attestation
	agProviders := func(nodes []*fnode) map[string]eth2client.AggregateAttestationProvider {
		m := map[string]eth2client.AggregateAttestationProvider{}
		for _, n := range nodes {
			m[n.name] = n
		}
		return m
	}
	agCall := func(f func(context.Context, *api.AggregateAttestationOpts) (*api.Response[*phase0.Attestation], error)) func(context.Context) (string, error) {
		return func(ctx context.Context) (string, error) {
			r, err := f(ctx, &api.AggregateAttestationOpts{Slot: slot})
			if err != nil {
				return "", err
			}
			if r == nil || r.Data == nil {
				return "<nil>", nil
			}
			return decodeKey(r.Data.Data.BeaconBlockRoot), nil
		}
	}
	out = append(out, strategy{Name: "aggregateattestation/best", Class: "best", Invalid: true, SoftDecides: true, build: func(nodes []*fnode, _ int) (func(context.Context) (string, error), error) {
		s, err := aggbest.New(context.Background(), aggbest.WithLogLevel(zerolog.Disabled), aggbest.WithClientMonitor(mon), aggbest.WithProcessConcurrency(6), aggbest.WithAggregateAttestationProviders(agProviders(nodes)), aggbest.WithTimeout(timeout))
		if err != nil {
			return nil, err
		}
		return agCall(s.AggregateAttestation), nil
	}})
	out = append(out, strategy{Name: "aggregateattestation/first", Class: "first", build: func(nodes []*fnode, _ int) (func(context.Context) (string, error), error) {
		s, err := aggfirst.New(context.Background(), aggfirst.WithLogLevel(zerolog.Disabled), aggfirst.WithClientMonitor(mon), aggfirst.WithAggregateAttestationProviders(agProviders(nodes)), aggfirst.WithTimeout(timeout))
		if err != nil {
			return nil, err
		}
		return agCall(s.AggregateAttestation), nil
	}})
	// sync committee contribution
	scProviders := func(nodes []*fnode) map[string]eth2client.SyncCommitteeContributionProvider {
		m := map[string]eth2client.SyncCommitteeContributionProvider{}
		for _, n := range nodes {
			m[n.name] = n
		}
		return m
	}
	scCall := func(f func(context.Context, *api.SyncCommitteeContributionOpts) (*api.Response[*altair.SyncCommitteeContribution], error)) func(context.Context) (string, error) {
		return func(ctx context.Context) (string, error) {
			r, err := f(ctx, &api.SyncCommitteeContributionOpts{Slot: slot, SubcommitteeIndex: 1, BeaconBlockRoot: phase0.Root{1}})
			if err != nil {
				return "", err
			}
			if r == nil || r.Data == nil {
				return "<nil>", nil
			}
			return decodeKey(r.Data.BeaconBlockRoot), nil
		}
	}
	out = append(out, strategy{Name: "synccommitteecontribution/best", Class: "best", Invalid: true, SoftDecides: true, build: func(nodes []*fnode, _ int) (func(context.Context) (string, error), error) {
		s, err := scbest.New(context.Background(), scbest.WithLogLevel(zerolog.Disabled), scbest.WithClientMonitor(mon), scbest.WithProcessConcurrency(6), scbest.WithSyncCommitteeContributionProviders(scProviders(nodes)), scbest.WithTimeout(timeout))
		if err != nil {
			return nil, err
		}
		return scCall(s.SyncCommitteeContribution), nil
	}})
	out = append(out, strategy{Name: "synccommitteecontribution/first", Class: "first", build: func(nodes []*fnode, _ int) (func(context.Context) (string, error), error) {
		s, err := scfirst.New(context.Background(), scfirst.WithLogLevel(zerolog.Disabled), scfirst.WithClientMonitor(mon), scfirst.WithSyncCommitteeContributionProviders(scProviders(nodes)), scfirst.WithTimeout(timeout))
		if err != nil {
			return nil, err
		}
		return scCall(s.SyncCommitteeContribution), nil
	}})
	// block proposal
	prProviders := func(nodes []*fnode) map[string]eth2client.ProposalProvider {
		m := map[string]eth2client.ProposalProvider{}
		for _, n := range nodes {
			m[n.name] = n
		}
		return m
	}
	prCall := func(f func(context.Context, *api.ProposalOpts) (*api.Response[*api.VersionedProposal], error)) func(context.Context) (string, error) {
		return func(ctx context.Context) (string, error) {
			r, err := f(ctx, &api.ProposalOpts{Slot: slot})
			if err != nil {
				return "", err
			}
			if r == nil || r.Data == nil {
				return "<nil>", nil
			}
			fr, ferr := r.Data.FeeRecipient()
			if ferr != nil {
				return "<invalid:missing-data>", nil
			}
			if fr.IsZero() {
				return "<invalid:zero-fee-recipient>", nil
			}
			return decodeKey(r.Data.Capella.ParentRoot), nil
		}
	}
	out = append(out, strategy{Name: "beaconblockproposal/best", Class: "best", Invalid: true, SoftDecides: true, build: func(nodes []*fnode, _ int) (func(context.Context) (string, error), error) {
		specP := harness.NewSpec(spe, map[string]any{"TIMELY_SOURCE_WEIGHT": uint64(14), "TIMELY_TARGET_WEIGHT": uint64(26), "TIMELY_HEAD_WEIGHT": uint64(14),
			"SYNC_REWARD_WEIGHT": uint64(2), "PROPOSER_WEIGHT": uint64(8), "WEIGHT_DENOMINATOR": uint64(64)})
		s, err := propbest.New(context.Background(), propbest.WithLogLevel(zerolog.Disabled), propbest.WithTimeout(timeout), propbest.WithClientMonitor(mon), propbest.WithProcessConcurrency(6),
			propbest.WithEventsProvider(harness.NewCapEvents()), propbest.WithChainTimeService(clock), propbest.WithSpecProvider(specP), propbest.WithProposalProviders(prProviders(nodes)),
			propbest.WithSignedBeaconBlockProvider(nodes[0]), propbest.WithBlockRootToSlotCache(slotCache{"const"}))
		if err != nil {
			return nil, err
		}
		return prCall(s.Proposal), nil
	}})
	out = append(out, strategy{Name: "beaconblockproposal/first", Class: "first", build: func(nodes []*fnode, _ int) (func(context.Context) (string, error), error) {
		s, err := propfirst.New(context.Background(), propfirst.WithLogLevel(zerolog.Disabled), propfirst.WithClientMonitor(mon), propfirst.WithProposalProviders(prProviders(nodes)), propfirst.WithTimeout(timeout))
		if err != nil {
			return nil, err
		}
		return prCall(s.Proposal), nil
	}})
	// beacon block root
	brProviders := func(nodes []*fnode) map[string]eth2client.BeaconBlockRootProvider {
		m := map[string]eth2client.BeaconBlockRootProvider{}
		for _, n := range nodes {
			m[n.name] = n
		}
		return m
	}
	brCall := func(f func(context.Context, *api.BeaconBlockRootOpts) (*api.Response[*phase0.Root], error)) func(context.Context) (string, error) {
		return func(ctx context.Context) (string, error) {
			r, err := f(ctx, &api.BeaconBlockRootOpts{Block: "head"})
			if err != nil {
				return "", err
			}
			if r == nil || r.Data == nil {
				return "<nil>", nil
			}
			return decodeKey(*r.Data), nil
		}
	}
	out = append(out, strategy{Name: "beaconblockroot/first", Class: "first", build: func(nodes []*fnode, _ int) (func(context.Context) (string, error), error) {
		s, err := rootfirst.New(context.Background(), rootfirst.WithLogLevel(zerolog.Disabled), rootfirst.WithClientMonitor(mon), rootfirst.WithBeaconBlockRootProviders(brProviders(nodes)), rootfirst.WithTimeout(timeout))
		if err != nil {
			return nil, err
		}
		return brCall(s.BeaconBlockRoot), nil
	}})
	out = append(out, strategy{Name: "beaconblockroot/latest", Class: "best", SoftDecides: true, build: func(nodes []*fnode, _ int) (func(context.Context) (string, error), error) {
		s, err := rootlatest.New(context.Background(), rootlatest.WithLogLevel(zerolog.Disabled), rootlatest.WithClientMonitor(mon), rootlatest.WithProcessConcurrency(6), rootlatest.WithBeaconBlockRootProviders(brProviders(nodes)),
			rootlatest.WithTimeout(timeout), rootlatest.WithBlockRootToSlotCache(slotCache{}))
		if err != nil {
			return nil, err
		}
		return brCall(s.BeaconBlockRoot), nil
	}})
	out = append(out, strategy{Name: "beaconblockroot/majority", Class: "majority", SoftDecides: true, build: func(nodes []*fnode, _ int) (func(context.Context) (string, error), error) {
		s, err := rootmaj.New(context.Background(), rootmaj.WithLogLevel(zerolog.Disabled), rootmaj.WithClientMonitor(mon), rootmaj.WithProcessConcurrency(6), rootmaj.WithBeaconBlockRootProviders(brProviders(nodes)),
			rootmaj.WithTimeout(timeout), rootmaj.WithBlockRootToSlotCache(slotCache{}))
		if err != nil {
			return nil, err
		}
		return brCall(s.BeaconBlockRoot), nil
	}})
	// header, signed block
	out = append(out, strategy{Name: "beaconblockheader/first", Class: "first", build: func(nodes []*fnode, _ int) (func(context.Context) (string, error), error) {
		m := map[string]eth2client.BeaconBlockHeadersProvider{}
		for _, n := range nodes {
			m[n.name] = n
		}
		s, err := hdrfirst.New(context.Background(), hdrfirst.WithLogLevel(zerolog.Disabled), hdrfirst.WithClientMonitor(mon), hdrfirst.WithBeaconBlockHeadersProviders(m), hdrfirst.WithTimeout(timeout))
		if err != nil {
			return nil, err
		}
		return func(ctx context.Context) (string, error) {
			r, err := s.BeaconBlockHeader(ctx, &api.BeaconBlockHeaderOpts{Block: "head"})
			if err != nil {
				return "", err
			}
			if r == nil || r.Data == nil {
				return "<nil>", nil
			}
			return decodeKey(r.Data.Root), nil
		}, nil
	}})
	out = append(out, strategy{Name: "signedbeaconblock/first", Class: "first", build: func(nodes []*fnode, _ int) (func(context.Context) (string, error), error) {
		m := map[string]eth2client.SignedBeaconBlockProvider{}
		for _, n := range nodes {
			m[n.name] = n
		}
		s, err := sbbfirst.New(context.Background(), sbbfirst.WithLogLevel(zerolog.Disabled), sbbfirst.WithClientMonitor(mon), sbbfirst.WithSignedBeaconBlockProviders(m), sbbfirst.WithTimeout(timeout))
		if err != nil {
			return nil, err
		}
		return func(ctx context.Context) (string, error) {
			r, err := s.SignedBeaconBlock(ctx, &api.SignedBeaconBlockOpts{Block: "head"})
			if err != nil {
				return "", err
			}
			if r == nil || r.Data == nil {
				return "<nil>", nil
			}
			pr, _ := r.Data.ParentRoot()
			return decodeKey(pr), nil
		}, nil
	}})
	return out
}
