// C07: multi-node strategies return the right valid answer, in bounded time.
// Monitor: all 17 strategy services over scripted, time-stamped fake beacon nodes; the oracle (refstrategy,
// DESIGN.md §5 C07) works on the *measured* instants at which each node's reply left the fake.
package main

import (
	"context"
	"encoding/binary"
	"errors"
	"fmt"
	"math/big"
	"math/rand"
	"sort"
	"strings"
	"sync"
	"time"

	eth2client "github.com/attestantio/go-eth2-client"
	"github.com/attestantio/go-eth2-client/api"
	apiv1 "github.com/attestantio/go-eth2-client/api/v1"
	"github.com/attestantio/go-eth2-client/spec"
	"github.com/attestantio/go-eth2-client/spec/altair"
	"github.com/attestantio/go-eth2-client/spec/bellatrix"
	"github.com/attestantio/go-eth2-client/spec/capella"
	"github.com/attestantio/go-eth2-client/spec/phase0"
	nullmetrics "github.com/attestantio/vouch/services/metrics/null"
	aggbest "github.com/attestantio/vouch/strategies/aggregateattestation/best"
	aggfirst "github.com/attestantio/vouch/strategies/aggregateattestation/first"
	adbest "github.com/attestantio/vouch/strategies/attestationdata/best"
	adfirst "github.com/attestantio/vouch/strategies/attestationdata/first"
	admaj "github.com/attestantio/vouch/strategies/attestationdata/majority"
	hdrfirst "github.com/attestantio/vouch/strategies/beaconblockheader/first"
	propbest "github.com/attestantio/vouch/strategies/beaconblockproposal/best"
	propfirst "github.com/attestantio/vouch/strategies/beaconblockproposal/first"
	rootfirst "github.com/attestantio/vouch/strategies/beaconblockroot/first"
	rootlatest "github.com/attestantio/vouch/strategies/beaconblockroot/latest"
	rootmaj "github.com/attestantio/vouch/strategies/beaconblockroot/majority"
	sbbfirst "github.com/attestantio/vouch/strategies/signedbeaconblock/first"
	scbest "github.com/attestantio/vouch/strategies/synccommitteecontribution/best"
	scfirst "github.com/attestantio/vouch/strategies/synccommitteecontribution/first"
	"github.com/holiman/uint256"
	"github.com/prysmaticlabs/go-bitfield"
	"github.com/rs/zerolog"
	"verif/harness"
)

const (
	timeout = 800 * time.Millisecond
	soft    = timeout / 2
	margin  = 130 * time.Millisecond
	slack   = 600 * time.Millisecond
	slot    = phase0.Slot(32*1000 + 5)
	spe     = 32
)

// behaviour of one node in one case.
type nb struct {
	Kind string `json:"kind"`    // valid | invalid | error | silent | hang
	Lat  string `json:"latency"` // fast | mid | late
	Rank int    `json:"rank"`    // score rank (best/latest) or head slot (majority tie-break)
	Val  int    `json:"value"`   // which value the node reports (majority)
	Inv  int    `json:"invalid_kind,omitempty"`
	Src  int    `json:"source_variant,omitempty"` // attestation data majority: same head, different source checkpoint
}

func (b nb) latency(r *rand.Rand) time.Duration {
	switch b.Lat {
	case "fast":
		return time.Duration(5+r.Intn(60)) * time.Millisecond
	case "mid":
		return 600*time.Millisecond + time.Duration(r.Intn(30))*time.Millisecond
	default:
		return 1080 * time.Millisecond
	}
}

// fnode is a scripted node implementing every provider interface used by the strategies.
type fnode struct {
	name    string
	b       nb
	lat     time.Duration
	start   time.Time
	mu      sync.Mutex
	replied time.Duration // measured instant the reply left the fake (0 = none)
	called  bool
	strat   string
}

func (n *fnode) Address() string { return n.name }
func (n *fnode) Name() string    { return n.name }
func (n *fnode) IsActive() bool  { return true }
func (n *fnode) IsSynced() bool  { return true }

// wait plays the latency; returns an error for error/silent/hang kinds.
func (n *fnode) wait(ctx context.Context) error {
	n.mu.Lock()
	n.called = true
	n.mu.Unlock()
	switch n.b.Kind {
	case "silent":
		<-ctx.Done()
		return ctx.Err()
	case "hang":
		time.Sleep(timeout + 500*time.Millisecond) // ignores the context
		return errors.New("gave up")
	}
	select {
	case <-time.After(n.lat):
	case <-ctx.Done():
		return ctx.Err()
	}
	n.mu.Lock()
	n.replied = time.Since(n.start)
	n.mu.Unlock()
	if n.b.Kind == "error" {
		return errors.New("scripted node error")
	}
	return nil
}

func keyRoot(val, rank int) phase0.Root {
	var r phase0.Root
	binary.BigEndian.PutUint32(r[0:4], uint32(val)+1)
	binary.BigEndian.PutUint32(r[4:8], uint32(rank)+1)
	r[31] = 0x5c
	return r
}

func decodeKey(r phase0.Root) string {
	return fmt.Sprintf("v%d/r%d", int(binary.BigEndian.Uint32(r[0:4]))-1, int(binary.BigEndian.Uint32(r[4:8]))-1)
}

func (n *fnode) key() string {
	if n.b.Src > 0 {
		return fmt.Sprintf("v%d/r%d/s%d", n.b.Val, n.b.Rank, n.b.Src)
	}
	return fmt.Sprintf("v%d/r%d", n.b.Val, n.b.Rank)
}

func (n *fnode) AttestationData(ctx context.Context, opts *api.AttestationDataOpts) (*api.Response[*phase0.AttestationData], error) {
	if err := n.wait(ctx); err != nil {
		return nil, err
	}
	d := &phase0.AttestationData{Slot: opts.Slot, Index: opts.CommitteeIndex, BeaconBlockRoot: keyRoot(n.b.Val, n.b.Rank),
		Source: &phase0.Checkpoint{Epoch: phase0.Epoch(n.b.Rank)}, Target: &phase0.Checkpoint{Epoch: phase0.Epoch(uint64(opts.Slot) / spe)}}
	if n.b.Src > 0 {
		d.Source.Epoch = phase0.Epoch(100 + n.b.Src)
	}
	if n.b.Kind == "invalid" {
		switch n.b.Inv % 3 {
		case 0:
			d.Target.Epoch++ // target epoch is not the slot's epoch
			d.Source.Epoch = d.Target.Epoch
		case 1:
			d.Target.Epoch--
		default:
			return &api.Response[*phase0.AttestationData]{Data: nil, Metadata: map[string]any{}}, nil // missing data
		}
	}
	return &api.Response[*phase0.AttestationData]{Data: d, Metadata: map[string]any{}}, nil
}

func (n *fnode) AggregateAttestation(ctx context.Context, _ *api.AggregateAttestationOpts) (*api.Response[*phase0.Attestation], error) {
	if err := n.wait(ctx); err != nil {
		return nil, err
	}
	if n.b.Kind == "invalid" {
		return &api.Response[*phase0.Attestation]{Data: nil, Metadata: map[string]any{}}, nil
	}
	bits := bitfield.NewBitlist(128)
	for i := 0; i < n.b.Rank+1; i++ {
		bits.SetBitAt(uint64(i), true)
	}
	a := &phase0.Attestation{AggregationBits: bits, Data: &phase0.AttestationData{Slot: slot, BeaconBlockRoot: keyRoot(n.b.Val, n.b.Rank), Source: &phase0.Checkpoint{}, Target: &phase0.Checkpoint{}}}
	return &api.Response[*phase0.Attestation]{Data: a, Metadata: map[string]any{}}, nil
}

func (n *fnode) SyncCommitteeContribution(ctx context.Context, _ *api.SyncCommitteeContributionOpts) (*api.Response[*altair.SyncCommitteeContribution], error) {
	if err := n.wait(ctx); err != nil {
		return nil, err
	}
	if n.b.Kind == "invalid" {
		return &api.Response[*altair.SyncCommitteeContribution]{Data: nil, Metadata: map[string]any{}}, nil
	}
	bits := bitfield.NewBitvector128()
	for i := 0; i < n.b.Rank+1; i++ {
		bits.SetBitAt(uint64(i), true)
	}
	c := &altair.SyncCommitteeContribution{Slot: slot, BeaconBlockRoot: keyRoot(n.b.Val, n.b.Rank), AggregationBits: bits}
	return &api.Response[*altair.SyncCommitteeContribution]{Data: c, Metadata: map[string]any{}}, nil
}

func (n *fnode) Proposal(ctx context.Context, opts *api.ProposalOpts) (*api.Response[*api.VersionedProposal], error) {
	if err := n.wait(ctx); err != nil {
		return nil, err
	}
	fr := bellatrix.ExecutionAddress{1, 2, 3}
	p := &api.VersionedProposal{Version: spec.DataVersionCapella, ConsensusValue: big.NewInt(int64(n.b.Rank) + 1), ExecutionValue: big.NewInt(0),
		Capella: &capella.BeaconBlock{Slot: opts.Slot, ParentRoot: keyRoot(n.b.Val, n.b.Rank), Body: &capella.BeaconBlockBody{ETH1Data: &phase0.ETH1Data{},
			SyncAggregate:    &altair.SyncAggregate{SyncCommitteeBits: bitfield.NewBitvector512()},
			ExecutionPayload: &capella.ExecutionPayload{FeeRecipient: fr}}}}
	if n.b.Kind == "invalid" && strings.HasSuffix(n.strat, "best") {
		if n.b.Inv%2 == 0 {
			p.Capella.Body.ExecutionPayload.FeeRecipient = bellatrix.ExecutionAddress{} // zero fee recipient
		} else {
			p.Blinded = true // blinded flag without a blinded block: missing data
		}
		p.ConsensusValue = big.NewInt(1_000_000) // tempting
	}
	return &api.Response[*api.VersionedProposal]{Data: p, Metadata: map[string]any{}}, nil
}

func (n *fnode) BeaconBlockRoot(ctx context.Context, _ *api.BeaconBlockRootOpts) (*api.Response[*phase0.Root], error) {
	if err := n.wait(ctx); err != nil {
		return nil, err
	}
	r := keyRoot(n.b.Val, n.b.Rank)
	return &api.Response[*phase0.Root]{Data: &r, Metadata: map[string]any{}}, nil
}

func (n *fnode) BeaconBlockHeader(ctx context.Context, _ *api.BeaconBlockHeaderOpts) (*api.Response[*apiv1.BeaconBlockHeader], error) {
	if err := n.wait(ctx); err != nil {
		if n.b.Kind == "error" && n.b.Inv%2 == 1 {
			return nil, &api.Error{Method: "GET", StatusCode: 404}
		}
		return nil, err
	}
	h := &apiv1.BeaconBlockHeader{Root: keyRoot(n.b.Val, n.b.Rank), Header: &phase0.SignedBeaconBlockHeader{Message: &phase0.BeaconBlockHeader{Slot: slot}}}
	return &api.Response[*apiv1.BeaconBlockHeader]{Data: h, Metadata: map[string]any{}}, nil
}

func (n *fnode) SignedBeaconBlock(ctx context.Context, _ *api.SignedBeaconBlockOpts) (*api.Response[*spec.VersionedSignedBeaconBlock], error) {
	if err := n.wait(ctx); err != nil {
		if n.b.Kind == "error" && n.b.Inv%2 == 1 {
			return nil, &api.Error{Method: "GET", StatusCode: 503}
		}
		return nil, err
	}
	b := &spec.VersionedSignedBeaconBlock{Version: spec.DataVersionPhase0, Phase0: &phase0.SignedBeaconBlock{Message: &phase0.BeaconBlock{Slot: slot, ParentRoot: keyRoot(n.b.Val, n.b.Rank), Body: &phase0.BeaconBlockBody{ETH1Data: &phase0.ETH1Data{}}}}}
	return &api.Response[*spec.VersionedSignedBeaconBlock]{Data: b, Metadata: map[string]any{}}, nil
}

// slotCache maps a key root to a head slot: slot-1-(20-rank) so that a higher rank is a later head.
type slotCache struct{ mode string }

func (c slotCache) BlockRootToSlot(_ context.Context, root phase0.Root) (phase0.Slot, error) {
	rank := int(binary.BigEndian.Uint32(root[4:8])) - 1
	if rank < 0 {
		return 0, errors.New("unknown root")
	}
	if c.mode == "const" {
		return slot - 1, nil
	}
	return slot - 30 + phase0.Slot(rank), nil
}

type strategy struct {
	Name        string
	Class       string // best | majority | first
	Invalid     bool   // has validity rules, i.e. "invalid" node behaviour applies
	Threshold   bool
	SoftDecides bool // decides at the soft timeout when it has replies
	build       func(nodes []*fnode, threshold int) (func(ctx context.Context) (string, error), error)
}

var _ = uint256.NewInt

func strategies() []strategy {
	mon := nullmetrics.New()
	clock := harness.NewVClock(12*time.Second, spe)
	var out []strategy
	// attestation data
	adProviders := func(nodes []*fnode) map[string]eth2client.AttestationDataProvider {
		m := map[string]eth2client.AttestationDataProvider{}
		for _, n := range nodes {
			m[n.name] = n
		}
		return m
	}
	adCall := func(f func(context.Context, *api.AttestationDataOpts) (*api.Response[*phase0.AttestationData], error)) func(context.Context) (string, error) {
		return func(ctx context.Context) (string, error) {
			r, err := f(ctx, &api.AttestationDataOpts{Slot: slot, CommitteeIndex: 3})
			if err != nil {
				return "", err
			}
			if r == nil || r.Data == nil {
				return "<nil>", nil
			}
			if uint64(r.Data.Target.Epoch) != uint64(slot)/spe {
				return "<invalid:target>", nil
			}
			if r.Data.Source.Epoch > 100 {
				return fmt.Sprintf("%s/s%d", decodeKey(r.Data.BeaconBlockRoot), r.Data.Source.Epoch-100), nil
			}
			return decodeKey(r.Data.BeaconBlockRoot), nil
		}
	}
	out = append(out, strategy{Name: "attestationdata/best", Class: "best", Invalid: true, SoftDecides: true, build: func(nodes []*fnode, _ int) (func(context.Context) (string, error), error) {
		s, err := adbest.New(context.Background(), adbest.WithLogLevel(zerolog.Disabled), adbest.WithClientMonitor(mon), adbest.WithProcessConcurrency(6), adbest.WithAttestationDataProviders(adProviders(nodes)),
			adbest.WithTimeout(timeout), adbest.WithChainTime(clock), adbest.WithBlockRootToSlotCache(slotCache{"const"}))
		if err != nil {
			return nil, err
		}
		return adCall(s.AttestationData), nil
	}})
	out = append(out, strategy{Name: "attestationdata/majority", Class: "majority", Invalid: true, Threshold: true, build: func(nodes []*fnode, th int) (func(context.Context) (string, error), error) {
		s, err := admaj.New(context.Background(), admaj.WithLogLevel(zerolog.Disabled), admaj.WithClientMonitor(mon), admaj.WithProcessConcurrency(6), admaj.WithAttestationDataProviders(adProviders(nodes)),
			admaj.WithTimeout(timeout), admaj.WithChainTime(clock), admaj.WithBlockRootToSlotCache(slotCache{}), admaj.WithThreshold(th))
		if err != nil {
			return nil, err
		}
		return adCall(s.AttestationData), nil
	}})
	out = append(out, strategy{Name: "attestationdata/first", Class: "first", build: func(nodes []*fnode, _ int) (func(context.Context) (string, error), error) {
		s, err := adfirst.New(context.Background(), adfirst.WithLogLevel(zerolog.Disabled), adfirst.WithClientMonitor(mon), adfirst.WithAttestationDataProviders(adProviders(nodes)), adfirst.WithTimeout(timeout))
		if err != nil {
			return nil, err
		}
		return adCall(s.AttestationData), nil
	}})
	// aggregate attestation
	agProviders := func(nodes []*fnode) map[string]eth2client.AggregateAttestationProvider {
		m := map[string]eth2client.AggregateAttestationProvider{}
		for _, n := range nodes {
			m[n.name] = n
		}
		return m
	}
	agCall := func(f func(context.Context, *api.AggregateAttestationOpts) (*api.Response[*phase0.Attestation], error)) func(context.Context) (string, error) {
		return func(ctx context.Context) (string, error) {
			r, err := f(ctx, &api.AggregateAttestationOpts{Slot: slot})
			if err != nil {
				return "", err
			}
			if r == nil || r.Data == nil {
				return "<nil>", nil
			}
			return decodeKey(r.Data.Data.BeaconBlockRoot), nil
		}
	}
	out = append(out, strategy{Name: "aggregateattestation/best", Class: "best", Invalid: true, SoftDecides: true, build: func(nodes []*fnode, _ int) (func(context.Context) (string, error), error) {
		s, err := aggbest.New(context.Background(), aggbest.WithLogLevel(zerolog.Disabled), aggbest.WithClientMonitor(mon), aggbest.WithProcessConcurrency(6), aggbest.WithAggregateAttestationProviders(agProviders(nodes)), aggbest.WithTimeout(timeout))
		if err != nil {
			return nil, err
		}
		return agCall(s.AggregateAttestation), nil
	}})
	out = append(out, strategy{Name: "aggregateattestation/first", Class: "first", build: func(nodes []*fnode, _ int) (func(context.Context) (string, error), error) {
		s, err := aggfirst.New(context.Background(), aggfirst.WithLogLevel(zerolog.Disabled), aggfirst.WithClientMonitor(mon), aggfirst.WithAggregateAttestationProviders(agProviders(nodes)), aggfirst.WithTimeout(timeout))
		if err != nil {
			return nil, err
		}
		return agCall(s.AggregateAttestation), nil
	}})
	// sync committee contribution
	scProviders := func(nodes []*fnode) map[string]eth2client.SyncCommitteeContributionProvider {
		m := map[string]eth2client.SyncCommitteeContributionProvider{}
		for _, n := range nodes {
			m[n.name] = n
		}
		return m
	}
	scCall := func(f func(context.Context, *api.SyncCommitteeContributionOpts) (*api.Response[*altair.SyncCommitteeContribution], error)) func(context.Context) (string, error) {
		return func(ctx context.Context) (string, error) {
			r, err := f(ctx, &api.SyncCommitteeContributionOpts{Slot: slot, SubcommitteeIndex: 1, BeaconBlockRoot: phase0.Root{1}})
			if err != nil {
				return "", err
			}
			if r == nil || r.Data == nil {
				return "<nil>", nil
			}
			return decodeKey(r.Data.BeaconBlockRoot), nil
		}
	}
	out = append(out, strategy{Name: "synccommitteecontribution/best", Class: "best", Invalid: true, SoftDecides: true, build: func(nodes []*fnode, _ int) (func(context.Context) (string, error), error) {
		s, err := scbest.New(context.Background(), scbest.WithLogLevel(zerolog.Disabled), scbest.WithClientMonitor(mon), scbest.WithProcessConcurrency(6), scbest.WithSyncCommitteeContributionProviders(scProviders(nodes)), scbest.WithTimeout(timeout))
		if err != nil {
			return nil, err
		}
		return scCall(s.SyncCommitteeContribution), nil
	}})
	out = append(out, strategy{Name: "synccommitteecontribution/first", Class: "first", build: func(nodes []*fnode, _ int) (func(context.Context) (string, error), error) {
		s, err := scfirst.New(context.Background(), scfirst.WithLogLevel(zerolog.Disabled), scfirst.WithClientMonitor(mon), scfirst.WithSyncCommitteeContributionProviders(scProviders(nodes)), scfirst.WithTimeout(timeout))
		if err != nil {
			return nil, err
		}
		return scCall(s.SyncCommitteeContribution), nil
	}})
	// block proposal
	prProviders := func(nodes []*fnode) map[string]eth2client.ProposalProvider {
		m := map[string]eth2client.ProposalProvider{}
		for _, n := range nodes {
			m[n.name] = n
		}
		return m
	}
	prCall := func(f func(context.Context, *api.ProposalOpts) (*api.Response[*api.VersionedProposal], error)) func(context.Context) (string, error) {
		return func(ctx context.Context) (string, error) {
			r, err := f(ctx, &api.ProposalOpts{Slot: slot})
			if err != nil {
				return "", err
			}
			if r == nil || r.Data == nil {
				return "<nil>", nil
			}
			fr, ferr := r.Data.FeeRecipient()
			if ferr != nil {
				return "<invalid:missing-data>", nil
			}
			if fr.IsZero() {
				return "<invalid:zero-fee-recipient>", nil
			}
			return decodeKey(r.Data.Capella.ParentRoot), nil
		}
	}
	out = append(out, strategy{Name: "beaconblockproposal/best", Class: "best", Invalid: true, SoftDecides: true, build: func(nodes []*fnode, _ int) (func(context.Context) (string, error), error) {
		specP := harness.NewSpec(spe, map[string]any{"TIMELY_SOURCE_WEIGHT": uint64(14), "TIMELY_TARGET_WEIGHT": uint64(26), "TIMELY_HEAD_WEIGHT": uint64(14),
			"SYNC_REWARD_WEIGHT": uint64(2), "PROPOSER_WEIGHT": uint64(8), "WEIGHT_DENOMINATOR": uint64(64)})
		s, err := propbest.New(context.Background(), propbest.WithLogLevel(zerolog.Disabled), propbest.WithTimeout(timeout), propbest.WithClientMonitor(mon), propbest.WithProcessConcurrency(6),
			propbest.WithEventsProvider(harness.NewCapEvents()), propbest.WithChainTimeService(clock), propbest.WithSpecProvider(specP), propbest.WithProposalProviders(prProviders(nodes)),
			propbest.WithSignedBeaconBlockProvider(nodes[0]), propbest.WithBlockRootToSlotCache(slotCache{"const"}))
		if err != nil {
			return nil, err
		}
		return prCall(s.Proposal), nil
	}})
	out = append(out, strategy{Name: "beaconblockproposal/first", Class: "first", build: func(nodes []*fnode, _ int) (func(context.Context) (string, error), error) {
		s, err := propfirst.New(context.Background(), propfirst.WithLogLevel(zerolog.Disabled), propfirst.WithClientMonitor(mon), propfirst.WithProposalProviders(prProviders(nodes)), propfirst.WithTimeout(timeout))
		if err != nil {
			return nil, err
		}
		return prCall(s.Proposal), nil
	}})
	// beacon block root
	brProviders := func(nodes []*fnode) map[string]eth2client.BeaconBlockRootProvider {
		m := map[string]eth2client.BeaconBlockRootProvider{}
		for _, n := range nodes {
			m[n.name] = n
		}
		return m
	}
	brCall := func(f func(context.Context, *api.BeaconBlockRootOpts) (*api.Response[*phase0.Root], error)) func(context.Context) (string, error) {
		return func(ctx context.Context) (string, error) {
			r, err := f(ctx, &api.BeaconBlockRootOpts{Block: "head"})
			if err != nil {
				return "", err
			}
			if r == nil || r.Data == nil {
				return "<nil>", nil
			}
			return decodeKey(*r.Data), nil
		}
	}
	out = append(out, strategy{Name: "beaconblockroot/first", Class: "first", build: func(nodes []*fnode, _ int) (func(context.Context) (string, error), error) {
		s, err := rootfirst.New(context.Background(), rootfirst.WithLogLevel(zerolog.Disabled), rootfirst.WithClientMonitor(mon), rootfirst.WithBeaconBlockRootProviders(brProviders(nodes)), rootfirst.WithTimeout(timeout))
		if err != nil {
			return nil, err
		}
		return brCall(s.BeaconBlockRoot), nil
	}})
	out = append(out, strategy{Name: "beaconblockroot/latest", Class: "best", SoftDecides: true, build: func(nodes []*fnode, _ int) (func(context.Context) (string, error), error) {
		s, err := rootlatest.New(context.Background(), rootlatest.WithLogLevel(zerolog.Disabled), rootlatest.WithClientMonitor(mon), rootlatest.WithProcessConcurrency(6), rootlatest.WithBeaconBlockRootProviders(brProviders(nodes)),
			rootlatest.WithTimeout(timeout), rootlatest.WithBlockRootToSlotCache(slotCache{}))
		if err != nil {
			return nil, err
		}
		return brCall(s.BeaconBlockRoot), nil
	}})
	out = append(out, strategy{Name: "beaconblockroot/majority", Class: "majority", SoftDecides: true, build: func(nodes []*fnode, _ int) (func(context.Context) (string, error), error) {
		s, err := rootmaj.New(context.Background(), rootmaj.WithLogLevel(zerolog.Disabled), rootmaj.WithClientMonitor(mon), rootmaj.WithProcessConcurrency(6), rootmaj.WithBeaconBlockRootProviders(brProviders(nodes)),
			rootmaj.WithTimeout(timeout), rootmaj.WithBlockRootToSlotCache(slotCache{}))
		if err != nil {
			return nil, err
		}
		return brCall(s.BeaconBlockRoot), nil
	}})
	// header, signed block
	out = append(out, strategy{Name: "beaconblockheader/first", Class: "first", build: func(nodes []*fnode, _ int) (func(context.Context) (string, error), error) {
		m := map[string]eth2client.BeaconBlockHeadersProvider{}
		for _, n := range nodes {
			m[n.name] = n
		}
		s, err := hdrfirst.New(context.Background(), hdrfirst.WithLogLevel(zerolog.Disabled), hdrfirst.WithClientMonitor(mon), hdrfirst.WithBeaconBlockHeadersProviders(m), hdrfirst.WithTimeout(timeout))
		if err != nil {
			return nil, err
		}
		return func(ctx context.Context) (string, error) {
			r, err := s.BeaconBlockHeader(ctx, &api.BeaconBlockHeaderOpts{Block: "head"})
			if err != nil {
				return "", err
			}
			if r == nil || r.Data == nil {
				return "<nil>", nil
			}
			return decodeKey(r.Data.Root), nil
		}, nil
	}})
	out = append(out, strategy{Name: "signedbeaconblock/first", Class: "first", build: func(nodes []*fnode, _ int) (func(context.Context) (string, error), error) {
		m := map[string]eth2client.SignedBeaconBlockProvider{}
		for _, n := range nodes {
			m[n.name] = n
		}
		s, err := sbbfirst.New(context.Background(), sbbfirst.WithLogLevel(zerolog.Disabled), sbbfirst.WithClientMonitor(mon), sbbfirst.WithSignedBeaconBlockProviders(m), sbbfirst.WithTimeout(timeout))
		if err != nil {
			return nil, err
		}
		return func(ctx context.Context) (string, error) {
			r, err := s.SignedBeaconBlock(ctx, &api.SignedBeaconBlockOpts{Block: "head"})
			if err != nil {
				return "", err
			}
			if r == nil || r.Data == nil {
				return "<nil>", nil
			}
			pr, _ := r.Data.ParentRoot()
			return decodeKey(pr), nil
		}, nil
	}})
	return out
}

type reply struct {
	node  int
	key   string
	rank  int
	val   int
	at    time.Duration
	valid bool
}

func genCase(r *rand.Rand, st strategy) ([]nb, int) {
	n := 1 + r.Intn(6)
	bs := make([]nb, n)
	nVals := 1 + r.Intn(3)
	for i := range bs {
		b := nb{Lat: []string{"fast", "fast", "fast", "mid", "mid", "late"}[r.Intn(6)], Rank: r.Intn(8), Val: r.Intn(nVals), Inv: r.Intn(6)}
		switch x := r.Intn(12); {
		case x < 7:
			b.Kind = "valid"
		case x < 9:
			b.Kind = "error"
		case x == 9:
			b.Kind = "silent"
		case x == 10:
			b.Kind = "hang"
		default:
			if st.Invalid {
				b.Kind = "invalid"
				b.Rank = 9 + r.Intn(3) // tempting score
			} else {
				b.Kind = "valid"
			}
		}
		if st.Class == "majority" {
			b.Rank = b.Val * 2 // the value determines the head slot (tie-break)
			if r.Intn(3) == 0 {
				b.Rank = (nVals - b.Val) * 2
			}
			// one value -> one rank
			b.Rank = []int{3, 7, 5}[b.Val]
			if st.Name == "attestationdata/majority" && r.Intn(3) == 0 {
				b.Src = 1 + r.Intn(2)
			}
		}
		bs[i] = b
	}
	th := 1 + r.Intn(n)
	return bs, th
}

func judge(c *harness.Ctx, id string, st strategy, bs []nb, th int, nodes []*fnode, got string, err error, took time.Duration) {
	detail := map[string]any{"strategy": st.Name, "nodes": bs, "threshold": th, "returned": got, "error": fmt.Sprint(err), "took_ms": took.Milliseconds(), "timeout_ms": timeout.Milliseconds()}
	var measured []string
	var reps []reply
	resolvedAll := time.Duration(0) // instant at which every node had answered or failed (inf if some never do)
	never := false
	for i, n := range nodes {
		n.mu.Lock()
		at := n.replied
		n.mu.Unlock()
		if at == 0 && n.b.Kind != "silent" && n.b.Kind != "hang" {
			// cancelled before it could answer (the strategy had returned): it would have answered at its scripted latency
			at = n.lat
		}
		measured = append(measured, fmt.Sprintf("%s:%s@%dms", n.b.Kind, n.b.Lat, at.Milliseconds()))
		switch n.b.Kind {
		case "silent", "hang":
			never = true
		default:
			if at == 0 {
				never = true // cancelled before replying
			} else if at > resolvedAll {
				resolvedAll = at
			}
		}
		if at > 0 && (n.b.Kind == "valid" || n.b.Kind == "invalid") {
			reps = append(reps, reply{node: i, key: n.key(), rank: n.b.Rank, val: n.b.Val, at: at, valid: n.b.Kind == "valid"})
		}
	}
	detail["measured"] = measured
	if never {
		resolvedAll = 1 << 60
	}
	fail := func(key, what string) { c.Violate(key+":"+st.Name, what, id, detail) }

	// bounded time
	if took > timeout+slack {
		fail("returned-after-timeout", fmt.Sprintf("returned after %v (timeout %v)", took, timeout))
	}
	// never an invalid or missing value
	if err == nil && strings.HasPrefix(got, "<") {
		fail("invalid-response-returned", "a response failing the validity rules was returned: "+got)
		return
	}
	// a returned value was given by some node before the return
	if err == nil {
		ok := false
		for _, rp := range reps {
			if rp.key == got && rp.valid && rp.at <= took+5*time.Millisecond {
				ok = true
			}
		}
		if !ok {
			fail("returned-value-nobody-gave", "returned "+got+" which no node had (validly) given by the time of return")
			return
		}
	}
	validBefore := func(d time.Duration) []reply {
		var out []reply
		for _, rp := range reps {
			if rp.valid && rp.at < d {
				out = append(out, rp)
			}
		}
		return out
	}
	// error exactly when no acceptable response arrived in time
	if err != nil && len(validBefore(timeout-margin)) > 0 && st.Class != "majority" {
		fail("error-despite-valid-response", "an acceptable response arrived clearly before the timeout but an error was returned: "+err.Error())
		return
	}
	if err == nil && len(validBefore(timeout+margin)) == 0 {
		fail("value-without-valid-response", "no acceptable response arrived before the timeout, yet a value was returned")
		return
	}
	rankOf := func(key string) int {
		for _, rp := range reps {
			if rp.key == key {
				return rp.rank
			}
		}
		return -1
	}
	switch st.Class {
	case "best":
		if err != nil {
			return
		}
		early := validBefore(soft - margin)
		ambiguousEarly := len(validBefore(soft+margin)) != len(early)
		if len(early) > 0 {
			// decision at the soft timeout (or when everybody has answered): at least as good as everything clearly before it
			limit := soft - margin
			if resolvedAll < limit {
				limit = resolvedAll + time.Millisecond
			}
			for _, x := range validBefore(limit) {
				if x.rank > rankOf(got) {
					fail("not-the-best-response", fmt.Sprintf("returned %s although %s (higher score) arrived at %v, clearly before the decision point", got, x.key, x.at))
					return
				}
			}
		} else if !ambiguousEarly {
			// nothing valid by the soft timeout: waits for all outstanding nodes or the hard timeout
			limit := timeout - margin
			if resolvedAll < limit {
				limit = resolvedAll + time.Millisecond
			} else if resolvedAll < timeout+margin {
				return // ambiguous
			}
			for _, x := range validBefore(limit) {
				if x.rank > rankOf(got) {
					fail("not-the-best-response", fmt.Sprintf("returned %s although %s (higher score) arrived at %v, clearly before the decision point", got, x.key, x.at))
					return
				}
			}
		}
	case "majority":
		// earliest legitimate decision point D from the measured arrivals
		strict := len(nodes)/2 + 1
		sorted := append([]reply{}, reps...)
		sort.Slice(sorted, func(i, j int) bool { return sorted[i].at < sorted[j].at })
		tMaj := time.Duration(1 << 60)
		counts := map[string]int{}
		for _, rp := range sorted {
			if !rp.valid {
				continue
			}
			counts[rp.key]++
			if counts[rp.key] >= strict && rp.at < tMaj {
				tMaj = rp.at
			}
		}
		D := timeout
		if st.SoftDecides && len(validBefore(soft-margin)) > 0 {
			D = soft
		} else if st.SoftDecides && len(validBefore(soft+margin)) > 0 {
			return // ambiguous
		}
		if tMaj < D {
			D = tMaj
		}
		if resolvedAll < D {
			D = resolvedAll
		}
		def := map[string]int{}
		gen := map[string]int{}
		amb := false
		for _, rp := range reps {
			if !rp.valid {
				continue
			}
			if rp.at < D-margin || rp.at <= D && (D == tMaj || D == resolvedAll) {
				def[rp.key]++
			}
			if rp.at < D+margin {
				gen[rp.key]++
			}
			if rp.at >= D-margin && rp.at < D+margin && !(D == tMaj || D == resolvedAll) {
				amb = true
			}
		}
		threshold := 1
		if st.Threshold {
			threshold = th
		}
		maxDef, maxGen := 0, 0
		for _, v := range def {
			if v > maxDef {
				maxDef = v
			}
		}
		for _, v := range gen {
			if v > maxGen {
				maxGen = v
			}
		}
		if err != nil {
			if maxDef >= threshold {
				fail("error-despite-majority", fmt.Sprintf("a value was reported by %d nodes (threshold %d) before the decision point but an error was returned: %v", maxDef, threshold, err))
			}
			return
		}
		if gen[got] < threshold {
			fail("value-below-threshold", fmt.Sprintf("returned %s reported by %d nodes, threshold is %d", got, gen[got], threshold))
			return
		}
		for k, v := range def {
			if v > gen[got] {
				fail("not-the-majority-value", fmt.Sprintf("returned %s (%d reports) although %s had %d reports before the decision point", got, gen[got], k, v))
				return
			}
			if !amb && v == gen[got] && k != got && rankOf(k) > rankOf(got) && def[got] == gen[got] {
				fail("majority-tie-not-by-head-slot", fmt.Sprintf("tie between %s and %s (%d reports each) resolved against the later head", got, k, v))
				return
			}
		}
	}
}

func run(c *harness.Ctx) {
	sts := strategies()
	n := c.N(4200, 60000)
	var wg sync.WaitGroup
	sem := make(chan struct{}, 160)
	for i := 0; i < n; i++ {
		st := sts[i%len(sts)]
		id := fmt.Sprintf("%s#%d", st.Name, i)
		c.Case(id, func() {
			r := c.Rand("case", i)
			bs, th := genCase(r, st)
			nodes := make([]*fnode, len(bs))
			for k, b := range bs {
				nodes[k] = &fnode{name: fmt.Sprintf("node%d", k), b: b, lat: b.latency(r), strat: st.Name}
			}
			wg.Add(1)
			sem <- struct{}{}
			go func() {
				defer wg.Done()
				defer func() { <-sem }()
				call, err := st.build(nodes, th)
				if err != nil {
					c.Inconclusive("cannot build " + st.Name + ": " + err.Error())
					return
				}
				start := time.Now()
				for _, nd := range nodes {
					nd.start = start
				}
				type res struct {
					got string
					err error
				}
				done := make(chan res, 1)
				go func() {
					g, e := call(context.Background())
					done <- res{g, e}
				}()
				var rs res
				select {
				case rs = <-done:
				case <-time.After(10 * time.Second):
					c.Violate("never-returns:"+st.Name, "strategy did not return within 10 s", id, map[string]any{"nodes": bs})
					return
				}
				took := time.Since(start)
				judge(c, id, st, bs, th, nodes, rs.got, rs.err, took)
				var ks []string
				for _, b := range bs {
					ks = append(ks, b.Kind[:1]+b.Lat[:1])
				}
				sort.Strings(ks)
				outcome := "value"
				if rs.err != nil {
					outcome = "error"
				}
				if len(bs) >= 2 {
					c.Distinct(st.Name + "|" + strings.Join(ks, ",") + "|" + outcome)
				}
				c.Count("strategy_calls_"+st.Class, 1)
				if i < 3 {
					c.Sample(map[string]any{"strategy": st.Name, "nodes": bs, "threshold": th, "returned": rs.got, "error": fmt.Sprint(rs.err), "took_ms": took.Milliseconds()})
				}
			}()
		})
	}
	wg.Wait()
}

func main() {
	harness.Main(&harness.Spec{
		Property:     "C07",
		Level:        "exploration",
		Rule:         "for each of the 17 strategy services: 1-6 scripted nodes, each {valid with a score rank / reported value, invalid per the strategy's validity rules with a tempting score, error, silent until cancelled, hanging beyond the timeout} x latency {fast 5-65 ms, mid 600 ms (between soft 400 and hard 800), late 1080 ms}; majority threshold 1..n; oracle on measured reply instants with a 130 ms ambiguity margin around each deadline. distinct = (strategy, multiset of node (kind, latency) classes, outcome); non-trivial = >=2 nodes",
		Batches:      func(string) int { return 2 },
		Parallel:     2,
		Run:          run,
		MinDistinct:  150,
		ChildTimeout: func(string) time.Duration { return 40 * time.Minute },
		Assumptions:  []string{"timeout 0.8 s; scripted latencies are >= 150 ms away from the soft and hard deadlines; replies measured inside +-130 ms of a deadline make the case ambiguous and both outcomes are accepted", "score order is checked only between replies whose intended order is unambiguous (distinct ranks: source epoch / set bits / block value / head slot)", "the 'first' strategies have no validity rules of their own"},
	})
}
