// C07: multi-node strategies return the right valid answer, in bounded time.
// Monitor: all 17 strategy services over scripted, time-stamped fake beacon nodes; the oracle (refstrategy,
// DESIGN.md §5 C07) works on the *measured* instants at which each node's reply left the fake.
package main

import (
	"context"
	"fmt"
	"math/rand"
	"sort"
	"strings"
	"sync"
	"sync/atomic"
	"time"

	"verif/harness"
)

type reply struct {
	node  int
	key   string
	rank  int
	val   int
	at    time.Duration
	valid bool
}

func genCase(r *rand.Rand, st strategy) ([]nb, int) {
	n := 1 + r.Intn(6)
	bs := make([]nb, n)
	nVals := 1 + r.Intn(3)
	for i := range bs {
		b := nb{Lat: []string{"fast", "fast", "fast", "mid", "mid", "late"}[r.Intn(6)], Rank: r.Intn(8), Val: r.Intn(nVals), Inv: r.Intn(6)}
		switch x := r.Intn(12); {
		case x < 7:
			b.Kind = "valid"
		case x < 9:
			b.Kind = "error"
		case x == 9:
			b.Kind = "silent"
		case x == 10:
			b.Kind = "hang"
		default:
			if st.Invalid {
				b.Kind = "invalid"
				b.Rank = 9 + r.Intn(3) // tempting score
			} else {
				b.Kind = "valid"
			}
		}
		if st.Class == "majority" {
			b.Rank = b.Val * 2 // the value determines the head slot (tie-break)
			if r.Intn(3) == 0 {
				b.Rank = (nVals - b.Val) * 2
			}
			// one value -> one rank
			b.Rank = []int{3, 7, 5}[b.Val]
			if st.Name == "attestationdata/majority" && r.Intn(3) == 0 {
				b.Src = 1 + r.Intn(2)
			}
		}
		bs[i] = b
	}
	if strings.HasPrefix(st.Name, "synccommitteecontribution/") {
		quiet := r.Intn(5) == 0 // a quiet subnet: nobody has anything
		for i := range bs {
			bs[i].Zero = quiet || r.Intn(6) == 0
		}
	}
	th := 1 + r.Intn(n)
	return bs, th
}

func judge(c *harness.Ctx, id string, st strategy, bs []nb, th int, nodes []*fnode, got string, err error, took time.Duration) {
	detail := map[string]any{"strategy": st.Name, "nodes": bs, "threshold": th, "returned": got, "error": fmt.Sprint(err), "took_ms": took.Milliseconds(), "timeout_ms": timeout.Milliseconds()}
	var measured []string
	var reps []reply
	resolvedAll := time.Duration(0) // instant at which every node had answered or failed (inf if some never do)
	never := false
	for i, n := range nodes {
		n.mu.Lock()
		at := n.replied
		n.mu.Unlock()
		if at == 0 && n.b.Kind != "silent" && n.b.Kind != "hang" {
			// cancelled before it could answer (the strategy had returned): it would have answered at its scripted latency
			at = n.lat
		}
		measured = append(measured, fmt.Sprintf("%s:%s@%dms", n.b.Kind, n.b.Lat, at.Milliseconds()))
		switch n.b.Kind {
		case "silent", "hang":
			never = true
		default:
			if at == 0 {
				never = true // cancelled before replying
			} else if at > resolvedAll {
				resolvedAll = at
			}
		}
		if at > 0 && (n.b.Kind == "valid" || n.b.Kind == "invalid") {
			rank := n.b.Rank
			if n.b.Zero {
				rank = -1 // no participation: any contribution with a bit set scores higher
			}
			reps = append(reps, reply{node: i, key: n.key(), rank: rank, val: n.b.Val, at: at, valid: n.b.Kind == "valid"})
		}
	}
	detail["measured"] = measured
	if never {
		resolvedAll = 1 << 60
	}
	fail := func(key, what string) { c.Violate(key+":"+st.Name, what, id, detail) }

	// bounded time
	if took > timeout+slack {
		fail("returned-after-timeout", fmt.Sprintf("returned after %v (timeout %v)", took, timeout))
	}
	// never an invalid or missing value
	if err == nil && strings.HasPrefix(got, "<") {
		fail("invalid-response-returned", "a response failing the validity rules was returned: "+got)
		return
	}
	// a returned value was given by some node before the return
	if err == nil {
		ok := false
		for _, rp := range reps {
			if rp.key == got && rp.valid && rp.at <= took+5*time.Millisecond {
				ok = true
			}
		}
		if !ok {
			fail("returned-value-nobody-gave", "returned "+got+" which no node had (validly) given by the time of return")
			return
		}
	}
	validBefore := func(d time.Duration) []reply {
		var out []reply
		for _, rp := range reps {
			if rp.valid && rp.at < d {
				out = append(out, rp)
			}
		}
		return out
	}
	// error exactly when no acceptable response arrived in time
	if err != nil && len(validBefore(timeout-margin)) > 0 && st.Class != "majority" {
		fail("error-despite-valid-response", "an acceptable response arrived clearly before the timeout but an error was returned: "+err.Error())
		return
	}
	if err == nil && len(validBefore(timeout+margin)) == 0 {
		fail("value-without-valid-response", "no acceptable response arrived before the timeout, yet a value was returned")
		return
	}
	rankOf := func(key string) int {
		for _, rp := range reps {
			if rp.key == key {
				return rp.rank
			}
		}
		return -1
	}
	switch st.Class {
	case "best":
		if err != nil {
			return
		}
		early := validBefore(soft - margin)
		ambiguousEarly := len(validBefore(soft+margin)) != len(early)
		if len(early) > 0 {
			// decision at the soft timeout (or when everybody has answered): at least as good as everything clearly before it
			limit := soft - margin
			if resolvedAll < limit {
				limit = resolvedAll + time.Millisecond
			}
			for _, x := range validBefore(limit) {
				if x.rank > rankOf(got) {
					fail("not-the-best-response", fmt.Sprintf("returned %s although %s (higher score) arrived at %v, clearly before the decision point", got, x.key, x.at))
					return
				}
			}
		} else if !ambiguousEarly {
			// nothing valid by the soft timeout: waits for all outstanding nodes or the hard timeout
			limit := timeout - margin
			if resolvedAll < limit {
				limit = resolvedAll + time.Millisecond
			} else if resolvedAll < timeout+margin {
				return // ambiguous
			}
			for _, x := range validBefore(limit) {
				if x.rank > rankOf(got) {
					fail("not-the-best-response", fmt.Sprintf("returned %s although %s (higher score) arrived at %v, clearly before the decision point", got, x.key, x.at))
					return
				}
			}
		}
	case "majority":
		// earliest legitimate decision point D from the measured arrivals
		strict := len(nodes)/2 + 1
		sorted := append([]reply{}, reps...)
		sort.Slice(sorted, func(i, j int) bool { return sorted[i].at < sorted[j].at })
		tMaj := time.Duration(1 << 60)
		counts := map[string]int{}
		for _, rp := range sorted {
			if !rp.valid {
				continue
			}
			counts[rp.key]++
			if counts[rp.key] >= strict && rp.at < tMaj {
				tMaj = rp.at
			}
		}
		D := timeout
		if st.SoftDecides && len(validBefore(soft-margin)) > 0 {
			D = soft
		} else if st.SoftDecides && len(validBefore(soft+margin)) > 0 {
			return // ambiguous
		}
		if tMaj < D {
			D = tMaj
		}
		if resolvedAll < D {
			D = resolvedAll
		}
		def := map[string]int{}
		gen := map[string]int{}
		amb := false
		for _, rp := range reps {
			if !rp.valid {
				continue
			}
			if rp.at < D-margin || rp.at <= D && (D == tMaj || D == resolvedAll) {
				def[rp.key]++
			}
			if rp.at < D+margin {
				gen[rp.key]++
			}
			if rp.at >= D-margin && rp.at < D+margin && !(D == tMaj || D == resolvedAll) {
				amb = true
			}
		}
		threshold := 1
		if st.Threshold {
			threshold = th
		}
		maxDef, maxGen := 0, 0
		for _, v := range def {
			if v > maxDef {
				maxDef = v
			}
		}
		for _, v := range gen {
			if v > maxGen {
				maxGen = v
			}
		}
		if err != nil {
			if maxDef >= threshold {
				fail("error-despite-majority", fmt.Sprintf("a value was reported by %d nodes (threshold %d) before the decision point but an error was returned: %v", maxDef, threshold, err))
			}
			return
		}
		if gen[got] < threshold {
			fail("value-below-threshold", fmt.Sprintf("returned %s reported by %d nodes, threshold is %d", got, gen[got], threshold))
			return
		}
		for k, v := range def {
			if v > gen[got] {
				fail("not-the-majority-value", fmt.Sprintf("returned %s (%d reports) although %s had %d reports before the decision point", got, gen[got], k, v))
				return
			}
			if !amb && v == gen[got] && k != got && rankOf(k) > rankOf(got) && def[got] == gen[got] {
				fail("majority-tie-not-by-head-slot", fmt.Sprintf("tie between %s and %s (%d reports each) resolved against the later head", got, k, v))
				return
			}
		}
	}
}

var judged, stalledCalls atomic.Int64

func run(c *harness.Ctx) {
	harness.StartStallMonitor()
	sts := strategies()
	n := c.N(4200, 60000)
	var wg sync.WaitGroup
	sem := make(chan struct{}, 48)
	for i := 0; i < n; i++ {
		st := sts[i%len(sts)]
		id := fmt.Sprintf("%s#%d", st.Name, i)
		c.Case(id, func() {
			r := c.Rand("case", i)
			bs, th := genCase(r, st)
			nodes := make([]*fnode, len(bs))
			for k, b := range bs {
				nodes[k] = &fnode{name: fmt.Sprintf("node%d", k), b: b, lat: b.latency(r), strat: st.Name}
			}
			wg.Add(1)
			sem <- struct{}{}
			go func() {
				defer wg.Done()
				defer func() { <-sem }()
				call, err := st.build(nodes, th)
				if err != nil {
					c.Inconclusive("cannot build " + st.Name + ": " + err.Error())
					return
				}
				start := time.Now()
				for _, nd := range nodes {
					nd.start = start
				}
				type res struct {
					got string
					err error
				}
				done := make(chan res, 1)
				go func() {
					g, e := call(context.Background())
					done <- res{g, e}
				}()
				var rs res
				select {
				case rs = <-done:
				case <-time.After(10 * time.Second):
					c.Violate("never-returns:"+st.Name, "strategy did not return within 10 s", id, map[string]any{"nodes": bs})
					return
				}
				took := time.Since(start)
				judged.Add(1)
				if harness.MaxStallSince(start) > 60*time.Millisecond {
					// the process was starved of CPU while the call ran: measured times say nothing about the strategy
					stalledCalls.Add(1)
					c.Count("calls_not_judged_process_stalled", 1)
					return
				}
				judge(c, id, st, bs, th, nodes, rs.got, rs.err, took)
				var ks []string
				for _, b := range bs {
					ks = append(ks, b.Kind[:1]+b.Lat[:1])
				}
				sort.Strings(ks)
				outcome := "value"
				if rs.err != nil {
					outcome = "error"
				}
				if len(bs) >= 2 {
					c.Distinct(st.Name + "|" + strings.Join(ks, ",") + "|" + outcome)
				}
				c.Count("strategy_calls_"+st.Class, 1)
				if i < 3 {
					c.Sample(map[string]any{"strategy": st.Name, "nodes": bs, "threshold": th, "returned": rs.got, "error": fmt.Sprint(rs.err), "took_ms": took.Milliseconds()})
				}
			}()
		})
	}
	wg.Wait()
	if j, st := judged.Load(), stalledCalls.Load(); j > 0 && st*3 > j {
		c.Inconclusive(fmt.Sprintf("the process was starved of CPU during %d of %d calls: they were not judged", st, j))
	}
}

func main() {
	harness.Main(&harness.Spec{
		Property:     "C07",
		Level:        "exploration",
		Rule:         "for each of the 17 strategy services: 1-6 scripted nodes, each {valid with a score rank / reported value, invalid per the strategy's validity rules with a tempting score, error, silent until cancelled, hanging beyond the timeout} x latency {fast 5-65 ms, mid 600 ms (between soft 400 and hard 800), late 1080 ms}; majority threshold 1..n; oracle on measured reply instants with a 130 ms ambiguity margin around each deadline. distinct = (strategy, multiset of node (kind, latency) classes, outcome); non-trivial = >=2 nodes",
		Batches:      func(string) int { return 2 },
		Parallel:     2,
		Run:          run,
		MinDistinct:  150,
		ChildTimeout: func(string) time.Duration { return 40 * time.Minute },
		Assumptions:  []string{"timeout 0.8 s; scripted latencies are >= 150 ms away from the soft and hard deadlines; replies measured inside +-130 ms of a deadline make the case ambiguous and both outcomes are accepted", "score order is checked only between replies whose intended order is unambiguous (distinct ranks: source epoch / set bits / block value / head slot)", "the 'first' strategies have no validity rules of their own"},
	})
}
