// C03: every duty is scheduled once, for the right time, across restarts and reorgs.
// Monitor: the real controller in virtual time (checks/ctlsim); after every stimulus the captured job table and
// the recorded duty invocations are compared with refduty (DESIGN.md A.3). Plus the chain-time conversion laws
// on the real chaintime service.
package main

import (
	"context"
	"fmt"
	"math/rand"
	"sort"
	"strings"
	"sync"
	"time"

	"github.com/attestantio/go-eth2-client/api"
	apiv1 "github.com/attestantio/go-eth2-client/api/v1"
	"github.com/attestantio/go-eth2-client/spec/phase0"
	"github.com/attestantio/vouch/mock"
	chaintime "github.com/attestantio/vouch/services/chaintime/standard"
	"github.com/rs/zerolog"
	"verif/checks/ctlsim"
	"verif/harness"
)

type step struct {
	Op  string `json:"op"` // advance | head-same | reorg-previous | reorg-current | fail-next-fetch | restart | stale-event
	Arg uint64 `json:"arg,omitempty"`
}

type hist struct {
	SPE       uint64 `json:"slots_per_epoch"`
	Start     uint64 `json:"start_slot"`
	PropDelay bool   `json:"proposal_delay"`
	Steps     []step `json:"steps"`
}

// script of the node's duties, regenerated per epoch on reorgs
type script struct {
	r    *rand.Rand
	spe  uint64
	vals []uint64
	gen  map[uint64]int // generation per epoch (attester), bumped on reorg
	pgen map[uint64]int
}

func (s *script) attester(epoch uint64) []*apiv1.AttesterDuty {
	rr := rand.New(rand.NewSource(int64(epoch)*1000003 + int64(s.gen[epoch])*7919 + 17))
	var out []*apiv1.AttesterDuty
	for _, v := range s.vals {
		slot := epoch*s.spe + uint64(rr.Intn(int(s.spe)))
		c := uint64(rr.Intn(3))
		out = append(out, &apiv1.AttesterDuty{Slot: phase0.Slot(slot), ValidatorIndex: phase0.ValidatorIndex(v), CommitteeIndex: phase0.CommitteeIndex(c), CommitteeLength: 64 + c, CommitteesAtSlot: 3, ValidatorCommitteeIndex: uint64(rr.Intn(64))})
	}
	// decoys outside the requested epoch: must be ignored
	if rr.Intn(2) == 0 {
		out = append(out, &apiv1.AttesterDuty{Slot: phase0.Slot((epoch+1)*s.spe + uint64(rr.Intn(int(s.spe)))), ValidatorIndex: phase0.ValidatorIndex(s.vals[0]), CommitteeIndex: 9, CommitteeLength: 64, CommitteesAtSlot: 3, ValidatorCommitteeIndex: 63})
	}
	if epoch > 0 && rr.Intn(2) == 0 {
		out = append(out, &apiv1.AttesterDuty{Slot: phase0.Slot(epoch*s.spe - 1), ValidatorIndex: phase0.ValidatorIndex(s.vals[1]), CommitteeIndex: 9, CommitteeLength: 64, CommitteesAtSlot: 3, ValidatorCommitteeIndex: 62})
	}
	return out
}

func (s *script) proposer(epoch uint64) []*apiv1.ProposerDuty {
	rr := rand.New(rand.NewSource(int64(epoch)*99991 + int64(s.pgen[epoch])*104729 + 5))
	var out []*apiv1.ProposerDuty
	used := map[uint64]bool{}
	for k := 0; k < 1+rr.Intn(3); k++ {
		slot := epoch*s.spe + uint64(rr.Intn(int(s.spe)))
		if used[slot] {
			continue
		}
		used[slot] = true
		out = append(out, &apiv1.ProposerDuty{Slot: phase0.Slot(slot), ValidatorIndex: phase0.ValidatorIndex(s.vals[rr.Intn(len(s.vals))])})
	}
	if rr.Intn(2) == 0 { // decoy outside the epoch
		out = append(out, &apiv1.ProposerDuty{Slot: phase0.Slot((epoch + 1) * s.spe), ValidatorIndex: phase0.ValidatorIndex(s.vals[0])})
	}
	return out
}

func (s *script) install(d *ctlsim.Duties, from, to uint64) {
	for e := from; e <= to; e++ {
		d.Attester[e] = s.attester(e)
		d.Proposer[e] = s.proposer(e)
	}
}

func tuplesAt(duties []*apiv1.AttesterDuty, slot uint64, epoch uint64, spe uint64) []string {
	var t []string
	for _, x := range duties {
		if uint64(x.Slot) == slot && uint64(x.Slot)/spe == epoch {
			t = append(t, fmt.Sprintf("(%d,%d,%d)", x.ValidatorIndex, x.CommitteeIndex, x.ValidatorCommitteeIndex))
		}
	}
	sort.Strings(t)
	return t
}

func runHistory(c *harness.Ctx, id string, r *rand.Rand) {
	spe := uint64([]int{4, 8}[r.Intn(2)])
	e0 := uint64(2 + r.Intn(3))
	h := &hist{SPE: spe, Start: e0*spe + uint64(r.Intn(int(spe))), PropDelay: r.Intn(2) == 0}
	vals := []uint64{11, 12, 13, 14, 15, 16}
	sc := &script{r: r, spe: spe, vals: vals, gen: map[uint64]int{}, pgen: map[uint64]int{}}
	opts := ctlsim.Options{SlotsPerEpoch: spe, StartSlot: h.Start, Validators: vals, EpochsPerPeriod: 4}
	if h.PropDelay {
		opts.MaxProposalDelay = 2 * time.Second
	}
	attested := map[uint64]int{} // slot -> Attest invocations over the whole history (across restarts)
	proposed := map[uint64]int{}
	var env *ctlsim.Env
	consumed := 0
	startMode := 1
	classes := map[string]bool{}
	fail := func(key, what string) {
		c.Violate(key, what, id, map[string]any{"history": h, "clock_slot": uint64(env.Clock.CurrentSlot()), "pending_jobs": jobNames(env), "attester_fetches": env.Duties.AttesterCalls, "proposer_fetches": env.Duties.ProposerCalls})
	}
	start := func(slot uint64) bool {
		opts.StartSlot = slot
		var err error
		env, err = ctlsim.New(opts)
		if err != nil {
			c.Inconclusive(err.Error())
			return false
		}
		sc.install(env.Duties, 0, e0+8)
		startMode = 1
		if slot%spe < spe-2 && r.Intn(4) == 0 {
			// the clock moves on to the next slot while the proposer duties are being fetched; there are duties in both slots
			startMode = 2
			var once sync.Once
			env.Duties.SetOnProposerFetch(func(uint64) { once.Do(func() { env.Clock.SetSlot(phase0.Slot(slot + 1)) }) })
			env.Duties.Proposer[slot/spe] = append(env.Duties.Proposer[slot/spe], &apiv1.ProposerDuty{Slot: phase0.Slot(slot), ValidatorIndex: phase0.ValidatorIndex(vals[0])},
				&apiv1.ProposerDuty{Slot: phase0.Slot(slot + 1), ValidatorIndex: phase0.ValidatorIndex(vals[1])})
			classes["start-fetch-straddles-slot"] = true
			c.Count("starts_with_fetch_across_slot_boundary", 1)
		}
		if err := env.Start(); err != nil {
			c.Inconclusive("controller.New: " + err.Error())
			return false
		}
		consumed = 0
		return true
	}
	// successful fetches per epoch, and the clock slot at the last successful fetch
	okFetch := map[uint64]bool{}
	okPFetch := map[uint64]bool{}
	failing := false
	noteFetches := func() {
		att, prop := env.Duties.LastFetch()
		for e, ok := range att {
			okFetch[e] = ok
		}
		for e, ok := range prop {
			okPFetch[e] = ok
		}
	}
	// Wherever in an epoch the controller is started, the duties of that epoch and of the next are set up by the
	// start itself (the job that prepares the next epoch is created by an epoch tick this instance never saw).
	afterStart := func(slot uint64) {
		for _, e := range []uint64{slot / spe, slot/spe + 1} {
			if _, fetched := okFetch[e]; !fetched {
				okFetch[e] = true
				c.Count("starts_that_did_not_ask_for_an_epoch", 1)
			}
		}
	}
	// absorb new invocation events, judging each
	absorb := func() {
		evs := env.Recorded()
		for _, ev := range evs[consumed:] {
			switch ev.Kind {
			case "attest":
				attested[ev.Slot]++
				if attested[ev.Slot] > 1 {
					fail("slot-attested-twice", fmt.Sprintf("Attest ran twice for slot %d", ev.Slot))
				}
				want := tuplesAt(env.Duties.Attester[ev.Slot/spe], ev.Slot, ev.Slot/spe, spe)
				if strings.Join(want, "") != strings.Join(ev.Tuples, "") {
					fail("attest-wrong-validators", fmt.Sprintf("Attest for slot %d was handed %v, the duties for that slot are %v", ev.Slot, ev.Tuples, want))
				}
				c.Count("attest_invocations_checked", 1)
			case "propose":
				proposed[ev.Slot]++
				if proposed[ev.Slot] > 1 {
					fail("slot-proposed-twice", fmt.Sprintf("Propose ran twice for slot %d", ev.Slot))
				}
				ok := false
				for _, d := range env.Duties.Proposer[ev.Slot/spe] {
					if uint64(d.Slot) == ev.Slot && uint64(d.ValidatorIndex) == ev.Validators[0] && uint64(d.Slot)/spe == ev.Slot/spe {
						ok = true
					}
				}
				if !ok {
					fail("propose-without-duty", fmt.Sprintf("Propose ran for slot %d validator %d without such a duty", ev.Slot, ev.Validators[0]))
				}
				c.Count("propose_invocations_checked", 1)
			}
		}
		consumed = len(evs)
	}
	// the job table against the model
	checkJobs := func(stage string, restart int) {
		ok := env.Eventually(func() bool {
			return len(jobProblems(env, sc, spe, okFetch, okPFetch, opts.MaxProposalDelay, restart)) == 0
		})
		if !ok {
			for _, p := range jobProblems(env, sc, spe, okFetch, okPFetch, opts.MaxProposalDelay, restart) {
				fail(p[0]+":"+stage, p[1])
			}
		}
	}
	if !start(h.Start) {
		return
	}
	noteFetches()
	afterStart(h.Start)
	absorb()
	checkJobs("start", startMode)
	nSteps := 6 + r.Intn(10)
	lastEventEpoch := uint64(0)
	haveEvent := false
	prevRoot, curRoot := byte(1), byte(2)
	for k := 0; k < nSteps; k++ {
		cur := uint64(env.Clock.CurrentSlot())
		var st step
		switch x := r.Intn(12); {
		case x < 5:
			st = step{Op: "advance", Arg: 1 + uint64(r.Intn(int(spe)))}
		case x < 7:
			st = step{Op: "head-same"}
		case x == 7:
			st = step{Op: "reorg-previous"}
		case x == 8:
			st = step{Op: "reorg-current"}
		case x == 9:
			st = step{Op: "fail-next-fetch"}
		case x == 10 && r.Intn(3) == 0:
			st = step{Op: "reorg-during-attest"}
		case x == 10 && r.Intn(2) == 0:
			st = step{Op: "reorg-both"}
		case x == 11 && r.Intn(2) == 0:
			st = step{Op: []string{"tick-fetch-straddles-slot", "refresh-fetch-straddles-epoch", "epoch-tick-twice"}[r.Intn(3)]}
		case x == 10:
			st = step{Op: "restart"}
		default:
			st = step{Op: "stale-event", Arg: cur - 1}
		}
		h.Steps = append(h.Steps, st)
		classes[st.Op] = true
		switch st.Op {
		case "advance":
			env.Duties.FailAttester, env.Duties.FailProposer = failing, failing
			env.StepTo(cur + st.Arg)
			noteFetches()
			failing = false
			env.Duties.FailAttester, env.Duties.FailProposer = false, false
		case "fail-next-fetch":
			failing = true
		case "stale-event":
			env.HeadEvent(st.Arg, 77, 78) // not for the clock's slot: ignored
		case "tick-fetch-straddles-slot":
			// the epoch ticker runs late in the first slot of the next epoch, and the clock moves on to the second slot
			// while the proposer duties are being fetched: the first slot's proposal is lost, not run late
			s0 := (cur/spe + 1) * spe
			env.StepTo(s0 - 1)
			noteFetches()
			absorb()
			env.Clock.SetSlot(phase0.Slot(s0))
			env.Duties.Proposer[s0/spe] = append(env.Duties.Proposer[s0/spe], &apiv1.ProposerDuty{Slot: phase0.Slot(s0), ValidatorIndex: phase0.ValidatorIndex(vals[2])})
			pendingBefore := env.PendingOneOff()
			var once sync.Once
			env.Duties.SetOnProposerFetch(func(e uint64) {
				if e == s0/spe {
					once.Do(func() { env.Clock.SetSlot(phase0.Slot(s0 + 1)) })
				}
			})
			env.Sched.RunSync("Epoch ticker")
			env.Settle()
			env.Duties.SetOnProposerFetch(nil)
			noteFetches()
			for name := range env.PendingOneOff() {
				var ps uint64
				if _, was := pendingBefore[name]; !was && (scan(name, "Beacon block proposal for slot %d", &ps) || scan(name, "Early beacon block proposal for slot %d", &ps)) && ps <= s0 {
					fail("job-for-past-slot:tick-fetch-straddles-slot", fmt.Sprintf("the proposer duties of epoch %d arrived in slot %d; job %q was set up for slot %d, which is over", s0/spe, s0+1, name, ps))
				}
			}
			// the jobs of the first slot that were set up before (attestations) ran in it; run them now
			env.Clock.SetSlot(phase0.Slot(s0))
			for name := range pendingBefore {
				var as uint64
				if scan(name, "Attestations for slot %d", &as) && as == s0 {
					env.Sched.RunSync(name)
					env.Settle()
				}
			}
			env.Sched.CancelJobIfExists(context.Background(), fmt.Sprintf("Beacon block proposal for slot %d", s0))
			env.Sched.CancelJobIfExists(context.Background(), fmt.Sprintf("Early beacon block proposal for slot %d", s0))
			env.Clock.SetSlot(phase0.Slot(s0 + 1))
			c.Count("epoch_ticks_with_fetch_across_slot_boundary", 1)
		case "refresh-fetch-straddles-epoch":
			// in the last slot of an epoch the previous dependent root changes; the refreshed duties of the epoch arrive
			// when the clock is in the next epoch: every one of them is for a slot that is over
			epoch := cur / spe
			last := (epoch+1)*spe - 1
			env.StepTo(last)
			noteFetches()
			absorb()
			if !haveEvent || lastEventEpoch != epoch {
				if haveEvent {
					prevRoot, curRoot = curRoot, curRoot+1
				}
				env.HeadEvent(last, prevRoot, curRoot) // records the roots
				haveEvent, lastEventEpoch = true, epoch
				noteFetches()
			}
			prevRoot += 100
			sc.gen[epoch]++
			sc.install(env.Duties, epoch, epoch)
			var once sync.Once
			env.Duties.SetOnAttesterFetch(func(e uint64) {
				if e == epoch {
					once.Do(func() { env.Clock.SetSlot(phase0.Slot(last + 1)) })
				}
			})
			env.HeadEvent(last, prevRoot, curRoot)
			env.Duties.SetOnAttesterFetch(nil)
			noteFetches()
			if uint64(env.Clock.CurrentSlot()) == last+1 {
				c.Count("refreshes_answered_in_the_next_epoch", 1)
			} else {
				env.Clock.SetSlot(phase0.Slot(last + 1))
			}
			absorb()
			checkJobs(st.Op, 0)
			env.Sched.RunSync("Epoch ticker")
			env.Settle()
			noteFetches()
			env.RunDueJobs(env.Clock.StartOfSlot(phase0.Slot(last + 2)))
		case "epoch-tick-twice":
			// the epoch ticker fires a second time in the first slot of an epoch (a timer that fired a moment early is
			// re-armed for the same instant), after the slot's proposal has been made
			s0 := (cur/spe + 1) * spe
			env.StepTo(s0 - 1)
			noteFetches()
			absorb()
			env.Duties.Proposer[s0/spe] = append(env.Duties.Proposer[s0/spe], &apiv1.ProposerDuty{Slot: phase0.Slot(s0), ValidatorIndex: phase0.ValidatorIndex(vals[2])})
			env.StepTo(s0)
			noteFetches()
			absorb()
			env.Sched.RunSync("Epoch ticker")
			env.Settle()
			noteFetches()
			env.RunDueJobs(env.Clock.StartOfSlot(phase0.Slot(s0 + 1)))
			c.Count("second_epoch_ticks", 1)
		case "head-same", "reorg-previous", "reorg-current", "reorg-both":
			epoch := cur / spe
			newEpoch := haveEvent && epoch > lastEventEpoch
			if newEpoch {
				// first event of a new epoch: its previous root is the last event's current root unless the chain reorged
				prevRoot, curRoot = curRoot, curRoot+1
			}
			switch st.Op {
			case "reorg-previous":
				if haveEvent && epoch >= 2 {
					prevRoot += 100
					sc.gen[epoch]++ // the attester duties of the current epoch change
					sc.install(env.Duties, epoch, epoch)
				}
			case "reorg-both":
				if haveEvent && epoch >= 2 && !newEpoch {
					// a deep reorg: both dependent roots change in one event
					prevRoot += 100
					curRoot += 100
					sc.gen[epoch]++
					sc.pgen[epoch]++
					sc.gen[epoch+1]++
					sc.install(env.Duties, epoch, epoch+1)
					c.Count("reorgs_of_both_roots", 1)
				}
			case "reorg-current":
				if haveEvent && epoch >= 2 && !newEpoch {
					curRoot += 100
					sc.pgen[epoch]++ // proposer duties of this epoch and attester duties of the next change
					sc.gen[epoch+1]++
					sc.install(env.Duties, epoch, epoch+1)
					// (the attester duties of the current epoch stay as they are)
					sc.gen[epoch]--
					sc.gen[epoch]++
				}
			}
			env.HeadEvent(cur, prevRoot, curRoot)
			haveEvent, lastEventEpoch = true, epoch
			noteFetches()
		case "reorg-during-attest":
			// an attestation job is started and, while Attest is in flight, a head event with a changed previous
			// dependent root arrives; the slot must not be attested a second time
			epoch := cur / spe
			var slot uint64
			for name := range env.PendingOneOff() {
				var s uint64
				if scan(name, "Attestations for slot %d", &s) && s/spe == epoch && (slot == 0 || s < slot) {
					slot = s
				}
			}
			if slot == 0 || epoch < 2 {
				break
			}
			env.StepTo(slot - 1)
			if _, still := env.PendingOneOff()[fmt.Sprintf("Attestations for slot %d", slot)]; !still {
				break
			}
			env.Clock.SetSlot(phase0.Slot(slot))
			if slot%spe == 0 {
				env.Sched.RunSync("Epoch ticker")
				env.Settle()
			}
			if !haveEvent || lastEventEpoch != epoch {
				if haveEvent {
					prevRoot, curRoot = curRoot, curRoot+1
				}
				env.HeadEvent(slot, prevRoot, curRoot) // records the roots
				haveEvent, lastEventEpoch = true, epoch
			}
			gate := make(chan struct{})
			env.SetAttestGate(gate)
			_ = env.Sched.RunJob(context.Background(), fmt.Sprintf("Attestations for slot %d", slot))
			env.SettleBusy()
			prevRoot += 100
			sc.gen[epoch]++
			sc.install(env.Duties, epoch, epoch)
			// the slot that is being attested keeps a duty in the new assignment (that is what tempts a second run)
			env.Duties.Attester[epoch] = append(env.Duties.Attester[epoch], &apiv1.AttesterDuty{Slot: phase0.Slot(slot), ValidatorIndex: phase0.ValidatorIndex(vals[0]), CommitteeIndex: 1, CommitteeLength: 64, CommitteesAtSlot: 3, ValidatorCommitteeIndex: 3})
			ev := &apiv1.HeadEvent{Slot: phase0.Slot(slot)}
			ev.Block[0], ev.PreviousDutyDependentRoot[0], ev.CurrentDutyDependentRoot[0] = byte(slot), prevRoot, curRoot
			env.Bus.Emit("head", ev)
			env.SettleBusy()
			env.SetAttestGate(nil)
			close(gate)
			env.Sched.Wait()
			env.Settle()
			env.RunDueJobs(env.Clock.StartOfSlot(phase0.Slot(slot + 1)))
			noteFetches()
			c.Count("reorgs_during_attestation", 1)
			// the in-flight run was handed the assignment of before the reorg: judge only the count for it
			evs := env.Recorded()
			for _, e2 := range evs[consumed:] {
				if e2.Kind == "attest" {
					attested[e2.Slot]++
					if attested[e2.Slot] > 1 {
						fail("slot-attested-twice:reorg-during-attestation", fmt.Sprintf("Attest ran twice for slot %d (head event with changed dependent root while the first run was in flight)", e2.Slot))
					}
				}
			}
			consumed = len(evs)
		case "restart":
			// the old instance is dropped; whether it had run the current slot's jobs is part of the history already
			absorb()
			if !start(cur) {
				return
			}
			okFetch, okPFetch = map[uint64]bool{}, map[uint64]bool{}
			haveEvent = false
			noteFetches()
			afterStart(cur)
			absorb()
			checkJobs("restart", startMode)
			continue
		}
		absorb()
		checkJobs(st.Op, 0)
	}
	ks := make([]string, 0, len(classes))
	for k := range classes {
		ks = append(ks, k)
	}
	sort.Strings(ks)
	if len(ks) >= 3 {
		c.Distinct(fmt.Sprintf("%d|%v|%s|%d", spe, h.PropDelay, strings.Join(ks, ","), h.Start%spe))
	}
	c.Sample(h)
}

// syncWindow: sync committee message jobs exist for every slot of the window, for the members of that window's
// committee, whenever the controller is started (also in the period of a fork epoch that is not on a period boundary).
func syncWindow(c *harness.Ctx, id string, r *rand.Rand) {
	const spe, period = 4, 8
	vals := []uint64{11, 12, 13}
	startEpoch := uint64(r.Intn(2 * period))
	if r.Intn(3) == 0 {
		startEpoch = uint64(period - 5 + r.Intn(2)*period) // the epoch in which the next period is prepared
	}
	fork := uint64(0)
	if r.Intn(3) == 0 {
		fork = uint64(period + 1 + r.Intn(period-2)) // inside period 1, not on its boundary
		startEpoch = fork + uint64(r.Intn(int(2*period-fork)))
	}
	start := startEpoch*spe + uint64(r.Intn(spe))
	env, err := ctlsim.New(ctlsim.Options{SlotsPerEpoch: spe, EpochsPerPeriod: period, AltairForkEpoch: fork, StartSlot: start, Validators: vals})
	if err != nil {
		c.Inconclusive(err.Error())
		return
	}
	// a different one of our validators sits in each period's committee
	member := func(p uint64) uint64 { return vals[p%3] }
	for p := uint64(0); p < 6; p++ {
		env.Duties.Sync[p] = []*apiv1.SyncCommitteeDuty{{ValidatorIndex: phase0.ValidatorIndex(member(p)), ValidatorSyncCommitteeIndices: []phase0.CommitteeIndex{3}}}
	}
	if err := env.Start(); err != nil {
		c.Inconclusive("controller.New: " + err.Error())
		return
	}
	end := start + period*spe + 2*spe
	env.StepTo(end)
	got := map[uint64]int{}
	detail := map[string]any{"start_slot": start, "start_epoch": startEpoch, "epochs_per_period": period, "altair_fork_epoch": fork}
	for _, ev := range env.Recorded() {
		if ev.Kind == "sync-message" {
			got[ev.Slot]++
			// a message made in slot s is for the committee of slot s+1
			if want := member((ev.Slot + 1) / spe / period); len(ev.Validators) != 1 || ev.Validators[0] != want {
				key := "sync-message-for-another-period's-committee"
				if fork > 0 {
					key += ":fork-epoch-inside-a-period"
				}
				c.Violate(key, fmt.Sprintf("started in slot %d: the sync committee message job of slot %d ran for validators %v; the committee of slot %d (period %d) has our validator %d", start, ev.Slot, ev.Validators, ev.Slot+1, (ev.Slot+1)/spe/period, want), id, detail)
				return
			}
		}
	}
	for s := start + 1; s < end; s++ {
		if (s+1)/spe < fork {
			continue // before the fork there are no sync committees
		}
		if got[s] == 0 {
			key := "sync-message-job-missing"
			if (s+1)/spe/period > startEpoch/period {
				key += ":next-period"
			}
			c.Violate(key, fmt.Sprintf("started in slot %d (epoch %d): no sync committee message run for slot %d", start, startEpoch, s), id, detail)
			break
		}
		if got[s] > 1 {
			c.Violate("sync-message-twice", fmt.Sprintf("sync committee messages ran %d times for slot %d", got[s], s), id, detail)
		}
	}
	c.Count("sync_window_slots_checked", int64(end-start-1))
	c.Distinct(fmt.Sprintf("syncwindow|epoch-in-period:%d|slot:%d|fork:%v", startEpoch%period, start%spe, fork > 0))
}

func jobNames(env *ctlsim.Env) []string {
	var out []string
	for n, at := range env.PendingOneOff() {
		out = append(out, fmt.Sprintf("%s@+%v", n, at.Sub(env.Now())))
	}
	sort.Strings(out)
	return out
}

// jobProblems compares the pending one-off jobs with the model.
func jobProblems(env *ctlsim.Env, sc *script, spe uint64, okFetch, okPFetch map[uint64]bool, propDelay time.Duration, restart int) [][2]string {
	var out [][2]string
	now := uint64(env.Clock.CurrentSlot())
	jobs := env.PendingOneOff()
	// expected attestation jobs
	for e, ok := range okFetch {
		if !ok {
			continue
		}
		slots := map[uint64]bool{}
		for _, d := range env.Duties.Attester[e] {
			if uint64(d.Slot)/spe == e {
				slots[uint64(d.Slot)] = true
			}
		}
		for s := range slots {
			name := fmt.Sprintf("Attestations for slot %d", s)
			at, exists := jobs[name]
			if s > now && !exists {
				out = append(out, [2]string{"attestation-job-missing", fmt.Sprintf("no job for the attester duties at future slot %d (clock slot %d)", s, now)})
			}
			if exists && !at.Equal(env.Clock.StartOfSlot(phase0.Slot(s)).Add(ctlsim.AttDelay)) {
				out = append(out, [2]string{"attestation-job-time-wrong", fmt.Sprintf("job for slot %d is timed %v after the slot start, want %v", s, at.Sub(env.Clock.StartOfSlot(phase0.Slot(s))), ctlsim.AttDelay)})
			}
		}
	}
	for e, ok := range okPFetch {
		if !ok {
			continue
		}
		for _, d := range env.Duties.Proposer[e] {
			s := uint64(d.Slot)
			if s/spe != e {
				continue
			}
			name := fmt.Sprintf("Beacon block proposal for slot %d", s)
			at, exists := jobs[name]
			if s > now && !exists {
				out = append(out, [2]string{"proposal-job-missing", fmt.Sprintf("no job for the proposer duty at future slot %d (clock slot %d)", s, now)})
			}
			if exists && !at.Equal(env.Clock.StartOfSlot(phase0.Slot(s)).Add(propDelay)) {
				out = append(out, [2]string{"proposal-job-time-wrong", fmt.Sprintf("proposal job for slot %d timed %v after the slot start, want %v", s, at.Sub(env.Clock.StartOfSlot(phase0.Slot(s))), propDelay)})
			}
			if propDelay > 0 && s > now {
				if eat, ok := jobs[fmt.Sprintf("Early beacon block proposal for slot %d", s)]; !ok || !eat.Equal(env.Clock.StartOfSlot(phase0.Slot(s))) {
					out = append(out, [2]string{"early-proposal-job-wrong", fmt.Sprintf("early proposal job for slot %d missing or not at the slot start", s)})
				}
			}
		}
	}
	// every pending duty job is for a duty the node currently reports, not in the past, and (at a restart) strictly later
	for name := range jobs {
		var s uint64
		switch {
		case scan(name, "Attestations for slot %d", &s):
			has := false
			for _, d := range env.Duties.Attester[s/spe] {
				if uint64(d.Slot) == s {
					has = true
				}
			}
			if !has {
				out = append(out, [2]string{"attestation-job-without-duty", fmt.Sprintf("job %q exists but the node reports no attester duty at that slot (stale after reorg, or out-of-epoch duty)", name)})
			}
		case scan(name, "Beacon block proposal for slot %d", &s), scan(name, "Early beacon block proposal for slot %d", &s):
			has := false
			for _, d := range env.Duties.Proposer[s/spe] {
				if uint64(d.Slot) == s {
					has = true
				}
			}
			if !has {
				out = append(out, [2]string{"proposal-job-without-duty", fmt.Sprintf("job %q exists but the node reports no proposer duty at that slot", name)})
			}
		default:
			continue
		}
		if s < now {
			out = append(out, [2]string{"job-for-past-slot", fmt.Sprintf("job %q is for a slot before the clock slot %d", name, now)})
		}
		// (when the clock moved on while the proposer duties were being fetched, an attestation job may have been set up
		// for what was then a future slot; a proposal job is set up only after that fetch)
		if (restart == 1 || (restart == 2 && !strings.HasPrefix(name, "Attestations"))) && s == now {
			out = append(out, [2]string{"job-for-current-slot-at-start", fmt.Sprintf("job %q was set up at (re)start for the slot already running", name)})
		}
	}
	return out
}

func scan(s, format string, v *uint64) bool {
	n, err := fmt.Sscanf(s, format, v)
	return err == nil && n == 1 && fmt.Sprintf(format, *v) == s
}

// ---- chain time conversion laws (real chaintime/standard) ----

func chainTimeLaws(c *harness.Ctx) {
	n := c.N(400, 20000)
	for i := 0; i < n; i++ {
		id := fmt.Sprintf("chaintime%d", i)
		c.Case(id, func() {
			r := c.Rand("chaintime", i)
			slotSeconds := uint64(1 + r.Intn(60))
			spe := uint64(1 + r.Intn(64))
			offset := time.Duration(r.Int63n(int64(400*24*time.Hour))) - 24*time.Hour
			if r.Intn(6) == 0 {
				offset = -time.Duration(r.Int63n(int64(time.Hour))) // genesis in the future
			}
			genesis := time.Now().Add(-offset).Truncate(time.Second)
			s, err := chaintime.New(context.Background(), chaintime.WithLogLevel(zerolog.Disabled), chaintime.WithGenesisProvider(mock.NewGenesisProvider(genesis)),
				chaintime.WithSpecProvider(specProv{slotSeconds, spe}))
			if err != nil {
				c.Inconclusive("chaintime.New: " + err.Error())
				return
			}
			detail := map[string]any{"seconds_per_slot": slotSeconds, "slots_per_epoch": spe, "genesis_offset": offset.String()}
			bad := func(key, what string) { c.Violate("chaintime:"+key, what, id, detail) }
			sd := time.Duration(slotSeconds) * time.Second
			for k := 0; k < 40; k++ {
				slot := uint64(r.Int63n(1 << uint(10+r.Intn(22))))
				epoch := slot / spe
				if got := uint64(s.SlotToEpoch(phase0.Slot(slot))); got != epoch {
					bad("slot-to-epoch", fmt.Sprintf("SlotToEpoch(%d)=%d want %d", slot, got, epoch))
				}
				if got := uint64(s.FirstSlotOfEpoch(phase0.Epoch(epoch))); got != epoch*spe {
					bad("first-slot-of-epoch", fmt.Sprintf("FirstSlotOfEpoch(%d)=%d want %d", epoch, got, epoch*spe))
				}
				if !s.StartOfSlot(phase0.Slot(slot)).Equal(genesis.Add(time.Duration(slot) * sd)) {
					bad("start-of-slot", fmt.Sprintf("StartOfSlot(%d) is not genesis + slot*duration", slot))
				}
				if !s.StartOfEpoch(phase0.Epoch(epoch)).Equal(s.StartOfSlot(s.FirstSlotOfEpoch(phase0.Epoch(epoch)))) {
					bad("start-of-epoch", fmt.Sprintf("StartOfEpoch(%d) != StartOfSlot(FirstSlotOfEpoch(%d))", epoch, epoch))
				}
				// both edges of the epoch
				if uint64(s.SlotToEpoch(phase0.Slot(epoch*spe))) != epoch || uint64(s.SlotToEpoch(phase0.Slot(epoch*spe+spe-1))) != epoch || uint64(s.SlotToEpoch(phase0.Slot((epoch+1)*spe))) != epoch+1 {
					bad("epoch-edges", fmt.Sprintf("SlotToEpoch disagrees at the edges of epoch %d", epoch))
				}
				if d := s.StartOfSlot(phase0.Slot(slot + 1)).Sub(s.StartOfSlot(phase0.Slot(slot))); d != sd {
					bad("slot-difference", fmt.Sprintf("consecutive slot starts differ by %v want %v", d, sd))
				}
				c.Eval(1)
			}
			// current slot/epoch bracketed by two clock reads
			t0 := time.Now()
			cs, ce := s.CurrentSlot(), s.CurrentEpoch()
			t1 := time.Now()
			lo, hi := uint64(0), uint64(0)
			if t0.After(genesis) {
				lo = uint64(t0.Sub(genesis) / sd)
			}
			if t1.After(genesis) {
				hi = uint64(t1.Sub(genesis) / sd)
			}
			if uint64(cs) < lo || uint64(cs) > hi {
				bad("current-slot", fmt.Sprintf("CurrentSlot()=%d outside [%d,%d]", cs, lo, hi))
			}
			if uint64(ce) < lo/spe || uint64(ce) > hi/spe {
				bad("current-epoch", fmt.Sprintf("CurrentEpoch()=%d outside [%d,%d]", ce, lo/spe, hi/spe))
			}
			c.Distinct(fmt.Sprintf("ct|%d|%d|%v", slotSeconds, spe, offset < 0))
		})
	}
}

// chainTimeEdges reads the clock at chosen positions inside a slot: the verdict of the bracket test above must not
// depend on the fraction of a second at which the check happens to run. For each target fraction of a second it waits
// (at most a second) for the wall clock to be there and then constructs services whose genesis (whole seconds, as the
// beacon API delivers it) puts "now" in the last, the first or a middle second of a slot.
func chainTimeEdges(c *harness.Ctx) {
	for fi, frac := range []time.Duration{30 * time.Millisecond, 430 * time.Millisecond, 530 * time.Millisecond, 930 * time.Millisecond} {
		for k := 0; k < 3; k++ {
			id := fmt.Sprintf("chaintime-edge%d.%d", fi, k)
			c.Case(id, func() {
				r := c.Rand("chaintime-edge", fi, k)
				now := time.Now()
				wait := frac - time.Duration(now.Nanosecond())
				if wait < 0 {
					wait += time.Second
				}
				time.Sleep(wait)
				for j := 0; j < 12; j++ {
					slotSeconds := uint64(1 + r.Intn(24))
					spe := uint64(1 + r.Intn(32))
					slots := uint64(r.Intn(200000))
					if j%4 == 3 {
						slots = slots/spe*spe + spe - 1 // the last slot of an epoch
					}
					var within uint64 // whole seconds into the slot
					switch j % 3 {
					case 0:
						within = slotSeconds - 1
					case 1:
						within = 0
					default:
						within = uint64(r.Intn(int(slotSeconds)))
					}
					genesis := time.Now().Truncate(time.Second).Add(-time.Duration(slots*slotSeconds+within) * time.Second)
					s, err := chaintime.New(context.Background(), chaintime.WithLogLevel(zerolog.Disabled), chaintime.WithGenesisProvider(mock.NewGenesisProvider(genesis)),
						chaintime.WithSpecProvider(specProv{slotSeconds, spe}))
					if err != nil {
						c.Inconclusive("chaintime.New: " + err.Error())
						return
					}
					sd := time.Duration(slotSeconds) * time.Second
					t0 := time.Now()
					cs, ce := s.CurrentSlot(), s.CurrentEpoch()
					t1 := time.Now()
					lo, hi := uint64(t0.Sub(genesis)/sd), uint64(t1.Sub(genesis)/sd)
					detail := map[string]any{"seconds_per_slot": slotSeconds, "slots_per_epoch": spe, "whole_seconds_into_slot": within, "fraction_of_second": time.Duration(t0.Nanosecond()).String()}
					if uint64(cs) < lo || uint64(cs) > hi {
						c.Violate("chaintime:current-slot", fmt.Sprintf("CurrentSlot()=%d outside [%d,%d]", cs, lo, hi), id, detail)
					}
					if uint64(ce) < lo/spe || uint64(ce) > hi/spe {
						c.Violate("chaintime:current-epoch", fmt.Sprintf("CurrentEpoch()=%d outside [%d,%d]", ce, lo/spe, hi/spe), id, detail)
					}
					c.Eval(1)
					c.Count("chaintime_edge_reads", 1)
					c.Distinct(fmt.Sprintf("cte|%d|%d", fi, j%3))
				}
			})
		}
	}
}

type specProv struct{ sec, spe uint64 }

func (p specProv) Spec(context.Context, *api.SpecOpts) (*api.Response[map[string]any], error) {
	return &api.Response[map[string]any]{Data: map[string]any{"SECONDS_PER_SLOT": time.Duration(p.sec) * time.Second, "SLOTS_PER_EPOCH": p.spe}, Metadata: map[string]any{}}, nil
}

func run(c *harness.Ctx) {
	harness.InitBLS()
	chainTimeLaws(c)
	chainTimeEdges(c)
	n := c.N(240, 10000)
	var wg sync.WaitGroup
	sem := make(chan struct{}, 24)
	for i := 0; i < n; i++ {
		id := fmt.Sprintf("hist%d", i)
		c.Case(id, func() {
			wg.Add(1)
			sem <- struct{}{}
			go func() {
				defer wg.Done()
				defer func() { <-sem }()
				runHistory(c, id, c.Rand("hist", i))
			}()
		})
	}
	ns := c.N(60, 3000)
	for i := 0; i < ns; i++ {
		id := fmt.Sprintf("sync%d", i)
		c.Case(id, func() {
			wg.Add(1)
			sem <- struct{}{}
			go func() {
				defer wg.Done()
				defer func() { <-sem }()
				syncWindow(c, id, c.Rand("sync", i))
			}()
		})
	}
	wg.Wait()
}

func main() {
	harness.Main(&harness.Spec{
		Property:     "C03",
		Level:        "exploration",
		Rule:         "controller histories in virtual time: start anywhere in an epoch (slots per epoch 4 or 8, proposal delay 0 or 2 s), then 6-15 steps of {advance 1..n slots running every due job and the epoch ticker, head event with unchanged roots, head event with changed previous / current dependent root (the scripted node's duties for the affected epochs change), duty fetch failure, restart of the controller at the current slot, stale head event}; duty scripts contain several validators per slot and decoy duties outside the requested epoch. After every step the captured job table and the recorded Attest/Propose invocations are compared with refduty. Plus 40 conversion-law checks on each of 400 random chain parameter sets. distinct = (slots per epoch, delay, set of step kinds, start offset); non-trivial = >=3 step kinds",
		Batches:      func(string) int { return 2 },
		Parallel:     2,
		Run:          run,
		MinDistinct:  30,
		ChildTimeout: func(string) time.Duration { return 40 * time.Minute },
		Assumptions:  []string{"a duty in the clock's own slot may or may not have a job except at (re)start, where it must not", "reorgs are generated for epochs >= 2 and for events of the clock's slot only (others are delivered and must be harmless)", "job-missing verdicts are only drawn after the mismatch persisted for 8 s (normal settling: milliseconds)", "sync-committee scheduling is judged under C15"},
	})
}
