// C13: only configured accounts validate, and only while their validator is active.
// Monitor: the real dirk and wallet account managers (wallets injected through verif hooks, no gRPC / keystores)
// over the real validators manager with a scripted beacon node, judged against refacct (DESIGN.md A.4):
// admission by full match of a specifier, state-at-epoch filter, index keying, retain-on-empty refresh.
package main

import (
	"context"
	"errors"
	"fmt"
	"math/rand"
	"os"
	"regexp"
	"sort"
	"strings"
	"sync"

	eth2client "github.com/attestantio/go-eth2-client"
	"github.com/attestantio/go-eth2-client/api"
	apiv1 "github.com/attestantio/go-eth2-client/api/v1"
	"github.com/attestantio/go-eth2-client/spec/phase0"
	"github.com/attestantio/vouch/mock"
	"github.com/attestantio/vouch/services/accountmanager"
	"github.com/attestantio/vouch/services/accountmanager/dirk"
	"github.com/attestantio/vouch/services/accountmanager/wallet"
	nullmetrics "github.com/attestantio/vouch/services/metrics/null"
	vmstd "github.com/attestantio/vouch/services/validatorsmanager/standard"
	"github.com/attestantio/vouch/testing/resources"
	"github.com/rs/zerolog"
	e2wtypes "github.com/wealdtech/go-eth2-wallet-types/v2"
	"verif/harness"
)

const farFuture = phase0.Epoch(0xffffffffffffffff)

// beacon is the scripted validators provider.
type beacon struct {
	mu      sync.Mutex
	records map[phase0.BLSPubKey]*apiv1.Validator
	mode    string // ok | empty | error
}

func (b *beacon) Validators(_ context.Context, opts *api.ValidatorsOpts) (*api.Response[map[phase0.ValidatorIndex]*apiv1.Validator], error) {
	b.mu.Lock()
	defer b.mu.Unlock()
	switch b.mode {
	case "error":
		return nil, errors.New("scripted validators failure")
	case "empty":
		return &api.Response[map[phase0.ValidatorIndex]*apiv1.Validator]{Data: map[phase0.ValidatorIndex]*apiv1.Validator{}, Metadata: map[string]any{}}, nil
	}
	out := map[phase0.ValidatorIndex]*apiv1.Validator{}
	for _, pk := range opts.PubKeys {
		if v, ok := b.records[pk]; ok {
			out[v.Index] = v
		}
	}
	return &api.Response[map[phase0.ValidatorIndex]*apiv1.Validator]{Data: out, Metadata: map[string]any{}}, nil
}

type manager interface {
	accountmanager.ValidatingAccountsProvider
	accountmanager.AccountsProvider
}

type env struct {
	kind    string // dirk | wallet
	mgr     manager
	dirk    *dirk.Service
	wallet  *wallet.Service
	beacon  *beacon
	clock   *harness.VClock
	wallets map[string]*harness.FWallet
}

var tmpDir string

func newEnv(kind string, specs []string, wallets map[string]*harness.FWallet) (*env, error) {
	ctx := context.Background()
	e := &env{kind: kind, beacon: &beacon{records: map[phase0.BLSPubKey]*apiv1.Validator{}, mode: "ok"}, clock: harness.NewVClock(12e9, 32), wallets: wallets}
	vm, err := vmstd.New(ctx, vmstd.WithLogLevel(zerolog.Disabled), vmstd.WithMonitor(nullmetrics.New()), vmstd.WithClientMonitor(nullmetrics.New()),
		vmstd.WithValidatorsProvider(e.beacon), vmstd.WithFarFutureEpoch(farFuture))
	if err != nil {
		return nil, err
	}
	switch kind {
	case "dirk":
		s, err := dirk.New(ctx, dirk.WithLogLevel(zerolog.Disabled), dirk.WithMonitor(nullmetrics.New()), dirk.WithClientMonitor(nullmetrics.New()), dirk.WithProcessConcurrency(2),
			dirk.WithEndpoints([]string{"localhost:1"}), dirk.WithAccountPaths(specs),
			dirk.WithClientCert([]byte(resources.ClientTest01Crt)), dirk.WithClientKey([]byte(resources.ClientTest01Key)), dirk.WithCACert([]byte(resources.CACrt)),
			dirk.WithValidatorsManager(vm), dirk.WithDomainProvider(harness.RecDomains{}), dirk.WithFarFutureEpochProvider(mock.NewFarFutureEpochProvider(farFuture)),
			dirk.WithCurrentEpochProvider(e.clock))
		if err != nil {
			return nil, err
		}
		e.dirk, e.mgr = s, s
	default:
		s, err := wallet.New(ctx, wallet.WithLogLevel(zerolog.Disabled), wallet.WithMonitor(nullmetrics.New()), wallet.WithProcessConcurrency(2),
			wallet.WithLocations([]string{tmpDir}), wallet.WithAccountPaths(specs), wallet.WithPassphrases([][]byte{[]byte("pass")}),
			wallet.WithValidatorsManager(vm), wallet.WithSpecProvider(harness.NewSpec(32, nil)), wallet.WithFarFutureEpochProvider(mock.NewFarFutureEpochProvider(farFuture)),
			wallet.WithDomainProvider(harness.RecDomains{}), wallet.WithCurrentEpochProvider(e.clock))
		if err != nil {
			return nil, err
		}
		e.wallet, e.mgr = s, s
	}
	return e, nil
}

// refresh makes the manager refresh its accounts from the wallets named (literally) in the specifiers.
func (e *env) refresh(specs []string) {
	ctx := context.Background()
	switch e.kind {
	case "dirk":
		for _, sp := range specs {
			name := strings.Split(sp, "/")[0]
			if w, ok := e.wallets[name]; ok {
				e.dirk.VerifSetWallet(name, w)
			} else {
				e.dirk.VerifSetWallet(name, harness.NewFWallet(name, nil))
			}
		}
		e.dirk.Refresh(ctx)
	default:
		var ws []e2wtypes.Wallet
		seen := map[string]bool{}
		for _, sp := range specs {
			name := strings.Split(sp, "/")[0]
			if w, ok := e.wallets[name]; ok && !seen[name] {
				seen[name] = true
				ws = append(ws, w)
			}
		}
		e.wallet.VerifRefreshFromWallets(ctx, ws)
	}
}

// ---- specifier admission ----

var walletNames = []string{"Wallet 1", "Wallet 2", "W", "XW", "My Wallet 1"} // two of them end with the name of another
var acctNames = []string{"a", "b", "aX", "Xb", "Validator 1", "Validator 12", "Validator 2", "XValidator 1", "Val", "ab", "ba"}
var acctExprs = []string{"a", "Validator 1", "Validator.*", "Validator [12]", "Validator.*[02468]", ".*", "(a|b)", "Validator (1|2)", "Val.*", "a.", "[ab]+", "a?b"}
var bareAlts = []string{"a|b", "Validator 1|Validator 2", "Val|b", "(a)|(b)", "(Validator 1)|(Validator 2)", "(Val)|b"}

type spec struct {
	Text    string
	Wallet  string
	Expr    string // "" = whole wallet
	Invalid bool   // not a usable specifier (invalid expression, anchored wallet part): admits nothing
	BareAlt bool
	Doc     bool // a documented form, for which the converse (matching accounts are offered) is asserted
}

func genSpec(r *rand.Rand) spec {
	w := walletNames[r.Intn(len(walletNames))]
	switch x := r.Intn(10); {
	case x < 2:
		return spec{Text: w, Wallet: w, Doc: true}
	case x == 2:
		return spec{Text: w + "/", Wallet: w} // trailing slash: not a documented form
	case x == 4 && r.Intn(2) == 0:
		e := []string{"a.***", "a[", "(ab", "Validator.*)"}[r.Intn(4)]
		return spec{Text: w + "/" + e, Wallet: w, Expr: e, Invalid: true}
	case x == 5 && r.Intn(3) == 0:
		// an anchored wallet part is read as the plain wallet name (but does not by itself make the signer open it)
		return spec{Text: "^" + w + "/" + "a", Wallet: w, Expr: "a"}
	case x == 3:
		e := bareAlts[r.Intn(len(bareAlts))]
		return spec{Text: w + "/" + e, Wallet: w, Expr: e, BareAlt: true}
	default:
		e := acctExprs[r.Intn(len(acctExprs))]
		txt := e
		switch r.Intn(4) {
		case 1:
			txt = "^" + e
		case 2:
			txt = e + "$"
		case 3:
			txt = "^" + e + "$"
		}
		return spec{Text: w + "/" + txt, Wallet: w, Expr: e, Doc: true}
	}
}

// allowed: the name fully matches the specifier (account part anchored as a whole, or - for a bare alternation -
// the whole specifier anchored as a whole; either reading is accepted).
func (s spec) allows(walletName, acct string) bool {
	if s.Invalid || walletName != s.Wallet {
		return false
	}
	if s.Expr == "" {
		return true
	}
	if regexp.MustCompile("^(?:" + s.Expr + ")$").MatchString(acct) {
		return true
	}
	if s.BareAlt && regexp.MustCompile("^(?:"+s.Wallet+"/"+s.Expr+")$").MatchString(walletName+"/"+acct) {
		return true
	}
	return false
}

// mustOffer: documented forms only.
func (s spec) mustOffer(walletName, acct string) bool {
	if !s.Doc || walletName != s.Wallet {
		return false
	}
	if s.Expr == "" {
		return true
	}
	return regexp.MustCompile("^(?:" + s.Expr + ")$").MatchString(acct)
}

func admission(c *harness.Ctx) {
	n := c.N(2500, 150000)
	keyNo := 0
	for i := 0; i < n; i++ {
		id := fmt.Sprintf("adm%d", i)
		c.Case(id, func() {
			r := c.Rand("adm", i)
			var specs []spec
			var texts []string
			for k := 0; k < 1+r.Intn(3); k++ {
				s := genSpec(r)
				specs = append(specs, s)
				texts = append(texts, s.Text)
			}
			// wallets with accounts incl. near misses
			type acc struct {
				wallet, name string
				a            harness.Acct
			}
			var all []acc
			wallets := map[string]*harness.FWallet{}
			for _, wn := range walletNames {
				var list []e2wtypes.Account
				for _, an := range acctNames {
					if r.Intn(2) == 0 {
						continue
					}
					keyNo = (keyNo + 1) % 400
					a := harness.NewAcct(harness.KindMulti, wn, an, 1000+keyNo, phase0.ValidatorIndex(keyNo), nil)
					all = append(all, acc{wn, an, a})
					list = append(list, a)
				}
				wallets[wn] = harness.NewFWallet(wn, list)
			}
			for _, kind := range []string{"dirk", "wallet"} {
				e, err := newEnv(kind, texts, wallets)
				if err != nil {
					c.Inconclusive(kind + " manager construction failed: " + err.Error())
					return
				}
				e.refresh(texts)
				hasBare := false
				for _, s := range specs {
					hasBare = hasBare || s.BareAlt
				}
				for _, x := range all {
					c.Eval(1)
					_, err := e.mgr.AccountByPublicKey(context.Background(), x.a.Pub48())
					admitted := err == nil
					allowed, must := false, false
					for _, s := range specs {
						allowed = allowed || s.allows(x.wallet, x.name)
						must = must || s.mustOffer(x.wallet, x.name)
					}
					detail := map[string]any{"manager": kind, "specifiers": texts, "account": x.wallet + "/" + x.name}
					if admitted && !allowed {
						key := "admitted-without-full-match:" + kind
						if hasBare {
							key = "admitted-without-full-match:bare-alternation:" + kind
						}
						c.Violate(key, fmt.Sprintf("%s manager uses account %q which fully matches none of %q", kind, x.wallet+"/"+x.name, texts), id, detail)
					}
					if !admitted && must {
						c.Violate("matching-account-not-offered:"+kind, fmt.Sprintf("%s manager ignores account %q although it matches one of %q", kind, x.wallet+"/"+x.name, texts), id, detail)
					}
					if allowed != must || admitted {
						c.Distinct(fmt.Sprintf("adm|%s|%s|%s|%v", kind, strings.Join(texts, ";"), x.name, admitted))
					}
				}
			}
			if i < 2 {
				var names []string
				for _, x := range all {
					names = append(names, x.wallet+"/"+x.name)
				}
				c.Sample(map[string]any{"specifiers": texts, "offered": names})
			}
		})
	}
}

// ---- life cycle ----

type rec struct {
	Index        uint64 `json:"index"`
	Activation   uint64 `json:"activation"`
	Exit         uint64 `json:"exit"`
	Withdrawable uint64 `json:"withdrawable"`
	Slashed      bool   `json:"slashed"`
	Balance      uint64 `json:"effective_balance"`
	Known        bool   `json:"known_to_beacon_node"`
}

const ff = ^uint64(0)

func genRec(r *rand.Rand, idx uint64) rec {
	x := rec{Index: idx, Known: r.Intn(8) != 0, Balance: 32e9}
	x.Activation = uint64(r.Intn(12))
	if r.Intn(6) == 0 {
		x.Activation = ff
	}
	x.Exit, x.Withdrawable = ff, ff
	if x.Activation != ff && r.Intn(2) == 0 {
		x.Exit = x.Activation + uint64(r.Intn(8))
		x.Withdrawable = x.Exit + uint64(r.Intn(6))
		x.Slashed = r.Intn(3) == 0
		if r.Intn(3) == 0 {
			x.Balance = 0
		}
	}
	return x
}

func (x rec) validating(e uint64) bool {
	return x.Known && x.Activation <= e && e < x.Exit && !x.Slashed
}
func (x rec) syncEligible(e uint64) bool {
	if !x.Known || x.Activation > e {
		return false
	}
	if e < x.Withdrawable {
		return true // active (slashed or not) or exited
	}
	return x.Balance > 0 // withdrawal possible; done => no
}

func lifecycle(c *harness.Ctx) {
	n := c.N(1500, 100000)
	for i := 0; i < n; i++ {
		id := fmt.Sprintf("life%d", i)
		c.Case(id, func() {
			r := c.Rand("life", i)
			kind := []string{"dirk", "wallet"}[i%2]
			nAcc := 2 + r.Intn(7)
			var accts []harness.Acct
			var list []e2wtypes.Account
			var recs []rec
			for k := 0; k < nAcc; k++ {
				ak := harness.KindMulti
				if kind == "dirk" && k%3 == 2 {
					ak = harness.KindDist
				}
				if kind == "wallet" {
					ak = harness.KindPlain
				}
				a := harness.NewAcct(ak, "W", fmt.Sprintf("v%d", k), 2000+(i*7+k)%300, 0, nil)
				accts = append(accts, a)
				list = append(list, a)
				recs = append(recs, genRec(r, uint64(50+r.Intn(1000))*16+uint64(k)))
			}
			wallets := map[string]*harness.FWallet{"W": harness.NewFWallet("W", list)}
			e, err := newEnv(kind, []string{"W"}, wallets)
			if err != nil {
				c.Inconclusive(err.Error())
				return
			}
			pub := func(a harness.Acct) phase0.BLSPubKey {
				var pk phase0.BLSPubKey
				if cp, ok := a.(e2wtypes.AccountCompositePublicKeyProvider); ok {
					copy(pk[:], cp.CompositePublicKey().Marshal())
				} else {
					pk = a.Pub48()
				}
				return pk
			}
			setRecords := func() {
				e.beacon.mu.Lock()
				e.beacon.records = map[phase0.BLSPubKey]*apiv1.Validator{}
				for k, x := range recs {
					if !x.Known {
						continue
					}
					e.beacon.records[pub(accts[k])] = &apiv1.Validator{Index: phase0.ValidatorIndex(x.Index), Balance: phase0.Gwei(x.Balance),
						Validator: &phase0.Validator{PublicKey: pub(accts[k]), EffectiveBalance: phase0.Gwei(x.Balance), Slashed: x.Slashed,
							ActivationEligibilityEpoch: 0, ActivationEpoch: phase0.Epoch(x.Activation), ExitEpoch: phase0.Epoch(x.Exit), WithdrawableEpoch: phase0.Epoch(x.Withdrawable)}}
				}
				e.beacon.mu.Unlock()
			}
			setRecords()
			e.refresh([]string{"W"})
			check := func(stage string, expectRecs []rec) {
				for _, ep := range []uint64{0, 1, 3, 5, 8, 11, 14, 20, 30} {
					ep += uint64(r.Intn(2))
					for _, sync := range []bool{false, true} {
						for _, byIndex := range []bool{false, true} {
							c.Eval(1)
							want := map[uint64]string{}
							var ask []phase0.ValidatorIndex
							asked := map[uint64]bool{}
							for k, x := range expectRecs {
								if byIndex {
									if r.Intn(3) == 0 {
										continue
									}
									ask = append(ask, phase0.ValidatorIndex(x.Index))
									asked[x.Index] = true
								}
								ok := x.validating(ep)
								if sync {
									ok = x.syncEligible(ep)
								}
								if ok {
									want[x.Index] = accts[k].Name()
								}
							}
							if byIndex {
								ask = append(ask, 999999) // an index that is not ours
								for idx := range want {
									if !asked[idx] {
										delete(want, idx)
									}
								}
							}
							var got map[phase0.ValidatorIndex]e2wtypes.Account
							var err error
							switch {
							case !sync && !byIndex:
								got, err = e.mgr.ValidatingAccountsForEpoch(context.Background(), phase0.Epoch(ep))
							case !sync && byIndex:
								got, err = e.mgr.ValidatingAccountsForEpochByIndex(context.Background(), phase0.Epoch(ep), ask)
							case sync && !byIndex:
								got, err = e.mgr.SyncCommitteeAccountsForEpoch(context.Background(), phase0.Epoch(ep))
							default:
								got, err = e.mgr.SyncCommitteeAccountsForEpochByIndex(context.Background(), phase0.Epoch(ep), ask)
							}
							what := fmt.Sprintf("%s sync=%v byIndex=%v", kind, sync, byIndex)
							detail := map[string]any{"manager": kind, "stage": stage, "epoch": ep, "sync_committee": sync, "by_index": byIndex, "records": expectRecs, "asked": fmt.Sprint(ask)}
							if err != nil {
								c.Violate("accounts-call-error", what+": "+err.Error(), id, detail)
								continue
							}
							gotNames := map[uint64]string{}
							for idx, a := range got {
								if a == nil {
									gotNames[uint64(idx)] = "<nil>"
								} else {
									gotNames[uint64(idx)] = a.Name()
								}
							}
							detail["got"] = fmt.Sprint(gotNames)
							detail["want"] = fmt.Sprint(want)
							for idx, nm := range gotNames {
								w, ok := want[idx]
								switch {
								case !ok:
									key := "inactive-account-reported"
									if sync {
										key = "ineligible-account-reported-for-sync-committee"
									}
									c.Violate(key+":"+stage, fmt.Sprintf("%s epoch %d: index %d (%s) reported but its validator is not in an eligible state", what, ep, idx, nm), id, detail)
								case w != nm:
									c.Violate("wrong-account-for-index:"+stage, fmt.Sprintf("%s epoch %d: index %d maps to %s, should be %s", what, ep, idx, nm, w), id, detail)
								}
							}
							for idx, nm := range want {
								if _, ok := gotNames[idx]; !ok {
									key := "active-account-missing"
									if sync {
										key = "eligible-account-missing-for-sync-committee"
									}
									c.Violate(key+":"+stage, fmt.Sprintf("%s epoch %d: index %d (%s) is eligible but was not reported", what, ep, idx, nm), id, detail)
								}
							}
							if len(want) > 0 && len(want) < len(expectRecs) {
								c.Distinct(fmt.Sprintf("life|%s|%v|%v|e%d|%d/%d|%s", kind, sync, byIndex, ep, len(want), len(expectRecs), stage))
							}
						}
					}
				}
			}
			check("fresh", recs)
			// refresh outcomes that must not wipe what is known
			old := append([]rec{}, recs...)
			outcome := []string{"validators-empty", "validators-error", "accounts-empty", "accounts-empty-while-records-change", "account-dropped-while-validators-error"}[r.Intn(5)]
			switch outcome {
			case "validators-empty":
				e.beacon.mu.Lock()
				e.beacon.mode = "empty"
				e.beacon.mu.Unlock()
				e.refresh([]string{"W"})
				check(outcome, old)
			case "validators-error":
				e.beacon.mu.Lock()
				e.beacon.mode = "error"
				e.beacon.mu.Unlock()
				e.refresh([]string{"W"})
				check(outcome, old)
			case "accounts-empty-while-records-change":
				// the signer is unreachable (the old account list is kept) while validators exit / activate on the chain:
				// the kept accounts are judged by what the beacon node says now
				if kind == "dirk" {
					for k := range recs {
						if r.Intn(2) == 0 {
							nr := genRec(r, recs[k].Index)
							nr.Known = recs[k].Known || nr.Known
							recs[k] = nr
						}
					}
					setRecords()
					wallets["W"].Accts = nil
					e.refresh([]string{"W"})
					check(outcome, recs)
					wallets["W"].Accts = list
				}
			case "account-dropped-while-validators-error":
				// the signer no longer lists one account (the rest are still there) and the beacon node cannot be asked:
				// the validator records of before are kept, and the account that is gone is not reported by any query
				drop := r.Intn(nAcc)
				var kept []e2wtypes.Account
				for k, a := range list {
					if k != drop {
						kept = append(kept, a)
					}
				}
				wallets["W"].Accts = kept
				e.beacon.mu.Lock()
				e.beacon.mode = "error"
				e.beacon.mu.Unlock()
				e.refresh([]string{"W"})
				without := append([]rec{}, old...)
				without[drop].Known = false
				check(outcome, without)
				wallets["W"].Accts = list
			case "accounts-empty":
				if kind == "dirk" { // the statement is about the remote signer
					wallets["W"].Accts = nil
					e.refresh([]string{"W"})
					check(outcome, old)
					wallets["W"].Accts = list
				}
			}
			// and a later good refresh with changed records replaces them
			e.beacon.mu.Lock()
			e.beacon.mode = "ok"
			e.beacon.mu.Unlock()
			for k := range recs {
				if r.Intn(2) == 0 {
					nr := genRec(r, recs[k].Index)
					nr.Known = recs[k].Known || nr.Known
					recs[k] = nr
				}
			}
			anyKnown := false
			for _, x := range recs {
				anyKnown = anyKnown || x.Known
			}
			if anyKnown {
				setRecords()
				e.refresh([]string{"W"})
				check("after-update", recs)
			}
			if i < 1 {
				c.Sample(map[string]any{"manager": kind, "records": recs, "refresh_outcome": outcome})
			}
		})
	}
}

// concurrentRefresh: lookups overlap refreshes whose validator sets differ; every reported (index, account) pair
// must be a pair of one of the two sets.
func concurrentRefresh(c *harness.Ctx) {
	n := c.N(6, 200)
	for i := 0; i < n; i++ {
		id := fmt.Sprintf("concrefresh%d", i)
		c.Case(id, func() {
			kind := []string{"dirk", "wallet"}[i%2]
			nAcc := 24
			var accts []harness.Acct
			var list []e2wtypes.Account
			for k := 0; k < nAcc; k++ {
				ak := harness.KindMulti
				if kind == "wallet" {
					ak = harness.KindPlain
				}
				a := harness.NewAcct(ak, "W", fmt.Sprintf("c%d", k), 2400+k, 0, nil)
				accts = append(accts, a)
				list = append(list, a)
			}
			wallets := map[string]*harness.FWallet{"W": harness.NewFWallet("W", list)}
			e, err := newEnv(kind, []string{"W"}, wallets)
			if err != nil {
				c.Inconclusive(err.Error())
				return
			}
			valid := map[uint64]string{}
			mk := func(lo, hi int) map[phase0.BLSPubKey]*apiv1.Validator {
				out := map[phase0.BLSPubKey]*apiv1.Validator{}
				for k := lo; k < hi; k++ {
					idx := uint64(5000 + k)
					valid[idx] = accts[k].Name()
					out[accts[k].Pub48()] = &apiv1.Validator{Index: phase0.ValidatorIndex(idx), Validator: &phase0.Validator{PublicKey: accts[k].Pub48(), EffectiveBalance: 32e9,
						ActivationEpoch: 0, ExitEpoch: farFuture, WithdrawableEpoch: farFuture}}
				}
				return out
			}
			setA, setB := mk(0, 16), mk(8, 24)
			stop := make(chan struct{})
			var wg sync.WaitGroup
			wg.Add(1)
			go func() {
				defer wg.Done()
				for k := 0; k < 300; k++ {
					e.beacon.mu.Lock()
					if k%2 == 0 {
						e.beacon.records = setA
					} else {
						e.beacon.records = setB
					}
					e.beacon.mu.Unlock()
					e.refresh([]string{"W"})
				}
				close(stop)
			}()
			bad := ""
			lookups := 0
			for w := 0; w < 3; w++ {
				wg.Add(1)
				go func() {
					defer wg.Done()
					for {
						select {
						case <-stop:
							return
						default:
						}
						got, err := e.mgr.ValidatingAccountsForEpoch(context.Background(), 5)
						if err != nil {
							continue
						}
						e.beacon.mu.Lock()
						lookups++
						for idx, a := range got {
							if a == nil || valid[uint64(idx)] != a.Name() {
								nm := "<nil>"
								if a != nil {
									nm = a.Name()
								}
								bad = fmt.Sprintf("index %d reported with account %s", idx, nm)
							}
						}
						e.beacon.mu.Unlock()
					}
				}()
			}
			wg.Wait()
			c.Count("lookups_during_refresh", int64(lookups))
			if bad != "" {
				c.Violate("wrong-index-during-refresh:"+kind, "a lookup overlapping a refresh reported a pair that is in neither validator set: "+bad, id, nil)
			}
			c.Distinct("concrefresh|" + kind)
		})
	}
}

func run(c *harness.Ctx) {
	harness.InitBLS()
	var err error
	tmpDir, err = os.MkdirTemp("", "verif-c13-wallets-")
	if err != nil {
		c.Inconclusive(err.Error())
		return
	}
	defer os.RemoveAll(tmpDir)
	admission(c)
	lifecycle(c)
	concurrentRefresh(c)
}

var _ = sort.Strings
var _ eth2client.ValidatorsProvider = (*beacon)(nil)

func main() {
	harness.Main(&harness.Spec{
		Property:    "C13",
		Level:       "exploration",
		Rule:        "(1) admission: lists of 1-3 specifiers (wallet, wallet/, wallet/regex with classes, .*, grouped and bare alternation, none/one/both anchors) x wallets offering account names with near misses (prefix/suffix/longer names), through the real dirk and wallet managers' refresh; (2) life cycle: 2-8 validator records consistent with the chain (slashed => exit set; activation <= exit <= withdrawable; unknown to the node) x epochs around every boundary x {validating, sync-committee} x {all, by index incl. foreign index}, before and after refreshes that return nothing / fail / change records. distinct = (manager, specifiers, name, admitted) resp. (manager, query kind, epoch, eligible/total, stage); non-trivial = some but not all accounts qualify",
		Batches:     func(string) int { return 4 },
		Parallel:    4,
		Run:         run,
		MinDistinct: 200,
		Assumptions: []string{"wallet part of a specifier is a literal name (documented forms)", "the converse (matching accounts are offered) is asserted only for the documented forms wallet and wallet/regex", "for a bare top-level alternation both readings of 'fully matches' are accepted", "wallets are injected through verif hooks: dirk via its wallet cache, wallet manager via the real fetch/filter functions"},
	})
}
