// C16: no data from a beacon node, relay or configuration can crash Vouch.
// Monitor: hostile but decoder-deliverable inputs on every input surface named by the property, one case at a
// time in child processes that journal the case before running it; the oracle is the process itself (no panic,
// no fatal error) plus a canary call afterwards. A crash is attributed to the journaled case and the batch resumes.
package main

import (
	"context"
	"encoding/hex"
	"encoding/json"
	"errors"
	"fmt"
	"math/big"
	"math/rand"
	"strings"
	"sync"
	"sync/atomic"
	"time"

	"github.com/attestantio/go-block-relay/services/blockauctioneer"
	builderapi "github.com/attestantio/go-builder-client/api"
	builderspec "github.com/attestantio/go-builder-client/spec"
	eth2client "github.com/attestantio/go-eth2-client"
	"github.com/attestantio/go-eth2-client/api"
	apiv1 "github.com/attestantio/go-eth2-client/api/v1"
	"github.com/attestantio/go-eth2-client/spec"
	"github.com/attestantio/go-eth2-client/spec/altair"
	"github.com/attestantio/go-eth2-client/spec/bellatrix"
	"github.com/attestantio/go-eth2-client/spec/phase0"
	"github.com/attestantio/vouch/mock"
	aggstd "github.com/attestantio/vouch/services/attestationaggregator/standard"
	"github.com/attestantio/vouch/services/attester"
	attstd "github.com/attestantio/vouch/services/attester/standard"
	"github.com/attestantio/vouch/services/beaconblockproposer"
	propstd "github.com/attestantio/vouch/services/beaconblockproposer/standard"
	"github.com/attestantio/vouch/services/beaconcommitteesubscriber"
	substd "github.com/attestantio/vouch/services/beaconcommitteesubscriber/standard"
	"github.com/attestantio/vouch/services/blockrelay"
	cachestd "github.com/attestantio/vouch/services/cache/standard"
	graffitidyn "github.com/attestantio/vouch/services/graffitiprovider/dynamic"
	nullmetrics "github.com/attestantio/vouch/services/metrics/null"
	signerstd "github.com/attestantio/vouch/services/signer/standard"
	"github.com/attestantio/vouch/services/submitter/multinode"
	propbest "github.com/attestantio/vouch/strategies/beaconblockproposal/best"
	bidbest "github.com/attestantio/vouch/strategies/builderbid/best"
	biddeadline "github.com/attestantio/vouch/strategies/builderbid/deadline"
	"github.com/attestantio/vouch/util"
	"github.com/rs/zerolog"
	"github.com/shopspring/decimal"
	e2wtypes "github.com/wealdtech/go-eth2-wallet-types/v2"
	"verif/checks/ctlsim"
	"verif/harness"
)

var bg = context.Background()

// ---------- (a) execution configurations of any shape ----------

var scalarJunk = []string{`null`, `""`, `"x"`, `0`, `-1`, `true`, `[]`, `{}`, `"0x"`, `"0x00"`, `1e99`, `"999999999999999999999999"`}

func junk(r *rand.Rand) string { return scalarJunk[r.Intn(len(scalarJunk))] }

// tidy documents are mostly well-formed (junk at one site in forty or so), so that the deeper shapes of valid
// documents are reached; the others carry junk at every sixth site.
var tidy bool

func jk(r *rand.Rand, n int) bool {
	if tidy {
		return r.Intn(n*8) == 0
	}
	return r.Intn(n) == 0
}

func relayObj(r *rand.Rand, proposerLevel bool) string {
	if jk(r, 6) {
		return junk(r)
	}
	var f []string
	add := func(k, good string) {
		switch {
		case jk(r, 6):
			f = append(f, fmt.Sprintf("%q:%s", k, junk(r)))
		case r.Intn(5) < 2:
			f = append(f, fmt.Sprintf("%q:%s", k, good))
		}
	}
	add("fee_recipient", `"0x0123456789012345678901234567890123456789"`)
	add("gas_limit", `"30000000"`)
	add("grace", `"500"`)
	add("min_value", []string{`"0.1"`, `"0"`}[r.Intn(2)])
	add("public_key", `"0x8a1d7b8dd64e0aafe7ea7b6c95065c9364cf99d38470c12ee807d55f7de1529ad29ce2c422e0b65e3d5a05c02caca249"`)
	if proposerLevel {
		add("disabled", `true`)
	}
	return "{" + strings.Join(f, ",") + "}"
}

func relaysObj(r *rand.Rand, proposerLevel bool) string {
	if jk(r, 8) {
		return junk(r)
	}
	var f []string
	for i := 0; i < r.Intn(4); i++ {
		addr := []string{"https://relay1.com/", "https://relay2.com/", "https://relay3.com/"}[r.Intn(3)]
		if jk(r, 2) {
			addr = []string{"", "://bad", "relay3", "http://[::1"}[r.Intn(4)]
		}
		f = append(f, fmt.Sprintf("%q:%s", addr, relayObj(r, proposerLevel)))
	}
	return "{" + strings.Join(f, ",") + "}"
}

func genConfig(r *rand.Rand) string {
	if r.Intn(25) == 0 {
		// not an object at all (an empty file, a server answering "null", an HTML error page ...)
		return []string{"null", "[]", `"config"`, "", " ", "0", "true", "{}", `{"version":2}`, "<html>502</html>", "nul", `{"version":null}`}[r.Intn(12)]
	}
	if r.Intn(5) == 0 { // legacy
		var f []string
		entry := func() string {
			if r.Intn(5) == 0 {
				return junk(r)
			}
			var e []string
			if r.Intn(4) != 0 {
				e = append(e, `"fee_recipient":"0x0123456789012345678901234567890123456789"`)
			}
			if r.Intn(3) == 0 {
				e = append(e, `"gas_limit":`+[]string{`"30000000"`, junk(r)}[r.Intn(2)])
			}
			switch r.Intn(4) {
			case 0:
				e = append(e, `"builder":`+junk(r))
			case 1:
				e = append(e, `"builder":{"enabled":true,"relays":["https://relay1.com/",""]}`)
			case 2:
				e = append(e, `"builder":{"enabled":false,"grace":`+junk(r)+`}`)
			}
			return "{" + strings.Join(e, ",") + "}"
		}
		if r.Intn(5) != 0 {
			f = append(f, `"default_config":`+entry())
		}
		if r.Intn(2) == 0 {
			key := []string{"0x8a1d7b8dd64e0aafe7ea7b6c95065c9364cf99d38470c12ee807d55f7de1529ad29ce2c422e0b65e3d5a05c02caca249", "0x00", "zz", ""}[r.Intn(4)]
			f = append(f, fmt.Sprintf(`"proposer_config":{%q:%s}`, key, entry()))
		}
		return "{" + strings.Join(f, ",") + "}"
	}
	tidy = r.Intn(2) == 0
	defer func() { tidy = false }()
	good := func(g string) string {
		if jk(r, 3) {
			return junk(r)
		}
		return g
	}
	ver := "2"
	if jk(r, 3) {
		ver = []string{`"2"`, "null", "3"}[r.Intn(3)]
	}
	f := []string{`"version":` + ver}
	if r.Intn(3) == 0 {
		f = append(f, `"fee_recipient":`+good(`"0x0123456789012345678901234567890123456789"`))
	}
	if r.Intn(3) == 0 {
		f = append(f, `"min_value":`+good(`"0.5"`))
	}
	if r.Intn(3) == 0 {
		f = append(f, `"gas_limit":`+good([]string{`"30000000"`, `"36000000"`}[r.Intn(2)]))
	}
	if r.Intn(4) == 0 {
		f = append(f, `"grace":`+good(`"250"`))
	}
	if r.Intn(2) == 0 {
		f = append(f, `"relays":`+relaysObj(r, false))
	}
	if r.Intn(2) == 0 {
		if jk(r, 6) {
			f = append(f, `"proposers":`+junk(r))
		} else {
			var ps []string
			for i := 0; i < r.Intn(4); i++ {
				if jk(r, 6) {
					ps = append(ps, junk(r))
					continue
				}
				prop := []string{`"Wallet 1/.*"`, `"0x8a1d7b8dd64e0aafe7ea7b6c95065c9364cf99d38470c12ee807d55f7de1529ad29ce2c422e0b65e3d5a05c02caca249"`,
					`"0x000000000000000000000000000000000000000000000000000000000000000000000000000000000000000000000000"`}[r.Intn(3)]
				if jk(r, 2) {
					prop = []string{`"("`, `""`, junk(r)}[r.Intn(3)]
				}
				p := []string{`"proposer":` + prop}
				if r.Intn(2) == 0 {
					p = append(p, `"relays":`+relaysObj(r, true))
				}
				if r.Intn(3) == 0 {
					p = append(p, `"reset_relays":`+good("true"))
				}
				if r.Intn(3) == 0 {
					p = append(p, `"fee_recipient":`+good(`"0x0123456789012345678901234567890123456789"`))
				}
				if r.Intn(4) == 0 {
					p = append(p, `"gas_limit":`+good(`"25000000"`))
				}
				if r.Intn(4) == 0 {
					p = append(p, `"min_value":`+good([]string{`"0.2"`, `"0"`}[r.Intn(2)]))
				}
				if r.Intn(5) == 0 {
					p = append(p, `"grace":`+good(`"100"`))
				}
				ps = append(ps, "{"+strings.Join(p, ",")+"}")
			}
			f = append(f, `"proposers":[`+strings.Join(ps, ",")+"]")
		}
	}
	return "{" + strings.Join(f, ",") + "}"
}

func caseConfig(r *rand.Rand) string {
	doc := genConfig(r)
	cfg, err := blockrelay.UnmarshalJSON([]byte(doc))
	shape := strings.NewReplacer("0x0123456789012345678901234567890123456789", "A", "0x8a1d7b8dd64e0aafe7ea7b6c95065c9364cf99d38470c12ee807d55f7de1529ad29ce2c422e0b65e3d5a05c02caca249", "K").Replace(doc)
	if err != nil || cfg == nil {
		return "config|rejected|" + shape
	}
	a := harness.NewAcct(harness.KindPlain, "Wallet 1", "Account 1", 1200, 1, nil)
	var fr bellatrix.ExecutionAddress
	fr[0] = 9
	// the key the documents name, the account's own key and the zero key
	var docKey phase0.BLSPubKey
	if b, err := hex.DecodeString("8a1d7b8dd64e0aafe7ea7b6c95065c9364cf99d38470c12ee807d55f7de1529ad29ce2c422e0b65e3d5a05c02caca249"); err == nil {
		copy(docKey[:], b)
	}
	for _, acct := range []e2wtypes.Account{nil, a} {
		for _, pk := range []phase0.BLSPubKey{{}, a.Pub48(), docKey} {
			_, _ = cfg.ProposerConfig(bg, acct, pk, fr, 30000000)
		}
	}
	_, _ = json.Marshal(cfg)
	_ = fmt.Sprint(cfg)
	return "config|accepted|" + shape
}

// ---------- (b) relay addresses through the bid strategies ----------

var oddAddresses = []string{"", "://bad", "http://[::1", "%zz", "relay.example.com", "ftp://relay.example.com", "http://relay.example.com:99999/", "https://user:pass@/", "\x00", "http://", "   "}

func caseRelayAddress(r *rand.Rand) string {
	addr := oddAddresses[r.Intn(len(oddAddresses))]
	clock := harness.NewVClock(12*time.Second, 32)
	clock.Genesis = time.Now().Add(-time.Hour)
	specP := harness.NewSpec(32, nil)
	pc := &beaconblockproposer.ProposerConfig{Relays: []*beaconblockproposer.RelayConfig{{Address: addr, MinValue: decimal.Zero}}}
	if r.Intn(2) == 0 {
		good := &harness.Relay{Addr: fmt.Sprintf("http://good%d.example.com/", r.Intn(1000)), Start: time.Now(), SlotTS: 0}
		good.Steps = append(good.Steps, struct {
			At  time.Duration
			Bid *harness.BidSpec
			Err bool
		}{0, &harness.BidSpec{Value: 1000, Builder: 1, Header: 1}, false})
		util.VerifSetBuilderClient(good.Addr, good)
		pc.Relays = append(pc.Relays, &beaconblockproposer.RelayConfig{Address: good.Addr, MinValue: decimal.Zero})
	}
	which := "best"
	if r.Intn(2) == 0 {
		which = "deadline"
		s, err := biddeadline.New(bg, biddeadline.WithLogLevel(zerolog.Disabled), biddeadline.WithMonitor(nullmetrics.New()), biddeadline.WithSpecProvider(specP), biddeadline.WithDomainProvider(harness.RecDomains{}),
			biddeadline.WithChainTime(clock), biddeadline.WithDeadline(120*time.Millisecond), biddeadline.WithBidGap(40*time.Millisecond), biddeadline.WithReleaseVersion("verif"))
		if err == nil {
			slot := phase0.Slot(uint64(time.Since(clock.Genesis) / (12 * time.Second)))
			_, _ = s.BuilderBid(bg, slot, phase0.Hash32{1}, phase0.BLSPubKey{1}, pc, nil)
		}
	} else {
		s, err := bidbest.New(bg, bidbest.WithLogLevel(zerolog.Disabled), bidbest.WithMonitor(nullmetrics.New()), bidbest.WithSpecProvider(specP), bidbest.WithDomainProvider(harness.RecDomains{}),
			bidbest.WithChainTime(clock), bidbest.WithTimeout(150*time.Millisecond), bidbest.WithReleaseVersion("verif"))
		if err == nil {
			_, _ = s.BuilderBid(bg, 100, phase0.Hash32{1}, phase0.BLSPubKey{1}, pc, nil)
		}
	}
	return "relay-address|" + which + "|" + fmt.Sprintf("%q", addr)
}

// ---------- (c) graffiti ----------

type nodeProposals struct {
	client  string
	nilBody bool
}

func (n nodeProposals) Name() string    { return "node" }
func (n nodeProposals) Address() string { return "node:5052" }
func (n nodeProposals) IsActive() bool  { return true }
func (n nodeProposals) IsSynced() bool  { return true }
func (n nodeProposals) NodeClient(context.Context) (*api.Response[string], error) {
	if n.client == "<error>" {
		return nil, errors.New("no client")
	}
	return &api.Response[string]{Data: n.client, Metadata: map[string]any{}}, nil
}
func (n nodeProposals) Proposal(_ context.Context, opts *api.ProposalOpts) (*api.Response[*api.VersionedProposal], error) {
	return &api.Response[*api.VersionedProposal]{Data: harness.NewProposal(spec.DataVersionCapella, false, opts.Slot, 1, 7, opts.Graffiti), Metadata: map[string]any{}}, nil
}

var clientNames = []string{"", "teku", "prysm", "nimbus", "lodestar", "lighthouse", "a-client-with-a-rather-long-name-indeed", "<error>", "{{CLIENT}}"}
var graffitiTemplates = []string{"{{CLIENT}}", "vouch {{CLIENT}}", "{{CLIENT}}{{CLIENT}}{{CLIENT}}", "0123456789012345678901{{CLIENT}}", "plain", "", "{{CLIENT", "{{SLOT}} {{VALIDATORINDEX}} {{CLIENT}}", strings.Repeat("x", 40)}

func caseGraffitiStrategy(r *rand.Rand) string {
	tmpl := graffitiTemplates[r.Intn(len(graffitiTemplates))]
	client := clientNames[r.Intn(len(clientNames))]
	var g [32]byte
	copy(g[:], tmpl)
	specP := harness.NewSpec(32, map[string]any{"TIMELY_SOURCE_WEIGHT": uint64(14), "TIMELY_TARGET_WEIGHT": uint64(26), "TIMELY_HEAD_WEIGHT": uint64(14),
		"SYNC_REWARD_WEIGHT": uint64(2), "PROPOSER_WEIGHT": uint64(8), "WEIGHT_DENOMINATOR": uint64(64)})
	providers := map[string]eth2client.ProposalProvider{"n1": nodeProposals{client: client}}
	if r.Intn(2) == 0 {
		providers["n2"] = nodeProposals{client: clientNames[r.Intn(len(clientNames))]}
	}
	s, err := propbest.New(bg, propbest.WithLogLevel(zerolog.Disabled), propbest.WithTimeout(300*time.Millisecond), propbest.WithClientMonitor(nullmetrics.New()), propbest.WithProcessConcurrency(2),
		propbest.WithEventsProvider(harness.NewCapEvents()), propbest.WithChainTimeService(harness.NewVClock(12*time.Second, 32)), propbest.WithSpecProvider(specP), propbest.WithProposalProviders(providers),
		propbest.WithSignedBeaconBlockProvider(mock.NewSignedBeaconBlockProvider()), propbest.WithBlockRootToSlotCache(slotCache{}))
	if err != nil {
		return "graffiti-strategy|setup-failed:" + err.Error()
	}
	_, _ = s.Proposal(bg, &api.ProposalOpts{Slot: 12345, Graffiti: g})
	return fmt.Sprintf("graffiti-strategy|%q|%q", tmpl, client)
}

type slotCache struct{}

func (slotCache) BlockRootToSlot(context.Context, phase0.Root) (phase0.Slot, error) { return 1, nil }

type textSource struct{ text string }

func (t textSource) Fetch(context.Context, string) ([]byte, error) {
	if t.text == "<error>" {
		return nil, errors.New("fetch failed")
	}
	return []byte(t.text), nil
}

var graffitiFiles = []string{"", "\n", "\r\n\r\n", "one", "one\ntwo\n\nthree\n", "a\r\nb\r\n", "{{SLOT}} {{VALIDATORINDEX}}\n{{CLIENT}}", strings.Repeat("long ", 30), "\n\n\n", "<error>", " \t ", "\x00\x01"}

func caseGraffitiProvider(r *rand.Rand) string {
	text := graffitiFiles[r.Intn(len(graffitiFiles))]
	gp, err := graffitidyn.New(bg, graffitidyn.WithLogLevel(zerolog.Disabled), graffitidyn.WithLocation("file:///graffiti-{{SLOT}}-{{VALIDATORINDEX}}.txt"), graffitidyn.WithMajordomo(textSource{text}))
	if err != nil {
		return "graffiti-provider|setup-failed"
	}
	for i := 0; i < 3; i++ {
		_, _ = gp.Graffiti(bg, phase0.Slot(r.Intn(1000)), phase0.ValidatorIndex(r.Intn(1<<20)))
	}
	// and through the proposer
	w := newPropWorld()
	w.node = nodeProposals{client: clientNames[r.Intn(len(clientNames))]}
	svc, err := propstd.New(bg, propstd.WithLogLevel(zerolog.Disabled), propstd.WithChainTime(harness.NewVClock(12*time.Second, 32)), propstd.WithProposalDataProvider(w.node), propstd.WithMonitor(nullmetrics.New()),
		propstd.WithValidatingAccountsProvider(w), propstd.WithExecutionChainHeadProvider(w), propstd.WithProposalSubmitter(w), propstd.WithRANDAORevealSigner(w.signer),
		propstd.WithBeaconBlockSigner(w.signer), propstd.WithBlobSidecarSigner(w.signer), propstd.WithGraffitiProvider(gp), propstd.WithBuilderBoostFactor(91))
	if err != nil {
		return "graffiti-provider|proposer-setup-failed:" + err.Error()
	}
	duty := beaconblockproposer.NewDuty(6400, 1)
	if err := svc.Prepare(bg, duty); err == nil {
		svc.Propose(bg, duty)
	}
	return fmt.Sprintf("graffiti-provider|%q", text)
}

// ---------- (g) blinded proposals without usable auction results ----------

type propWorld struct {
	acct    harness.Acct
	signer  *signerstd.Service
	node    nodeProposals
	blinded bool
	version spec.DataVersion
	auction string
}

func newPropWorld() *propWorld {
	w := &propWorld{acct: harness.NewAcct(harness.KindPlain, "W", "p", 1201, 1, nil)}
	var err error
	w.signer, err = signerstd.New(bg, signerstd.WithLogLevel(zerolog.Disabled), signerstd.WithMonitor(nullmetrics.New()), signerstd.WithClientMonitor(nullmetrics.New()),
		signerstd.WithSpecProvider(harness.NewSpec(32, nil)), signerstd.WithDomainProvider(harness.RecDomains{}))
	if err != nil {
		panic(err)
	}
	return w
}
func (w *propWorld) ValidatingAccountsForEpoch(context.Context, phase0.Epoch) (map[phase0.ValidatorIndex]e2wtypes.Account, error) {
	return map[phase0.ValidatorIndex]e2wtypes.Account{1: w.acct}, nil
}
func (w *propWorld) ValidatingAccountsForEpochByIndex(context.Context, phase0.Epoch, []phase0.ValidatorIndex) (map[phase0.ValidatorIndex]e2wtypes.Account, error) {
	return map[phase0.ValidatorIndex]e2wtypes.Account{1: w.acct}, nil
}
func (w *propWorld) SyncCommitteeAccountsForEpoch(context.Context, phase0.Epoch) (map[phase0.ValidatorIndex]e2wtypes.Account, error) {
	return nil, nil
}
func (w *propWorld) SyncCommitteeAccountsForEpochByIndex(context.Context, phase0.Epoch, []phase0.ValidatorIndex) (map[phase0.ValidatorIndex]e2wtypes.Account, error) {
	return nil, nil
}
func (w *propWorld) ExecutionChainHead(context.Context) (phase0.Hash32, uint64) {
	return phase0.Hash32{}, 0
}
func (w *propWorld) SubmitProposal(context.Context, *api.VersionedSignedProposal) error { return nil }
func (w *propWorld) Proposal(_ context.Context, opts *api.ProposalOpts) (*api.Response[*api.VersionedProposal], error) {
	return &api.Response[*api.VersionedProposal]{Data: harness.NewProposal(w.version, w.blinded, opts.Slot, 1, 3, opts.Graffiti), Metadata: map[string]any{}}, nil
}
func (w *propWorld) AuctionBlock(context.Context, phase0.Slot, phase0.Hash32, phase0.BLSPubKey) (*blockauctioneer.Results, error) {
	switch w.auction {
	case "error":
		return nil, errors.New("auction failed")
	case "nil":
		return nil, nil
	case "empty":
		return &blockauctioneer.Results{}, nil
	default:
		return &blockauctioneer.Results{Participation: map[string]*blockauctioneer.Participation{}, WinningParticipation: &blockauctioneer.Participation{}}, nil
	}
}

func caseBlinded(r *rand.Rand) string {
	w := newPropWorld()
	w.version = harness.Versions[r.Intn(len(harness.Versions))]
	w.blinded = true
	w.auction = []string{"none", "error", "nil", "empty", "winner-without-providers"}[r.Intn(5)]
	params := []propstd.Parameter{propstd.WithLogLevel(zerolog.Disabled), propstd.WithChainTime(harness.NewVClock(12*time.Second, 32)), propstd.WithProposalDataProvider(w), propstd.WithMonitor(nullmetrics.New()),
		propstd.WithValidatingAccountsProvider(w), propstd.WithExecutionChainHeadProvider(w), propstd.WithProposalSubmitter(w), propstd.WithRANDAORevealSigner(w.signer),
		propstd.WithBeaconBlockSigner(w.signer), propstd.WithBlobSidecarSigner(w.signer), propstd.WithBuilderBoostFactor(91)}
	if w.auction != "none" {
		params = append(params, propstd.WithBlockAuctioneer(w))
	}
	svc, err := propstd.New(bg, params...)
	if err != nil {
		return "blinded|setup-failed"
	}
	duty := beaconblockproposer.NewDuty(6400, 1)
	if err := svc.Prepare(bg, duty); err == nil {
		ctx, cancel := context.WithTimeout(bg, 300*time.Millisecond)
		svc.Propose(ctx, duty)
		cancel()
	}
	return "blinded|" + w.version.String() + "|" + w.auction
}

// ---------- (d) duties ----------

func caseDuties(r *rand.Rand) string {
	n := r.Intn(8)
	var duties []*apiv1.AttesterDuty
	for i := 0; i < n; i++ {
		d := &apiv1.AttesterDuty{Slot: phase0.Slot(r.Intn(3) * 32), ValidatorIndex: phase0.ValidatorIndex(r.Intn(4)), CommitteeIndex: phase0.CommitteeIndex(r.Intn(3)),
			CommitteeLength: uint64(r.Intn(4)), CommitteesAtSlot: uint64(r.Intn(3)), ValidatorCommitteeIndex: uint64(r.Intn(6))}
		switch r.Intn(8) {
		case 0:
			d.ValidatorIndex = phase0.ValidatorIndex(^uint64(0))
		case 1:
			d.CommitteeIndex = phase0.CommitteeIndex(^uint64(0))
		case 2:
			d.CommitteeLength = 1 << 20
			d.ValidatorCommitteeIndex = 1<<20 + 5 // position beyond the committee
		case 3:
			d.Slot = phase0.Slot(^uint64(0))
		case 4:
			d.ValidatorCommitteeIndex = ^uint64(0)
		}
		duties = append(duties, d)
	}
	if r.Intn(6) == 0 {
		duties = append(duties, duties...)
	}
	merged, err := attester.MergeDuties(bg, duties)
	if err != nil {
		return "duties|merge-error"
	}
	// through the controller with the real attester and the real subscriber (the production paths)
	accts := map[uint64]harness.Acct{}
	for i := 0; i < 4; i++ {
		accts[uint64(i)] = harness.NewAcct(harness.KindPlain, "W", fmt.Sprintf("d%d", i), 1210+i, phase0.ValidatorIndex(i), nil)
	}
	specP := harness.NewSpec(32, nil)
	sg, _ := signerstd.New(bg, signerstd.WithLogLevel(zerolog.Disabled), signerstd.WithMonitor(nullmetrics.New()), signerstd.WithClientMonitor(nullmetrics.New()),
		signerstd.WithSpecProvider(specP), signerstd.WithDomainProvider(harness.RecDomains{}))
	env, err := ctlsim.New(ctlsim.Options{SlotsPerEpoch: 32, EpochsPerPeriod: 8, StartSlot: 32, Validators: []uint64{0, 1, 2, 3}, Accounts: accts})
	if err != nil {
		return "duties|setup-failed"
	}
	m := map[phase0.ValidatorIndex]e2wtypes.Account{}
	for v, a := range accts {
		m[phase0.ValidatorIndex(v)] = a
	}
	att, err := attstd.New(bg, attstd.WithLogLevel(zerolog.Disabled), attstd.WithProcessConcurrency(2), attstd.WithChainTime(env.Clock), attstd.WithSpecProvider(specP),
		attstd.WithAttestationDataProvider(dutyNode{}), attstd.WithAttestationsSubmitter(mock.NewAttestationsSubmitter()), attstd.WithMonitor(nullmetrics.New()),
		attstd.WithValidatingAccountsProvider(dutyAccts{m}), attstd.WithBeaconAttestationsSigner(sg))
	if err != nil {
		return "duties|attester-setup-failed"
	}
	env.Opts.Attester = att
	env.Opts.Subscriber = func(e *ctlsim.Env) beaconcommitteesubscriber.Service {
		ag, err := aggstd.New(bg, aggstd.WithLogLevel(zerolog.Disabled), aggstd.WithSpecProvider(specP), aggstd.WithMonitor(nullmetrics.New()), aggstd.WithValidatingAccountsProvider(dutyAccts{m}),
			aggstd.WithAggregateAttestationProvider(mock.NewAggregateAttestationProvider()), aggstd.WithAggregateAttestationsSubmitter(mock.NewAggregateAttestationsSubmitter()),
			aggstd.WithSlotSelectionSigner(sg), aggstd.WithAggregateAndProofSigner(sg), aggstd.WithChainTime(e.Clock))
		if err != nil {
			panic(err)
		}
		sub, err := substd.New(bg, substd.WithLogLevel(zerolog.Disabled), substd.WithProcessConcurrency(2), substd.WithMonitor(nullmetrics.New()), substd.WithChainTimeService(e.Clock),
			substd.WithAttesterDutiesProvider(e.Duties), substd.WithAttestationAggregator(ag), substd.WithBeaconCommitteeSubmitter(mock.NewBeaconCommitteeSubscriptionsSubmitter()))
		if err != nil {
			panic(err)
		}
		return sub
	}
	// the hostile duties are reported for the current and the next epoch (slots moved into those epochs, other fields as generated)
	for e := uint64(1); e <= 2; e++ {
		for _, d := range duties {
			cp := *d
			if uint64(cp.Slot) < 1<<62 {
				cp.Slot = phase0.Slot(e*32 + uint64(cp.Slot)%32)
			}
			env.Duties.Attester[e] = append(env.Duties.Attester[e], &cp)
		}
	}
	env.Duties.Proposer[1] = []*apiv1.ProposerDuty{{Slot: 40, ValidatorIndex: 1}, {Slot: 40, ValidatorIndex: 2}, {Slot: phase0.Slot(^uint64(0)), ValidatorIndex: 3}}
	env.Duties.Sync[0] = []*apiv1.SyncCommitteeDuty{{ValidatorIndex: 1, ValidatorSyncCommitteeIndices: []phase0.CommitteeIndex{0, phase0.CommitteeIndex(^uint64(0))}}, {ValidatorIndex: 1}}
	if env.Start() == nil {
		env.StepTo(70)
	}
	return fmt.Sprintf("duties|n%d|merged%d", len(duties), len(merged))
}

type dutyNode struct{}

func (dutyNode) AttestationData(_ context.Context, opts *api.AttestationDataOpts) (*api.Response[*phase0.AttestationData], error) {
	e := phase0.Epoch(uint64(opts.Slot) / 32)
	return &api.Response[*phase0.AttestationData]{Data: &phase0.AttestationData{Slot: opts.Slot, Index: opts.CommitteeIndex, Source: &phase0.Checkpoint{}, Target: &phase0.Checkpoint{Epoch: e}}, Metadata: map[string]any{}}, nil
}

type dutyAccts struct {
	m map[phase0.ValidatorIndex]e2wtypes.Account
}

func (d dutyAccts) ValidatingAccountsForEpoch(context.Context, phase0.Epoch) (map[phase0.ValidatorIndex]e2wtypes.Account, error) {
	return d.m, nil
}
func (d dutyAccts) ValidatingAccountsForEpochByIndex(_ context.Context, _ phase0.Epoch, idx []phase0.ValidatorIndex) (map[phase0.ValidatorIndex]e2wtypes.Account, error) {
	out := map[phase0.ValidatorIndex]e2wtypes.Account{}
	for _, i := range idx {
		if a, ok := d.m[i]; ok {
			out[i] = a
		}
	}
	return out, nil
}
func (d dutyAccts) SyncCommitteeAccountsForEpoch(context.Context, phase0.Epoch) (map[phase0.ValidatorIndex]e2wtypes.Account, error) {
	return d.m, nil
}
func (d dutyAccts) SyncCommitteeAccountsForEpochByIndex(c context.Context, e phase0.Epoch, idx []phase0.ValidatorIndex) (map[phase0.ValidatorIndex]e2wtypes.Account, error) {
	return d.ValidatingAccountsForEpochByIndex(c, e, idx)
}

// ---------- (e) events and blocks with zero-valued fields through the cache ----------

type blockNode struct {
	blk *spec.VersionedSignedBeaconBlock
}

func (b blockNode) SignedBeaconBlock(context.Context, *api.SignedBeaconBlockOpts) (*api.Response[*spec.VersionedSignedBeaconBlock], error) {
	if b.blk == nil {
		return nil, errors.New("no block")
	}
	return &api.Response[*spec.VersionedSignedBeaconBlock]{Data: b.blk, Metadata: map[string]any{}}, nil
}

func caseCacheEvents(r *rand.Rand) string {
	v := harness.Versions[r.Intn(len(harness.Versions))]
	prop := harness.NewProposal(v, false, 100, 1, 5, [32]byte{})
	blk := &spec.VersionedSignedBeaconBlock{Version: v}
	switch v {
	case spec.DataVersionPhase0:
		blk.Phase0 = &phase0.SignedBeaconBlock{Message: prop.Phase0}
	case spec.DataVersionAltair:
		blk.Altair = &altair.SignedBeaconBlock{Message: prop.Altair}
	case spec.DataVersionBellatrix:
		blk.Bellatrix = &bellatrix.SignedBeaconBlock{Message: prop.Bellatrix}
	default:
		// capella / deneb with an all-zero execution payload (as before the merge transition / an empty payload)
		prop = harness.NewProposal(spec.DataVersionBellatrix, false, 100, 1, 5, [32]byte{})
		blk.Version = spec.DataVersionBellatrix
		prop.Bellatrix.Body.ExecutionPayload = &bellatrix.ExecutionPayload{}
		blk.Bellatrix = &bellatrix.SignedBeaconBlock{Message: prop.Bellatrix}
	}
	node := blockNode{blk}
	if r.Intn(5) == 0 {
		node.blk = nil
	}
	ev := harness.NewCapEvents()
	_, err := cachestd.New(bg, cachestd.WithLogLevel(zerolog.Disabled), cachestd.WithMonitor(nullmetrics.New()), cachestd.WithChainTime(harness.NewVClock(12*time.Second, 32)),
		cachestd.WithScheduler(harness.NewCapSched()), cachestd.WithEventsProvider(ev), cachestd.WithSignedBeaconBlockProvider(node), cachestd.WithBeaconBlockHeadersProvider(mock.NewBeaconBlockHeadersProvider()))
	if err != nil {
		return "cache-events|setup-failed"
	}
	for _, h := range ev.Handlers["block"] {
		h(&apiv1.Event{Topic: "block", Data: &apiv1.BlockEvent{}})
		h(&apiv1.Event{Topic: "block"})
	}
	for _, h := range ev.Handlers["head"] {
		h(&apiv1.Event{Topic: "head", Data: &apiv1.HeadEvent{}})
		h(&apiv1.Event{Topic: "head"})
	}
	return "cache-events|" + v.String()
}

// ---------- (f) client error strings through the sync submitters ----------

type errNode struct {
	client string
	err    string
}

func (n errNode) Name() string    { return "n" }
func (n errNode) Address() string { return "n:1" }
func (n errNode) IsActive() bool  { return true }
func (n errNode) IsSynced() bool  { return true }
func (n errNode) NodeVersion(context.Context, *api.NodeVersionOpts) (*api.Response[string], error) {
	return &api.Response[string]{Data: n.client, Metadata: map[string]any{}}, nil
}
func (n errNode) SubmitSyncCommitteeMessages(context.Context, []*altair.SyncCommitteeMessage) error {
	return errors.New(n.err)
}
func (n errNode) SubmitSyncCommitteeContributions(context.Context, []*altair.SignedContributionAndProof) error {
	return errors.New(n.err)
}
func (n errNode) SubmitAttestations(context.Context, []*phase0.Attestation) error {
	return errors.New(n.err)
}

var jsonTails = []string{`{`, `{}`, `{"failures":null}`, `{"failures":[null]}`, `{"failures":[{}]}`, `{"failures":[{"index":"x"}]}`, `{"failures":{"a":1}}`, `{"code":{},"failures":[null,null]}`, `[]`, `{"failures":[{"index":1,"message":null}]}`,
	`{"failures":[{"message":"Verification: PriorSyncCommitteeMessageKnown"}, null]}`, `{{{{`, "{\x00}", `{"failures":[[]]}`}

func caseErrorStrings(r *rand.Rand) string {
	n := errNode{client: []string{"Lighthouse/v5", "teku/v24", "Nimbus", "", "prysm"}[r.Intn(5)], err: "POST failed with status 400: " + jsonTails[r.Intn(len(jsonTails))]}
	s, err := multinode.New(bg, multinode.WithLogLevel(zerolog.Disabled), multinode.WithTimeout(80*time.Millisecond), multinode.WithClientMonitor(nullmetrics.New()), multinode.WithProcessConcurrency(2),
		multinode.WithProposalSubmitters(map[string]eth2client.ProposalSubmitter{"x": mock.NewProposalSubmitter()}), multinode.WithAttestationsSubmitters(map[string]eth2client.AttestationsSubmitter{"x": n}),
		multinode.WithAggregateAttestationsSubmitters(map[string]eth2client.AggregateAttestationsSubmitter{"x": mock.NewAggregateAttestationsSubmitter()}),
		multinode.WithProposalPreparationsSubmitters(map[string]eth2client.ProposalPreparationsSubmitter{"x": mock.NewProposalPreparationsSubmitter()}),
		multinode.WithBeaconCommitteeSubscriptionsSubmitters(map[string]eth2client.BeaconCommitteeSubscriptionsSubmitter{"x": mock.NewBeaconCommitteeSubscriptionsSubmitter()}),
		multinode.WithSyncCommitteeMessagesSubmitters(map[string]eth2client.SyncCommitteeMessagesSubmitter{"x": n}),
		multinode.WithSyncCommitteeSubscriptionsSubmitters(map[string]eth2client.SyncCommitteeSubscriptionsSubmitter{"x": mock.NewSyncCommitteeSubscriptionsSubmitter()}),
		multinode.WithSyncCommitteeContributionsSubmitters(map[string]eth2client.SyncCommitteeContributionsSubmitter{"x": n}))
	if err != nil {
		return "error-strings|setup-failed"
	}
	_ = s.SubmitSyncCommitteeMessages(bg, []*altair.SyncCommitteeMessage{{Slot: 1}})
	_ = s.SubmitSyncCommitteeContributions(bg, []*altair.SignedContributionAndProof{{Message: &altair.ContributionAndProof{Contribution: &altair.SyncCommitteeContribution{}}}})
	_ = s.SubmitAttestations(bg, []*phase0.Attestation{{Data: &phase0.AttestationData{Source: &phase0.Checkpoint{}, Target: &phase0.Checkpoint{}}}})
	return "error-strings|" + n.client + "|" + n.err
}

// ---------- (h) bids with missing parts ----------

type bidRelay struct {
	addr  string
	bid   *builderspec.VersionedSignedBuilderBid
	delay time.Duration
}

func (b bidRelay) Name() string              { return "r" }
func (b bidRelay) Address() string           { return b.addr }
func (b bidRelay) Pubkey() *phase0.BLSPubKey { return nil }
func (b bidRelay) BuilderBid(ctx context.Context, _ *builderapi.BuilderBidOpts) (*builderapi.Response[*builderspec.VersionedSignedBuilderBid], error) {
	if b.delay > 0 {
		select {
		case <-time.After(b.delay):
		case <-ctx.Done():
			return nil, ctx.Err()
		}
	}
	return &builderapi.Response[*builderspec.VersionedSignedBuilderBid]{Data: b.bid, Metadata: map[string]any{}}, nil
}
func (b bidRelay) UnblindProposal(context.Context, *builderapi.UnblindProposalOpts) (*builderapi.Response[*api.VersionedSignedProposal], error) {
	return nil, errors.New("no")
}

func caseOddBids(r *rand.Rand) string {
	rl := &harness.Relay{Addr: "x", SlotTS: 0}
	full := rl.BuildBid(&harness.BidSpec{Value: 5, Builder: 1, Header: 2})
	kind := r.Intn(6)
	switch kind {
	case 0:
		full = nil
	case 1:
		full = &builderspec.VersionedSignedBuilderBid{Version: spec.DataVersionDeneb} // empty
	case 2:
		full = rl.BuildBid(&harness.BidSpec{Value: 0, Builder: 1, Header: 2}) // zero value
	case 3:
		full = rl.BuildBid(&harness.BidSpec{Value: ^uint64(0), Builder: 1, Header: 2})
	case 4:
		full = rl.BuildBid(&harness.BidSpec{Value: 7, Builder: 3, Header: 2, ZeroFeeRec: true, BadTime: true})
	}
	addr := fmt.Sprintf("http://oddbid%d-%d.example.com/", kind, r.Intn(1<<30))
	// answered at once, between the soft and the hard timeout (50 and 100 ms), or too late
	delay := []time.Duration{0, 0, 70 * time.Millisecond, 75 * time.Millisecond, 130 * time.Millisecond}[r.Intn(5)]
	util.VerifSetBuilderClient(addr, bidRelay{addr, full, delay})
	clock := harness.NewVClock(12*time.Second, 32)
	clock.Genesis = time.Unix(0, 0)
	s, err := bidbest.New(bg, bidbest.WithLogLevel(zerolog.Disabled), bidbest.WithMonitor(nullmetrics.New()), bidbest.WithSpecProvider(harness.NewSpec(32, nil)), bidbest.WithDomainProvider(harness.RecDomains{}),
		bidbest.WithChainTime(clock), bidbest.WithTimeout(100*time.Millisecond), bidbest.WithReleaseVersion("verif"))
	if err != nil {
		return "odd-bids|setup-failed"
	}
	cfgs := map[phase0.BLSPubKey]*blockrelay.BuilderConfig{harness.BuilderPub(1): {Factor: big.NewInt(50)}}
	_, _ = s.BuilderBid(bg, 0, phase0.Hash32{7, 7, 7}, phase0.BLSPubKey{1}, &beaconblockproposer.ProposerConfig{Relays: []*beaconblockproposer.RelayConfig{{Address: addr, MinValue: decimal.Zero}}}, cfgs)
	return fmt.Sprintf("odd-bids|%d|%dms", kind, delay.Milliseconds())
}

// ---------- (i) the first auction after start-up: many relays answering at the same instant ----------

type gatedRelay struct {
	*harness.Relay
	gate *sync.WaitGroup
}

func (g gatedRelay) BuilderBid(ctx context.Context, o *builderapi.BuilderBidOpts) (*builderapi.Response[*builderspec.VersionedSignedBuilderBid], error) {
	g.gate.Done()
	g.gate.Wait()
	return g.Relay.BuilderBid(ctx, o)
}

var simNo atomic.Int64

func caseSimultaneousBids(r *rand.Rand) string {
	clock := harness.NewVClock(12*time.Second, 32)
	clock.Genesis = time.Unix(0, 0)
	nRelays := 6 + r.Intn(10)
	configured := r.Intn(3) == 0 // relay keys given in the configuration, or announced by the relays
	for round := 0; round < 6; round++ {
		s, err := bidbest.New(bg, bidbest.WithLogLevel(zerolog.Disabled), bidbest.WithMonitor(nullmetrics.New()), bidbest.WithSpecProvider(harness.NewSpec(32, nil)), bidbest.WithDomainProvider(harness.RecDomains{}),
			bidbest.WithChainTime(clock), bidbest.WithTimeout(2*time.Second), bidbest.WithReleaseVersion("verif"))
		if err != nil {
			return "simultaneous-bids|setup-failed"
		}
		gate := &sync.WaitGroup{}
		gate.Add(nRelays)
		pc := &beaconblockproposer.ProposerConfig{}
		tag := simNo.Add(1)
		for i := 0; i < nRelays; i++ {
			rl := &harness.Relay{Addr: fmt.Sprintf("http://sim%d-%d.example.com/", tag, i), KeyNo: i % 8, Start: time.Now(), Parent: phase0.Hash32{7, 7, 7}, HasPubkey: true}
			rl.Steps = append(rl.Steps, struct {
				At  time.Duration
				Bid *harness.BidSpec
				Err bool
			}{0, &harness.BidSpec{Value: uint64(100 + i), Builder: i % 4, Header: i % 3}, false})
			util.VerifSetBuilderClient(rl.Addr, gatedRelay{rl, gate})
			rc := &beaconblockproposer.RelayConfig{Address: rl.Addr, MinValue: decimal.Zero}
			if configured {
				pk := harness.RelayPub(i % 8)
				rc.PublicKey = &pk
			}
			pc.Relays = append(pc.Relays, rc)
		}
		_, _ = s.BuilderBid(bg, 0, phase0.Hash32{7, 7, 7}, phase0.BLSPubKey{1}, pc, map[phase0.BLSPubKey]*blockrelay.BuilderConfig{})
	}
	return fmt.Sprintf("simultaneous-bids|%d|%v", nRelays, configured)
}

type surface struct {
	name   string
	weight int
	f      func(r *rand.Rand) string
}

var surfaces = []surface{
	{"config", 40, caseConfig},
	{"relay-address", 4, caseRelayAddress},
	{"graffiti-strategy", 6, caseGraffitiStrategy},
	{"graffiti-provider", 4, caseGraffitiProvider},
	{"blinded", 4, caseBlinded},
	{"duties", 3, caseDuties},
	{"cache-events", 4, caseCacheEvents},
	{"error-strings", 4, caseErrorStrings},
	{"odd-bids", 4, caseOddBids},
	{"simultaneous-bids", 2, caseSimultaneousBids},
}

func run(c *harness.Ctx) {
	harness.InitBLS()
	n := c.N(4000, 120000)
	total := 0
	for _, s := range surfaces {
		total += s.weight
	}
	for i := 0; i < n; i++ {
		r := c.Rand("case", i)
		pick := r.Intn(total)
		var sf surface
		for _, s := range surfaces {
			if pick < s.weight {
				sf = s
				break
			}
			pick -= s.weight
		}
		id := fmt.Sprintf("%s#%d", sf.name, i)
		c.Case(id, func() {
			fp := sf.f(r)
			// canary: the process is alive and a fresh, ordinary call works
			if cfg, err := blockrelay.UnmarshalJSON([]byte(`{"version":2}`)); err != nil || cfg == nil {
				c.Violate("canary-failed", "an ordinary call failed after case "+id, id, nil)
			}
			c.Distinct(fp)
			c.Count("surface_"+sf.name, 1)
			if i < 4 {
				c.Sample(fp)
			}
		})
	}
}

func main() {
	harness.Main(&harness.Spec{
		Property:      "C16",
		Level:         "exploration",
		Rule:          "one hostile but decoder-deliverable input per case on ten surfaces: execution configs from a JSON grammar with nulls / wrong types / empty maps at every level (v2 and legacy) -> UnmarshalJSON -> ProposerConfig/Marshal; unparsable and odd relay addresses through both bid strategies; graffiti templates ({{CLIENT}} with client names of 0-40 bytes, node-client errors) through the best proposal strategy, and graffiti files (blank, CRLF, long, binary) through the dynamic provider and the proposer; blinded proposals of every version with no / failed / nil / empty auction results; duplicate, out-of-epoch, huge-index and position-beyond-committee duties through MergeDuties, the real attester and the controller; zero-valued events and blocks through the cache handlers; client error strings with arbitrary JSON tails through the submitters; bids with missing parts; first auctions with 6-15 relays delivering their bids at the same instant. Each case is journaled before it runs; a crash is attributed to it and the batch resumes after it. distinct = surface + input class",
		Batches:       func(string) int { return 8 },
		Parallel:      8,
		Run:           run,
		CrashIsResult: true,
		MinDistinct:   100,
		ChildTimeout:  func(string) time.Duration { return 120 * time.Minute },
		Assumptions:   []string{"inputs are limited to what the client libraries' decoders can deliver (mandatory pointers present)", "committee sizes up to 2^20 only (larger values are allocation requests in disguise and are not driven)", "a pre-Altair chain specification (no sync committee period) is out of scope"},
	})
}
