// C12: the block relay keeps answering whatever the config source does.
// Monitors on the real block relay service: (1) the concurrent history of config refreshes and proposer-setting
// lookups is checked with porcupine against a one-variable register model (failed/malformed/empty fetches are
// no-ops; initial value = fallback); (2) every refresh, lookup, auction and registration round returns within a
// watchdog; (3) at quiescence the configuration lock is free and one more refresh completes.
package main

import (
	"context"
	"fmt"
	"math/rand"
	"sort"
	"strings"
	"sync"
	"sync/atomic"
	"time"

	"github.com/anishathalye/porcupine"
	"github.com/attestantio/go-eth2-client/spec/phase0"
	"verif/checks/refcfg"
	"verif/checks/relaycommon"
	"verif/harness"
)

const watchdog = 6 * time.Second

type regIn struct {
	Op string // refresh | read
	ID int    // refresh: id of the valid document, -1 for a no-op outcome
}

func model() porcupine.Model {
	return porcupine.Model{
		Init: func() any { return 999 },
		Step: func(state, input, output any) (bool, any) {
			in := input.(regIn)
			if in.Op == "refresh" {
				if in.ID >= 0 {
					return true, in.ID
				}
				return true, state
			}
			return output.(int) == state.(int), state
		},
		DescribeOperation: func(input, output any) string {
			in := input.(regIn)
			if in.Op == "refresh" {
				return fmt.Sprintf("refresh(%d)", in.ID)
			}
			return fmt.Sprintf("read->%v", output)
		},
	}
}

func frID(fr [20]byte) int {
	// refcfg.FRAddr(id): bytes = id (low byte) with the first byte 0xf0|id>>8
	return int(fr[1]) | int(fr[0]&0x0f)<<8
}

// timed runs f with the watchdog; false if it did not return.
func timed(f func()) bool {
	done := make(chan struct{})
	go func() { f(); close(done) }()
	select {
	case <-done:
		return true
	case <-time.After(watchdog):
		return false
	}
}

func history(c *harness.Ctx, id string, r *rand.Rand, forced bool) {
	ctx := context.Background()
	var accts []harness.Acct
	for i := 0; i < 3; i++ {
		accts = append(accts, harness.NewAcct(harness.KindPlain, "W", fmt.Sprintf("a%d", i), 700+i, phase0.ValidatorIndex(9000+i), nil))
	}
	env, err := relaycommon.NewEnv(accts, 1, relaycommon.Outcome{Kind: "error"}, nil)
	if err != nil {
		c.Inconclusive("cannot build block relay service: " + err.Error())
		return
	}
	base := time.Now()
	var mu sync.Mutex
	var ops []porcupine.Operation
	var trace []string
	rec := func(client int, in regIn, call int64, out int) {
		mu.Lock()
		ops = append(ops, porcupine.Operation{ClientId: client, Input: in, Call: call, Output: out, Return: int64(time.Since(base))})
		mu.Unlock()
	}
	note := func(s string) { mu.Lock(); trace = append(trace, s); mu.Unlock() }
	var stuck atomic.Value // first call that did not return
	fail := func(what string) { stuck.CompareAndSwap(nil, what) }

	validDoc := func(k int, unresolvable bool) string {
		d := &refcfg.Doc2{Opts: refcfg.Opts{FR: &k}, Relays: map[string]*refcfg.Relay{env.RelayAddr(0): {}, env.RelayAddr(1): {}}}
		if k%3 == 0 {
			d.Relays["http://relay one.example.com/"] = &refcfg.Relay{} // well-formed document, relay address no client can be made for
		}
		if unresolvable {
			// validator 0 has its own entry; everybody else reaches an entry that cannot be applied
			d.Proposers = []*refcfg.Proposer{{Proposer: fmt.Sprintf("%#x", accts[0].Pub48()), KeyNo: 0}, {Proposer: fmt.Sprintf("%#x", phase0.BLSPubKey{}), KeyNo: 1}}
		}
		return d.JSON()
	}
	nextID := 1
	nRefresh := 6 + r.Intn(10)
	readers := 4 + r.Intn(5)
	if forced {
		nRefresh, readers = 4, 2
	}
	stop := make(chan struct{})
	var wg sync.WaitGroup
	classes := map[string]bool{}
	// the single refreshing goroutine (one periodic job refreshes in production)
	wg.Add(1)
	go func() {
		defer wg.Done()
		defer close(stop)
		rr := rand.New(rand.NewSource(r.Int63()))
		for k := 0; k < nRefresh && stuck.Load() == nil; k++ {
			var o relaycommon.Outcome
			in := regIn{Op: "refresh", ID: -1}
			kind := []string{"valid", "valid", "valid", "valid", "legacy-null-entry", "error", "not-found", "malformed", "empty", "nil", "unresolvable", "json-null", "json-array", "json-string", "json-empty-object", "json-version-only"}[rr.Intn(16)]
			if forced {
				kind = []string{"unresolvable", "valid", "error", "valid"}[k]
			}
			switch kind {
			case "legacy-null-entry":
				// an unversioned (legacy) document: a default entry, and null in place of validator 1's entry
				in.ID = nextID
				o = relaycommon.Outcome{Kind: "valid", Doc: fmt.Sprintf(`{"default_config":{"fee_recipient":"%s","builder":{"enabled":true,"relays":[%q]}},"proposer_config":{"%#x":null}}`, refcfg.FRHex(nextID), env.RelayAddr(0), accts[1].Pub48())}
				nextID++
			case "valid", "unresolvable":
				in.ID = nextID
				o = relaycommon.Outcome{Kind: "valid", Doc: validDoc(nextID, kind == "unresolvable")}
				nextID++
			default:
				o = relaycommon.Outcome{Kind: kind}
			}
			mu.Lock()
			classes["refresh-"+kind] = true
			mu.Unlock()
			env.Config.Set(o)
			call := int64(time.Since(base))
			if !timed(func() { env.Refresh() }) {
				fail(fmt.Sprintf("configuration refresh #%d (%s) did not return", k, kind))
				return
			}
			rec(0, in, call, 0)
			note(fmt.Sprintf("refresh(%s id %d)", kind, in.ID))
			if forced {
				// after an unresolvable document: an auction for a validator whose settings cannot be resolved
				if !timed(func() { _, _ = env.Svc.AuctionBlock(ctx, 3200, phase0.Hash32{1}, accts[1].Pub48()) }) {
					fail("auction did not return")
					return
				}
				note("auction(validator 1)")
			}
			time.Sleep(time.Duration(rr.Intn(1500)) * time.Microsecond)
		}
	}()
	for g := 1; g <= readers; g++ {
		wg.Add(1)
		go func(g int) {
			defer wg.Done()
			rr := rand.New(rand.NewSource(int64(g) * 7919))
			for stuck.Load() == nil {
				select {
				case <-stop:
					return
				default:
				}
				switch x := (g + rr.Intn(4)) % 5; x {
				case 0, 1: // proposer settings of validator 0 (always resolvable)
					call := int64(time.Since(base))
					var got int
					ok := timed(func() {
						pc, err := env.Svc.ProposerConfig(ctx, accts[0], accts[0].Pub48())
						if err != nil || pc == nil {
							got = -1
						} else {
							got = frID(pc.FeeRecipient)
						}
					})
					if !ok {
						fail("proposer-settings lookup did not return")
						return
					}
					rec(g, regIn{Op: "read"}, call, got)
				case 2: // auction for any validator (the unresolvable ones fail, and must still return)
					v := rr.Intn(3)
					if !timed(func() {
						_, _ = env.Svc.AuctionBlock(ctx, phase0.Slot(3200+rr.Intn(4)), phase0.Hash32{byte(g)}, accts[v].Pub48())
					}) {
						fail("auction did not return")
						return
					}
					mu.Lock()
					classes["auction"] = true
					mu.Unlock()
				case 3: // a beacon node asking for a bid over REST (held no auction for: an on-demand one)
					v := rr.Intn(3)
					if !timed(func() {
						_, _ = env.Svc.BuilderBid(ctx, phase0.Slot(3300+rr.Intn(2000)), phase0.Hash32{byte(g), 1}, accts[v].Pub48())
					}) {
						fail("on-demand bid request did not return")
						return
					}
					mu.Lock()
					classes["on-demand-bid"] = true
					mu.Unlock()
				default: // registration round
					if !timed(func() { env.Register() }) {
						fail("registration round did not return")
						return
					}
					mu.Lock()
					classes["registration-round"] = true
					mu.Unlock()
				}
				if rr.Intn(4) == 0 {
					time.Sleep(time.Duration(rr.Intn(300)) * time.Microsecond)
				}
			}
		}(g)
	}
	finished := timed(func() { wg.Wait() })
	mu.Lock()
	history := append([]porcupine.Operation{}, ops...)
	tr := append([]string{}, trace...)
	mu.Unlock()
	detail := map[string]any{"refreshes_and_forced_steps": tr, "readers": readers, "operations_recorded": len(history)}
	if w := stuck.Load(); w != nil || !finished {
		what := "workload goroutines did not finish"
		if w != nil {
			what = w.(string)
		}
		key := "call-never-returns"
		if forced {
			key += ":after-unresolvable-auction"
		}
		c.Violate(key, what+fmt.Sprintf(" within %v (configuration lock left held or deadlocked)", watchdog), id, detail)
		return
	}
	// quiescence: lock free, and one more refresh completes
	if !env.Svc.VerifConfigLockFree() {
		c.Violate("config-lock-held-at-quiescence", "with no call in flight the configuration lock cannot be taken: a reader or writer was left holding it", id, detail)
		return
	}
	k := nextID
	env.Config.Set(relaycommon.Outcome{Kind: "valid", Doc: validDoc(k, false)})
	call := int64(time.Since(base))
	if !timed(func() { env.Refresh() }) {
		c.Violate("final-refresh-never-returns", "a refresh after quiescence did not return", id, detail)
		return
	}
	rec(0, regIn{Op: "refresh", ID: k}, call, 0)
	call = int64(time.Since(base))
	pc, err := env.Svc.ProposerConfig(ctx, accts[0], accts[0].Pub48())
	got := -1
	if err == nil && pc != nil {
		got = frID(pc.FeeRecipient)
	}
	rec(1, regIn{Op: "read"}, call, got)
	mu.Lock()
	history = append([]porcupine.Operation{}, ops...)
	mu.Unlock()
	res, info := porcupine.CheckOperationsVerbose(model(), history, 30*time.Second)
	_ = info
	switch res {
	case porcupine.Illegal:
		sort.Slice(history, func(a, b int) bool { return history[a].Call < history[b].Call })
		var hs []string
		for _, o := range history {
			in := o.Input.(regIn)
			if in.Op == "refresh" {
				hs = append(hs, fmt.Sprintf("c%d refresh(%d) [%d,%d]", o.ClientId, in.ID, o.Call, o.Return))
			} else {
				hs = append(hs, fmt.Sprintf("c%d read->%v [%d,%d]", o.ClientId, o.Output, o.Call, o.Return))
			}
		}
		if len(hs) > 400 {
			hs = hs[:400]
		}
		detail["history"] = hs
		c.Violate("config-register-not-linearizable", "proposer-setting lookups are not those of the last successfully obtained configuration in any order consistent with real time", id, detail)
	case porcupine.Unknown:
		c.Inconclusive("porcupine timed out on " + id)
	}
	c.Count("register_operations_checked", int64(len(history)))
	mu.Lock()
	var ks []string
	for k := range classes {
		ks = append(ks, k)
	}
	mu.Unlock()
	sort.Strings(ks)
	if len(ks) >= 4 {
		c.Distinct(fmt.Sprintf("%v|%s|r%d", forced, strings.Join(ks, ","), readers))
	}
}

// slowSource: the configuration source takes its time (or hangs) over a refresh. Lookups, auctions and registration
// rounds arriving meanwhile are answered from the last configuration obtained.
func slowSource(c *harness.Ctx, id string, r *rand.Rand) {
	ctx := context.Background()
	var accts []harness.Acct
	for i := 0; i < 3; i++ {
		accts = append(accts, harness.NewAcct(harness.KindPlain, "W", fmt.Sprintf("s%d", i), 700+i, phase0.ValidatorIndex(9000+i), nil))
	}
	env, err := relaycommon.NewEnv(accts, 1, relaycommon.Outcome{Kind: "error"}, nil)
	if err != nil {
		c.Inconclusive("cannot build block relay service: " + err.Error())
		return
	}
	k := 1 + r.Intn(200)
	doc := func(k int) string {
		return (&refcfg.Doc2{Opts: refcfg.Opts{FR: &k}, Relays: map[string]*refcfg.Relay{env.RelayAddr(0): {}, env.RelayAddr(1): {}}}).JSON()
	}
	env.Config.Set(relaycommon.Outcome{Kind: "valid", Doc: doc(k)})
	env.Refresh()
	gate := make(chan struct{})
	var arrived atomic.Int64
	env.Config.SetHold(func(ctx context.Context) {
		arrived.Add(1)
		select {
		case <-gate:
		case <-ctx.Done():
		}
	})
	next := []relaycommon.Outcome{{Kind: "valid", Doc: doc(k + 1)}, {Kind: "error"}, {Kind: "not-found"}}[r.Intn(3)]
	env.Config.Set(next)
	refreshDone := make(chan struct{})
	go func() { env.Refresh(); close(refreshDone) }()
	for i := 0; i < 5000 && arrived.Load() == 0; i++ {
		time.Sleep(time.Millisecond)
	}
	if arrived.Load() == 0 {
		c.Inconclusive(id + ": the refresh never reached the configuration source")
		close(gate)
		return
	}
	// the refresh is now waiting for its source
	detail := map[string]any{"refresh_in_flight_outcome": next.Kind}
	calls := []struct {
		name string
		f    func() int
	}{
		{"proposer-settings lookup", func() int {
			pc, err := env.Svc.ProposerConfig(ctx, accts[0], accts[0].Pub48())
			if err != nil || pc == nil {
				return -1
			}
			return frID(pc.FeeRecipient)
		}},
		{"auction", func() int { _, _ = env.Svc.AuctionBlock(ctx, 3200, phase0.Hash32{1}, accts[1].Pub48()); return k }},
		{"registration round", func() int { env.Register(); return k }},
	}
	for _, cl := range calls {
		got := 0
		if !timed(func() { got = cl.f() }) {
			c.Violate("call-never-returns:while-config-source-is-slow", fmt.Sprintf("a %s made while a configuration refresh was waiting for its source did not return within %v", cl.name, watchdog), id, detail)
			close(gate)
			return
		}
		if got != k {
			c.Violate("lookup-not-from-last-configuration:while-config-source-is-slow", fmt.Sprintf("a %s made while a refresh was waiting for its source answered with configuration %d; the last one obtained is %d", cl.name, got, k), id, detail)
		}
	}
	close(gate)
	select {
	case <-refreshDone:
	case <-time.After(watchdog):
		c.Violate("call-never-returns:refresh-after-slow-source", "the refresh did not return after its source had answered", id, detail)
		return
	}
	env.Config.SetHold(nil)
	want := k
	if next.Kind == "valid" {
		want = k + 1
	}
	if pc, err := env.Svc.ProposerConfig(ctx, accts[0], accts[0].Pub48()); err != nil || pc == nil || frID(pc.FeeRecipient) != want {
		c.Violate("lookup-not-from-last-configuration:after-slow-source", fmt.Sprintf("after a refresh ending in %q the lookup does not answer with configuration %d", next.Kind, want), id, detail)
	}
	c.Count("slow_source_cases", 1)
	c.Distinct("slow-source|" + next.Kind)
}

func run(c *harness.Ctx) {
	harness.InitBLS()
	for i := 0; i < 4; i++ {
		harness.Keys.Key(700 + i)
	}
	n := c.N(400, 8000)
	var wg sync.WaitGroup
	sem := make(chan struct{}, 1) // one service instance at a time: construction touches package-level state (loggers, gin mode)
	for i := 0; i < n; i++ {
		id := fmt.Sprintf("hist%d", i)
		c.Case(id, func() {
			wg.Add(1)
			sem <- struct{}{}
			go func() {
				defer wg.Done()
				defer func() { <-sem }()
				history(c, id, c.Rand("hist", i), i%10 == 0)
			}()
		})
	}
	wg.Wait()
	ns := c.N(24, 600)
	for i := 0; i < ns; i++ {
		id := fmt.Sprintf("slow%d", i)
		c.Case(id, func() { slowSource(c, id, c.Rand("slow", i)) })
	}
}

func main() {
	harness.Main(&harness.Spec{
		Property:     "C12",
		Level:        "fault_enumeration",
		Rule:         "histories with one refreshing goroutine stepping through fetch outcomes {valid (unique id in the fee recipient), error, not found, malformed, empty, nil, JSON null / array / string / empty object / unknown version, valid-but-unresolvable-for-some-validators} while 4-8 goroutines issue proposer-setting lookups, auctions (for resolvable and unresolvable validators) and registration rounds; every tenth history is the forced sequence [unresolvable document, auction for an unresolvable validator, valid document, ...]; porcupine check of the refresh/lookup history against a register, per-call watchdog, lock probe and final refresh at quiescence; plus refreshes held at a slow source while a lookup, an auction and a registration round are made (they must return, from the last configuration obtained). distinct = (forced, set of outcome/operation classes seen, readers); non-trivial = >=4 classes",
		Batches:      func(string) int { return 8 },
		Parallel:     8,
		Run:          run,
		MinDistinct:  10,
		ChildTimeout: func(string) time.Duration { return 40 * time.Minute },
		Assumptions:  []string{"a single goroutine refreshes, as in production (one periodic job)", "lookups recorded for the register are those of a validator whose settings every generated document resolves", "a call that does not return within 6 s (normal: microseconds) is reported as never returning"},
	})
}
