// C08: a submission reaches every configured node and succeeds iff one accepts.
// Monitor: the real multinode submitter (8 submission kinds) and the immediate submitter over scripted, recording
// beacon nodes; fault matrix of per-node behaviours; oracle = delivery cover + success table (DESIGN.md A.5).
package main

import (
	"context"
	"errors"
	"fmt"
	"sort"
	"strings"
	"sync"
	"time"

	eth2client "github.com/attestantio/go-eth2-client"
	"github.com/attestantio/go-eth2-client/api"
	apiv1 "github.com/attestantio/go-eth2-client/api/v1"
	"github.com/attestantio/go-eth2-client/spec"
	"github.com/attestantio/go-eth2-client/spec/altair"
	"github.com/attestantio/go-eth2-client/spec/capella"
	"github.com/attestantio/go-eth2-client/spec/phase0"
	nullmetrics "github.com/attestantio/vouch/services/metrics/null"
	"github.com/attestantio/vouch/services/submitter/immediate"
	"github.com/attestantio/vouch/services/submitter/multinode"
	"github.com/rs/zerolog"
	"verif/harness"
)

const (
	timeout = 600 * time.Millisecond
	slowIn  = 150 * time.Millisecond
	slowOut = 1000 * time.Millisecond
	hangFor = 1400 * time.Millisecond
	slack   = 700 * time.Millisecond
	// callerGoneAfter: when the caller's own context ends (slot over, shutdown) in the cases that model it
	callerGoneAfter = 300 * time.Millisecond
)

var kinds = []string{"attestations", "proposal", "aggregates", "sync-messages", "contributions", "beacon-subscriptions", "sync-subscriptions", "preparations"}

// atom is one node behaviour.
type atom struct {
	Name    string
	Client  string // node version string
	Delay   time.Duration
	Hang    bool
	Err     string // "" = accept
	Accepts bool   // effective acceptance per the statement (accepted, or rejected only for a tolerated reason from that client)
	// FirstFast: the first request (chunk) is answered at once, the later ones after Delay
	FirstFast bool
	// VersionHangs: the node does not answer the version query (it accepts what it is sent)
	VersionHangs bool
}

func generic() []atom {
	return []atom{
		{Name: "accept", Client: "teku", Accepts: true},
		{Name: "accept-slow-inside", Client: "Lighthouse/v5", Delay: slowIn, Accepts: true},
		{Name: "accept-slow-outside", Client: "prysm", Delay: slowOut, Accepts: true},
		{Name: "hang", Client: "lodestar", Hang: true, Accepts: true},
		{Name: "reject-plain", Client: "nimbus", Err: "POST failed with status 400: connection reset"},
		{Name: "reject-json", Client: "Lighthouse/v5", Err: `POST failed with status 400: {"code":400,"message":"BAD_REQUEST: invalid","failures":[{"index":0,"message":"Verification: InvalidSignature"}]}`},
		{Name: "reject-slow-inside", Client: "teku", Delay: slowIn, Err: "POST failed with status 500: internal"},
		{Name: "accept-but-version-query-hangs", Client: "teku", VersionHangs: true, Accepts: true},
	}
}

func atomsFor(kind string) []atom {
	as := generic()
	lhFail := func(msgs ...string) string {
		var fs []string
		for i, m := range msgs {
			fs = append(fs, fmt.Sprintf(`{"index":%d,"message":%q}`, i, m))
		}
		return `POST failed with status 400: {"code":400,"message":"BAD_REQUEST: Error processing","failures":[` + strings.Join(fs, ",") + `]}`
	}
	tekuFail := func(msgs ...string) string {
		var fs []string
		for i, m := range msgs {
			fs = append(fs, fmt.Sprintf(`{"index":"%d","message":%q}`, i, m))
		}
		return `POST failed with status 400: {"code":"400","message":"Some items failed","failures":[` + strings.Join(fs, ",") + `]}`
	}
	malformed := func(client string) []atom {
		return []atom{
			{Name: "malformed-empty-failures:" + client, Client: client, Err: `POST failed with status 400: {"code":400,"message":"BAD_REQUEST","failures":[]}`},
			{Name: "malformed-no-failures:" + client, Client: client, Err: `POST failed with status 500: {"code":500,"message":"UNHANDLED_ERROR: something broke"}`},
			{Name: "malformed-null-failure:" + client, Client: client, Err: `POST failed with status 400: {"code":400,"message":"x","failures":[null]}`},
			{Name: "malformed-wrong-type:" + client, Client: client, Err: `POST failed with status 400: {"code":400,"message":"x","failures":"oops"}`},
			{Name: "malformed-truncated:" + client, Client: client, Err: `POST failed with status 400: {"code":400,"message":"x","fail`},
			{Name: "malformed-null-failures:" + client, Client: client, Err: `POST failed with status 400: {"code":400,"message":"x","failures":null}`},
		}
	}
	switch kind {
	case "attestations":
		as = append(as,
			atom{Name: "tolerated-lh-prior-known", Client: "Lighthouse/v5.1", Err: "POST failed with status 400: PriorAttestationKnown", Accepts: true},
			atom{Name: "tolerated-lh-unknown-head", Client: "Lighthouse/v5.1", Err: "POST failed with status 400: UnknownHeadBlock { beacon_block_root: 0x12 }", Accepts: true},
			atom{Name: "tolerated-nimbus-unknown-target", Client: "Nimbus/v24", Err: "POST failed with status 400: Attempt to send attestation for unknown target", Accepts: true},
			atom{Name: "tolerated-lh-prior-known-first-chunk-at-once-others-later", Client: "Lighthouse/v5.1", Delay: slowIn, FirstFast: true, Err: "POST failed with status 400: PriorAttestationKnown", Accepts: true},
			atom{Name: "prior-known-from-teku", Client: "teku/v24", Err: "POST failed with status 400: PriorAttestationKnown"},
			atom{Name: "unknown-target-from-lighthouse", Client: "Lighthouse/v5", Err: "POST failed with status 400: Attempt to send attestation for unknown target"},
		)
	case "sync-messages":
		dup := "Verification: PriorSyncCommitteeMessageKnown { validator_index: 1, slot: Slot(2) }"
		tdup := "Ignoring sync committee message as a duplicate was processed during validation"
		as = append(as,
			atom{Name: "tolerated-lh-duplicates", Client: "Lighthouse/v5.1", Err: lhFail(dup, dup), Accepts: true},
			atom{Name: "tolerated-teku-duplicates", Client: "teku/v24", Err: tekuFail(tdup), Accepts: true},
			atom{Name: "lh-duplicate-plus-real", Client: "Lighthouse/v5.1", Err: lhFail(dup, "Verification: InvalidSignature")},
			atom{Name: "teku-duplicate-plus-real", Client: "teku/v24", Err: tekuFail(tdup, "Invalid signature")},
			atom{Name: "lh-duplicates-from-prysm", Client: "Prysm/v5", Err: lhFail(dup)},
		)
		as = append(as, malformed("Lighthouse/v5.1")...)
		as = append(as, malformed("teku/v24")...)
	case "contributions":
		known := "Verification: AggregatorAlreadyKnown(3)"
		as = append(as,
			atom{Name: "tolerated-lh-aggregator-known", Client: "Lighthouse/v5.1", Err: lhFail(known), Accepts: true},
			atom{Name: "lh-known-plus-real", Client: "Lighthouse/v5.1", Err: lhFail(known, "Verification: InvalidSignature")},
			atom{Name: "lh-known-from-teku", Client: "teku/v24", Err: lhFail(known)},
		)
		as = append(as, malformed("Lighthouse/v5.1")...)
	}
	return as
}

// node is a scripted beacon node implementing every submitter interface.
type node struct {
	name  string
	a     atom
	mu    sync.Mutex
	items []int // payload item indices received, in arrival order
	calls int
	index func(any) int
}

func (n *node) Address() string { return n.name }
func (n *node) Name() string    { return n.name }
func (n *node) IsActive() bool  { return true }
func (n *node) IsSynced() bool  { return true }
func (n *node) NodeVersion(ctx context.Context, _ *api.NodeVersionOpts) (*api.Response[string], error) {
	if n.a.VersionHangs {
		select {
		case <-time.After(hangFor):
		case <-ctx.Done():
		}
		return nil, errors.New("version query timed out")
	}
	return &api.Response[string]{Data: n.a.Client, Metadata: map[string]any{}}, nil
}

func (n *node) receive(ctx context.Context, payload []any) error {
	n.mu.Lock()
	n.calls++
	first := n.calls == 1
	for _, p := range payload {
		n.items = append(n.items, n.index(p))
	}
	n.mu.Unlock()
	if n.a.Hang {
		time.Sleep(hangFor) // ignores ctx
	} else if n.a.Delay > 0 && !(n.a.FirstFast && first) {
		select {
		case <-time.After(n.a.Delay):
		case <-ctx.Done():
			return ctx.Err()
		}
	}
	if n.a.Err != "" {
		return errors.New(n.a.Err)
	}
	return nil
}

func anys[T any](in []T) []any {
	out := make([]any, len(in))
	for i := range in {
		out[i] = in[i]
	}
	return out
}

func (n *node) SubmitAttestations(ctx context.Context, v []*phase0.Attestation) error {
	return n.receive(ctx, anys(v))
}
func (n *node) SubmitProposal(ctx context.Context, o *api.SubmitProposalOpts) error {
	return n.receive(ctx, []any{o.Proposal})
}
func (n *node) SubmitAggregateAttestations(ctx context.Context, v []*phase0.SignedAggregateAndProof) error {
	return n.receive(ctx, anys(v))
}
func (n *node) SubmitSyncCommitteeMessages(ctx context.Context, v []*altair.SyncCommitteeMessage) error {
	return n.receive(ctx, anys(v))
}
func (n *node) SubmitSyncCommitteeContributions(ctx context.Context, v []*altair.SignedContributionAndProof) error {
	return n.receive(ctx, anys(v))
}
func (n *node) SubmitBeaconCommitteeSubscriptions(ctx context.Context, v []*apiv1.BeaconCommitteeSubscription) error {
	return n.receive(ctx, anys(v))
}
func (n *node) SubmitSyncCommitteeSubscriptions(ctx context.Context, v []*apiv1.SyncCommitteeSubscription) error {
	return n.receive(ctx, anys(v))
}
func (n *node) SubmitProposalPreparations(ctx context.Context, v []*apiv1.ProposalPreparation) error {
	return n.receive(ctx, anys(v))
}

var _ eth2client.Service = (*node)(nil)

type fcase struct {
	Kind        string   `json:"kind"`
	Nodes       []string `json:"node_behaviours"`
	Size        int      `json:"payload_size"`
	Concurrency int64    `json:"process_concurrency"`
	Immediate   bool     `json:"immediate_submitter,omitempty"`
	Repeat      int      `json:"sequential_submissions_on_one_service,omitempty"`
	CallerGone  bool     `json:"callers_context_ends_after_300ms,omitempty"`
}

func runCase(c *harness.Ctx, id string, fc fcase, atoms []atom) {
	ctx := context.Background()
	callCtx := ctx // the context of each submission call
	ptrIndex := map[any]int{}
	var pmu sync.Mutex
	index := func(p any) int {
		pmu.Lock()
		defer pmu.Unlock()
		if i, ok := ptrIndex[p]; ok {
			return i
		}
		return -1
	}
	nodes := make([]*node, len(atoms))
	for i, a := range atoms {
		nodes[i] = &node{name: fmt.Sprintf("node%d:5052", i), a: a, index: index}
	}
	// payloads
	n := fc.Size
	atts := make([]*phase0.Attestation, n)
	aggs := make([]*phase0.SignedAggregateAndProof, n)
	msgs := make([]*altair.SyncCommitteeMessage, n)
	cons := make([]*altair.SignedContributionAndProof, n)
	bsubs := make([]*apiv1.BeaconCommitteeSubscription, n)
	ssubs := make([]*apiv1.SyncCommitteeSubscription, n)
	preps := make([]*apiv1.ProposalPreparation, n)
	for i := 0; i < n; i++ {
		atts[i] = &phase0.Attestation{Data: &phase0.AttestationData{Slot: 5, Index: phase0.CommitteeIndex(i), Source: &phase0.Checkpoint{}, Target: &phase0.Checkpoint{}}}
		aggs[i] = &phase0.SignedAggregateAndProof{Message: &phase0.AggregateAndProof{AggregatorIndex: phase0.ValidatorIndex(i), Aggregate: atts[i]}}
		msgs[i] = &altair.SyncCommitteeMessage{Slot: 5, ValidatorIndex: phase0.ValidatorIndex(i)}
		cons[i] = &altair.SignedContributionAndProof{Message: &altair.ContributionAndProof{AggregatorIndex: phase0.ValidatorIndex(i), Contribution: &altair.SyncCommitteeContribution{Slot: 5}}}
		bsubs[i] = &apiv1.BeaconCommitteeSubscription{ValidatorIndex: phase0.ValidatorIndex(i), Slot: 5}
		ssubs[i] = &apiv1.SyncCommitteeSubscription{ValidatorIndex: phase0.ValidatorIndex(i)}
		preps[i] = &apiv1.ProposalPreparation{ValidatorIndex: phase0.ValidatorIndex(i)}
	}
	proposal := &api.VersionedSignedProposal{Version: spec.DataVersionCapella, Capella: &capella.SignedBeaconBlock{Message: &capella.BeaconBlock{Slot: 5, Body: &capella.BeaconBlockBody{ETH1Data: &phase0.ETH1Data{}}}}}
	var payload []any
	switch fc.Kind {
	case "attestations":
		payload = anys(atts)
	case "proposal":
		payload = []any{proposal}
	case "aggregates":
		payload = anys(aggs)
	case "sync-messages":
		payload = anys(msgs)
	case "contributions":
		payload = anys(cons)
	case "beacon-subscriptions":
		payload = anys(bsubs)
	case "sync-subscriptions":
		payload = anys(ssubs)
	case "preparations":
		payload = anys(preps)
	}
	for i, p := range payload {
		ptrIndex[p] = i
	}

	var submit func() error
	if fc.Immediate {
		nd := nodes[0]
		s, err := immediate.New(ctx, immediate.WithLogLevel(zerolog.Disabled), immediate.WithClientMonitor(nullmetrics.New()),
			immediate.WithProposalSubmitter(nd), immediate.WithAttestationsSubmitter(nd), immediate.WithSyncCommitteeMessagesSubmitter(nd),
			immediate.WithSyncCommitteeSubscriptionsSubmitter(nd), immediate.WithSyncCommitteeContributionsSubmitter(nd),
			immediate.WithBeaconCommitteeSubscriptionsSubmitter(nd), immediate.WithAggregateAttestationsSubmitter(nd), immediate.WithProposalPreparationsSubmitter(nd))
		if err != nil {
			c.Inconclusive("immediate.New: " + err.Error())
			return
		}
		submit = func() error {
			switch fc.Kind {
			case "attestations":
				return s.SubmitAttestations(callCtx, atts)
			case "proposal":
				return s.SubmitProposal(callCtx, proposal)
			case "aggregates":
				return s.SubmitAggregateAttestations(callCtx, aggs)
			case "sync-messages":
				return s.SubmitSyncCommitteeMessages(callCtx, msgs)
			case "contributions":
				return s.SubmitSyncCommitteeContributions(callCtx, cons)
			case "beacon-subscriptions":
				return s.SubmitBeaconCommitteeSubscriptions(callCtx, bsubs)
			case "sync-subscriptions":
				return s.SubmitSyncCommitteeSubscriptions(callCtx, ssubs)
			default:
				return s.SubmitProposalPreparations(callCtx, preps)
			}
		}
	} else {
		mp := map[string]eth2client.ProposalSubmitter{}
		ma := map[string]eth2client.AttestationsSubmitter{}
		mg := map[string]eth2client.AggregateAttestationsSubmitter{}
		mpp := map[string]eth2client.ProposalPreparationsSubmitter{}
		mb := map[string]eth2client.BeaconCommitteeSubscriptionsSubmitter{}
		mm := map[string]eth2client.SyncCommitteeMessagesSubmitter{}
		ms := map[string]eth2client.SyncCommitteeSubscriptionsSubmitter{}
		mc := map[string]eth2client.SyncCommitteeContributionsSubmitter{}
		for _, nd := range nodes {
			mp[nd.name], ma[nd.name], mg[nd.name], mpp[nd.name], mb[nd.name], mm[nd.name], ms[nd.name], mc[nd.name] = nd, nd, nd, nd, nd, nd, nd, nd
		}
		s, err := multinode.New(callCtx, multinode.WithLogLevel(zerolog.Disabled), multinode.WithTimeout(timeout), multinode.WithClientMonitor(nullmetrics.New()),
			multinode.WithProcessConcurrency(fc.Concurrency), multinode.WithProposalSubmitters(mp), multinode.WithAttestationsSubmitters(ma),
			multinode.WithAggregateAttestationsSubmitters(mg), multinode.WithProposalPreparationsSubmitters(mpp), multinode.WithBeaconCommitteeSubscriptionsSubmitters(mb),
			multinode.WithSyncCommitteeMessagesSubmitters(mm), multinode.WithSyncCommitteeSubscriptionsSubmitters(ms), multinode.WithSyncCommitteeContributionsSubmitters(mc))
		if err != nil {
			c.Inconclusive("multinode.New: " + err.Error())
			return
		}
		submit = func() error {
			switch fc.Kind {
			case "attestations":
				return s.SubmitAttestations(callCtx, atts)
			case "proposal":
				return s.SubmitProposal(callCtx, proposal)
			case "aggregates":
				return s.SubmitAggregateAttestations(callCtx, aggs)
			case "sync-messages":
				return s.SubmitSyncCommitteeMessages(callCtx, msgs)
			case "contributions":
				return s.SubmitSyncCommitteeContributions(callCtx, cons)
			case "beacon-subscriptions":
				return s.SubmitBeaconCommitteeSubscriptions(callCtx, bsubs)
			case "sync-subscriptions":
				return s.SubmitSyncCommitteeSubscriptions(callCtx, ssubs)
			default:
				return s.SubmitProposalPreparations(callCtx, preps)
			}
		}
	}

	repeat := fc.Repeat
	if repeat < 1 {
		repeat = 1
	}
	for rep := 0; rep < repeat; rep++ {
		callCtx = context.Background()
		if fc.CallerGone {
			var cancelCall context.CancelFunc
			callCtx, cancelCall = context.WithTimeout(context.Background(), callerGoneAfter)
			defer cancelCall()
		}
		start := time.Now()
		done := make(chan error, 1)
		go func() { done <- submit() }()
		var err error
		returned := true
		select {
		case err = <-done:
		case <-time.After(10 * time.Second):
			returned = false
		}
		took := time.Since(start)
		if returned && harness.MaxStallSince(start) > 150*time.Millisecond {
			c.Count("submissions_not_judged_process_stalled", 1) // starved of CPU: the measured times say nothing
			continue
		}
		detail := map[string]any{"case": fc, "submission_no": rep, "returned_error": fmt.Sprint(err), "took_ms": took.Milliseconds(), "timeout_ms": timeout.Milliseconds()}
		if !returned {
			c.Violate("submission-never-returns:"+fc.Kind, "submission did not return within 10 s (timeout 0.6 s)", id, detail)
			return
		}
		// expected result
		expectOK := false
		ambiguous := false // a node that accepts but does not answer the version query counts or not, depending on whether the submitter asks before or after
		for _, a := range atoms {
			if a.VersionHangs {
				ambiguous = true
				continue
			}
			inTime := !a.Hang && a.Delay < timeout
			if fc.CallerGone {
				inTime = !a.Hang && a.Delay < callerGoneAfter-100*time.Millisecond
			}
			if a.Accepts && inTime {
				expectOK = true
			}
		}
		if fc.Immediate {
			a := atoms[0]
			if a.Err == "" {
				if err != nil {
					c.Violate("immediate-accepted-but-error:"+fc.Kind, "the only node accepted but the submission failed: "+err.Error(), id, detail)
				}
			} else if !a.Accepts && err == nil {
				c.Violate("immediate-rejected-but-success:"+fc.Kind, "the only node rejected but the submission succeeded", id, detail)
			}
		} else {
			if ambiguous && !expectOK {
				c.Count("success_not_judged_version_query_hangs", 1)
			} else if expectOK && err != nil {
				c.Violate("accepted-but-failure:"+fc.Kind, "a node accepted (or rejected only for a tolerated reason) in time but the submission failed: "+err.Error(), id, detail)
			}
			if !expectOK && err == nil && !ambiguous {
				cls := ""
				for _, a := range atoms {
					if strings.HasPrefix(a.Name, "malformed") {
						cls = ":" + strings.Split(a.Name, ":")[0]
					}
				}
				c.Violate("no-acceptance-but-success:"+fc.Kind+cls, "no node accepted in time, yet the submission reported success", id, detail)
			}
			if took > timeout+slack {
				c.Violate("returned-after-timeout:"+fc.Kind, fmt.Sprintf("returned after %v, timeout is %v", took, timeout), id, detail)
			}
		}
	}
	if fc.CallerGone {
		return // what is still offered after the caller has gone is not judged
	}
	// delivery: every node received every item exactly once (wait for stragglers behind slow nodes)
	deadline := time.Now().Add(3 * time.Second)
	for {
		complete := true
		for _, nd := range nodes {
			nd.mu.Lock()
			if len(nd.items) < len(payload)*repeat {
				complete = false
			}
			nd.mu.Unlock()
		}
		if complete || time.Now().After(deadline) {
			break
		}
		time.Sleep(5 * time.Millisecond)
	}
	for i, nd := range nodes {
		nd.mu.Lock()
		items := append([]int{}, nd.items...)
		calls := nd.calls
		nd.mu.Unlock()
		sort.Ints(items)
		ok := len(items) == len(payload)*repeat
		for k := 0; ok && k < len(items); k++ {
			ok = items[k] == k/repeat
		}
		if !ok {
			detail := map[string]any{"case": fc}
			detail["node"] = i
			detail["received_items"] = fmt.Sprint(items)
			detail["calls"] = calls
			what := fmt.Sprintf("node %d (%s) received %d of %d payload items (each exactly once per submission expected)", i, atoms[i].Name, len(items), len(payload)*repeat)
			c.Violate("delivery-incomplete:"+fc.Kind, what, id, detail)
		}
		c.Count("node_deliveries_checked", 1)
		if calls > 1 {
			c.Count("deliveries_in_chunks", 1)
		}
	}
}

func run(c *harness.Ctx) {
	harness.StartStallMonitor()
	var cases []struct {
		id    string
		fc    fcase
		atoms []atom
	}
	r := c.Rand("matrix")
	sizes := func() int { return []int{1, 2, 3, 5, 8, 16, 33, 64}[r.Intn(8)] }
	conc := func(n int) int64 { return int64([]int{n, n + 1, 8, 16}[r.Intn(4)]) }
	add := func(kind string, atoms []atom, imm bool) {
		var names []string
		for _, a := range atoms {
			names = append(names, a.Name)
		}
		fc := fcase{Kind: kind, Nodes: names, Size: sizes(), Concurrency: conc(len(atoms)), Immediate: imm}
		if kind == "proposal" {
			fc.Size = 1
		}
		cases = append(cases, struct {
			id    string
			fc    fcase
			atoms []atom
		}{fmt.Sprintf("%s/%s", kind, strings.Join(names, "+")), fc, atoms})
	}
	rej := atom{Name: "reject-plain", Client: "nimbus", Err: "POST failed with status 400: connection reset"}
	for _, kind := range kinds {
		as := atomsFor(kind)
		for _, a := range as {
			add(kind, []atom{a, rej, rej}, false) // singles
			add(kind, []atom{a}, true)            // immediate submitter
		}
		for _, a := range as {
			for _, b := range as {
				add(kind, []atom{a, b, rej}, false) // pairs
			}
		}
	}
	// histories: several submissions on one service instance while one node hangs (its goroutines outlive the calls)
	for _, kind := range kinds {
		hang := atom{Name: "hang", Client: "lodestar", Hang: true, Accepts: true}
		acc := atom{Name: "accept", Client: "teku", Accepts: true}
		for _, nodesSet := range [][]atom{{hang, acc}, {hang, hang, acc}, {acc, rej, hang}} {
			add(kind, nodesSet, false)
			cs := &cases[len(cases)-1]
			cs.fc.Repeat = 6
			cs.fc.Concurrency = int64(len(nodesSet))
			cs.id = "history/" + cs.id
		}
	}
	// the caller's context ends before the timeout: the call still returns, and succeeds iff a node had accepted by then
	for _, kind := range kinds {
		hang := atom{Name: "hang", Client: "lodestar", Hang: true, Accepts: true}
		acc := atom{Name: "accept", Client: "teku", Accepts: true}
		late := atom{Name: "accept-slow-outside", Client: "prysm", Delay: slowOut, Accepts: true}
		for _, nodesSet := range [][]atom{{hang, late}, {late, late, rej}, {hang, acc}, {rej, rej}, {late}} {
			add(kind, nodesSet, false)
			cs := &cases[len(cases)-1]
			cs.fc.CallerGone = true
			cs.id = "caller-gone/" + cs.id
		}
	}
	if !c.Quick() {
		// random 4-6 node assignments
		for i := 0; i < 6000; i++ {
			kind := kinds[r.Intn(len(kinds))]
			as := atomsFor(kind)
			n := 4 + r.Intn(3)
			var pick []atom
			for k := 0; k < n; k++ {
				pick = append(pick, as[r.Intn(len(as))])
			}
			add(kind, pick, false)
			cases[len(cases)-1].id = fmt.Sprintf("rand%d/%s", i, cases[len(cases)-1].id)
		}
	}
	// split across batches
	var wg sync.WaitGroup
	sem := make(chan struct{}, 48)
	for i, cs := range cases {
		if i%c.NBatches != c.Batch {
			continue
		}
		cs := cs
		c.Case(cs.id, func() {
			wg.Add(1)
			sem <- struct{}{}
			go func() {
				defer wg.Done()
				defer func() { <-sem }()
				runCase(c, cs.id, cs.fc, cs.atoms)
				c.Distinct(cs.id)
				if i < 3 {
					c.Sample(cs.fc)
				}
			}()
		})
	}
	wg.Wait()
}

func main() {
	harness.Main(&harness.Spec{
		Property:     "C08",
		Level:        "fault_enumeration",
		Rule:         "enumerated fault matrix: for each of the 8 submission kinds every single and every ordered pair of node behaviours on 3 nodes (third node rejects), behaviours = accept, accept slowly inside/outside the timeout, hang ignoring the context, plain/JSON rejections, client-specific tolerated rejections and the same strings from the wrong client, and malformed error bodies (empty/missing/null/ill-typed/truncated failures) for sync messages and contributions; each behaviour also against the immediate submitter; payload sizes 1-64 with process concurrency >= nodes (chunked delivery); thorough adds random 4-6 node assignments. distinct = (kind, behaviour assignment)",
		Batches:      func(string) int { return 4 },
		Parallel:     4,
		Run:          run,
		MinDistinct:  100,
		ChildTimeout: func(tier string) time.Duration { return 30 * time.Minute },
		Assumptions:  []string{"timeout 0.6 s; scripted latencies 0, 0.15 s, 1.0 s, hang 1.4 s: every latency is >= 400 ms away from the deadline; the only upper bound checked is return <= timeout + 0.7 s", "process concurrency >= number of nodes (the statement's proviso)", "within one node all chunks behave alike"},
	})
}
