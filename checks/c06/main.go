// C06: every signature is over the consensus-spec signing root for that duty and key.
// Monitor: the real signer/standard service over harness accounts holding real BLS keys; every returned
// signature is verified against an independently merkleised signing root (harness/refsign.go) with the
// domain of the expected (type, epoch). One long-lived signer per batch, requests issued concurrently.
package main

import (
	"context"
	"errors"
	"fmt"
	"math/rand"
	"strings"
	"sync"

	builderapi "github.com/attestantio/go-builder-client/api"
	builderv1 "github.com/attestantio/go-builder-client/api/v1"
	builderspec "github.com/attestantio/go-builder-client/spec"
	"github.com/attestantio/go-eth2-client/spec/altair"
	"github.com/attestantio/go-eth2-client/spec/bellatrix"
	"github.com/attestantio/go-eth2-client/spec/phase0"
	nullmetrics "github.com/attestantio/vouch/services/metrics/null"
	signer "github.com/attestantio/vouch/services/signer/standard"
	"github.com/prysmaticlabs/go-bitfield"
	"github.com/rs/zerolog"
	e2wtypes "github.com/wealdtech/go-eth2-wallet-types/v2"
	"time"
	"verif/harness"
)

var kinds = []string{"attestation", "attestations", "proposal", "randao", "slot-selections", "sync-selections", "aggregate-and-proof", "sync-roots", "contributions", "registration"}

func rnd32(r *rand.Rand) (out phase0.Root) { r.Read(out[:]); return }

func dom(name string, epoch uint64) phase0.Domain {
	return harness.DomainFor(harness.DomainTypes[name], epoch, false)
}

// flakyDomains is a domain provider whose genesis-domain or per-epoch lookups fail.
type flakyDomains struct {
	harness.RecDomains
	failGenesis, failEpoch bool
}

func (f flakyDomains) Domain(ctx context.Context, t phase0.DomainType, e phase0.Epoch) (phase0.Domain, error) {
	if f.failEpoch {
		return phase0.Domain{}, errors.New("scripted domain failure")
	}
	return f.RecDomains.Domain(ctx, t, e)
}

func (f flakyDomains) GenesisDomain(ctx context.Context, t phase0.DomainType) (phase0.Domain, error) {
	if f.failGenesis {
		return phase0.Domain{}, errors.New("scripted genesis domain failure")
	}
	return f.RecDomains.GenesisDomain(ctx, t)
}

// signers whose domain provider fails one kind of lookup: a request then ends in an error or in a signature that
// verifies like any other, never in a signature under some other domain
var sNoGenesis, sNoEpoch, sNoBuilderType *signer.Service

// refusers are multi-signer accounts whose remote signer returns no signature (e.g. slashing protection)
var refusers []harness.Acct

// mixPool holds local wallet accounts and remote protecting signers for mixed batches
var mixPool []harness.Acct

type caseRes struct {
	bad    []string
	fp     string
	nsigs  int
	sample any
}

// genBatch picks 1-12 accounts, wallet-like (all plain) or dirk-like (multi-signers, ordinary or distributed), any order.
func genBatch(r *rand.Rand, plain, multi []harness.Acct) ([]harness.Acct, string) {
	n := 1 + r.Intn(12)
	if r.Intn(60) == 0 {
		n = 250 + r.Intn(80) // a large operator: hundreds of validators in one request
	}
	out := make([]harness.Acct, 0, n)
	pat := ""
	if len(mixPool) > 0 && r.Intn(8) == 0 {
		// local wallet accounts and remote protecting signers in one batch, any order: such a batch is either refused
		// or signed correctly
		for i := 0; i < n; i++ {
			a := mixPool[r.Intn(len(mixPool))]
			out = append(out, a)
			pat += fmt.Sprintf("%T", a)[8:9]
		}
		if len(pat) > 16 {
			pat = fmt.Sprintf("%s..(%d)", pat[:16], len(pat))
		}
		return out, "mixed:" + pat
	}
	if r.Intn(3) == 0 {
		for i := 0; i < n; i++ {
			out = append(out, plain[r.Intn(len(plain))])
			pat += "P"
		}
		if len(pat) > 16 {
			pat = fmt.Sprintf("%s..(%d)", pat[:16], len(pat))
		}
		return out, pat
	}
	pool := multi
	if n > 100 && r.Intn(3) > 0 {
		// hundreds of validators behind one kind of remote signer (all ordinary, or all distributed)
		wantDist := r.Intn(2) == 0
		pool = nil
		for _, a := range multi {
			if _, d := a.(e2wtypes.DistributedAccount); d == wantDist {
				pool = append(pool, a)
			}
		}
	}
	for i := 0; i < n; i++ {
		a := pool[r.Intn(len(pool))]
		out = append(out, a)
		if _, d := a.(e2wtypes.DistributedAccount); d {
			pat += "D"
		} else {
			pat += "O"
		}
	}
	if len(pat) > 16 {
		pat = fmt.Sprintf("%s..(%d)", pat[:16], len(pat))
	}
	return out, pat
}

func toAccounts(as []harness.Acct) []e2wtypes.Account {
	out := make([]e2wtypes.Account, len(as))
	for i, a := range as {
		out[i] = a
	}
	return out
}

func run(c *harness.Ctx) {
	harness.InitBLS()
	ctx := context.Background()
	spe := uint64([]int{32, 8, 3}[c.Batch%3])
	s, err := signer.New(ctx,
		signer.WithLogLevel(zerolog.Disabled),
		signer.WithMonitor(nullmetrics.New()),
		signer.WithClientMonitor(nullmetrics.New()),
		signer.WithSpecProvider(harness.NewSpec(spe, nil)),
		signer.WithDomainProvider(harness.RecDomains{}),
	)
	if err != nil {
		c.Inconclusive("signer.New: " + err.Error())
		return
	}
	for _, fd := range []flakyDomains{{failGenesis: true}, {failEpoch: true}} {
		fs, err := signer.New(ctx, signer.WithLogLevel(zerolog.Disabled), signer.WithMonitor(nullmetrics.New()), signer.WithClientMonitor(nullmetrics.New()), signer.WithSpecProvider(harness.NewSpec(spe, nil)), signer.WithDomainProvider(fd))
		if err != nil {
			c.Inconclusive("signer.New: " + err.Error())
			return
		}
		if fd.failGenesis {
			sNoGenesis = fs
		} else {
			sNoEpoch = fs
		}
	}
	{
		sp := harness.NewSpec(spe, nil)
		delete(sp.M, "DOMAIN_APPLICATION_BUILDER") // a node whose specification does not list the builder domain type
		fs, err := signer.New(ctx, signer.WithLogLevel(zerolog.Disabled), signer.WithMonitor(nullmetrics.New()), signer.WithClientMonitor(nullmetrics.New()), signer.WithSpecProvider(sp), signer.WithDomainProvider(harness.RecDomains{}))
		if err != nil {
			c.Inconclusive("signer.New: " + err.Error())
			return
		}
		sNoBuilderType = fs
	}
	refusers = nil
	for i := 0; i < 3; i++ {
		a := harness.NewAcct(harness.KindMulti, "D", fmt.Sprintf("refuser%d", i), 40+i, phase0.ValidatorIndex(40+i), nil)
		a.SetFault(harness.FaultNoSig)
		refusers = append(refusers, a)
	}
	var plain, prot, multi []harness.Acct
	for i := 0; i < 6; i++ {
		plain = append(plain, harness.NewAcct(harness.KindPlain, "W", fmt.Sprintf("p%d", i), i, phase0.ValidatorIndex(i), nil))
		prot = append(prot, harness.NewAcct(harness.KindProt, "W", fmt.Sprintf("r%d", i), 10+i, phase0.ValidatorIndex(10+i), nil))
		multi = append(multi, harness.NewAcct(harness.KindMulti, "D", fmt.Sprintf("m%d", i), 20+i, phase0.ValidatorIndex(20+i), nil))
		multi = append(multi, harness.NewAcct(harness.KindDist, "D", fmt.Sprintf("d%d", i), 30+i, phase0.ValidatorIndex(30+i), nil))
	}
	single := append(append(append([]harness.Acct{}, plain...), prot...), multi...)
	mixPool = append(append([]harness.Acct{}, plain...), prot...)

	n := c.N(12000, 300000)
	workers := 8
	var wg sync.WaitGroup
	jobs := make(chan int, workers)
	for w := 0; w < workers; w++ {
		wg.Add(1)
		go func() {
			defer wg.Done()
			for i := range jobs {
				id := fmt.Sprintf("req%d", i)
				r := c.Rand("req", i)
				res := oneRequest(ctx, s, r, spe, single, plain, multi)
				c.Count("signatures_verified", int64(res.nsigs))
				for _, b := range res.bad {
					c.Violate(b, fmt.Sprintf("signature does not verify against the spec signing root (%s)", b), id, res.sample)
				}
				c.Distinct(res.fp)
				if i < 3 {
					c.Sample(res.sample)
				}
			}
		}()
	}
	for i := 0; i < n; i++ {
		// journal from the dispatcher (cases overlap in time)
		c.Case(fmt.Sprintf("req%d", i), func() { jobs <- i })
	}
	close(jobs)
	wg.Wait()
	c.Case("storm", func() { storm(ctx, c, s, spe, plain) })
}

// storm: many goroutines issue single-account requests through the local-signing path at once; signatures are
// collected and verified afterwards, so that the signing calls themselves overlap as tightly as possible.
func storm(ctx context.Context, c *harness.Ctx, s *signer.Service, spe uint64, plain []harness.Acct) {
	type rec struct {
		a   harness.Acct
		sig phase0.BLSSignature
		obj harness.Chunk
		d   phase0.Domain
		k   string
		id  string
	}
	g := 16
	per := c.N(16*250, 16*4000) / g
	out := make([][]rec, g)
	var wg sync.WaitGroup
	start := make(chan struct{})
	for w := 0; w < g; w++ {
		wg.Add(1)
		go func(w int) {
			defer wg.Done()
			r := c.Rand("storm", w)
			<-start
			for i := 0; i < per; i++ {
				a := plain[r.Intn(len(plain))]
				epoch := uint64(r.Intn(50))
				slot := epoch*spe + uint64(r.Intn(int(spe)))
				id := fmt.Sprintf("storm%d.%d", w, i)
				switch r.Intn(4) {
				case 0:
					sig, err := s.SignRANDAOReveal(ctx, a, phase0.Slot(slot))
					if err == nil {
						out[w] = append(out[w], rec{a, sig, harness.U64Chunk(epoch), dom("DOMAIN_RANDAO", epoch), "randao", id})
					}
				case 1:
					root := rnd32(r)
					sig, err := s.SignAggregateAndProof(ctx, a, phase0.Slot(slot), root)
					if err == nil {
						out[w] = append(out[w], rec{a, sig, harness.Chunk(root), dom("DOMAIN_AGGREGATE_AND_PROOF", epoch), "aggregate-and-proof", id})
					}
				case 2:
					p, st, b := rnd32(r), rnd32(r), rnd32(r)
					sig, err := s.SignBeaconBlockProposal(ctx, a, phase0.Slot(slot), 7, p, st, b)
					if err == nil {
						out[w] = append(out[w], rec{a, sig, harness.RefBlockHeader(slot, 7, p[:], st[:], b[:]), dom("DOMAIN_BEACON_PROPOSER", epoch), "proposal", id})
					}
				default:
					br, sr, tr := rnd32(r), rnd32(r), rnd32(r)
					sig, err := s.SignBeaconAttestation(ctx, a, phase0.Slot(slot), 3, br, 0, sr, phase0.Epoch(epoch), tr)
					if err == nil {
						out[w] = append(out[w], rec{a, sig, harness.RefAttestationData(slot, 3, br[:], 0, sr[:], epoch, tr[:]), dom("DOMAIN_BEACON_ATTESTER", epoch), "attestation", id})
					}
				}
			}
		}(w)
	}
	close(start)
	wg.Wait()
	var vg sync.WaitGroup
	for w := 0; w < g; w++ {
		vg.Add(1)
		go func(w int) {
			defer vg.Done()
			for _, x := range out[w] {
				root := harness.RefSigningRoot(x.obj, x.d[:])
				c.Count("storm_signatures_verified", 1)
				if !harness.VerifySig(x.a, root[:], x.sig) {
					c.Violate("bad-signature-under-concurrency:"+x.k, "signature produced while other signing calls were in flight does not verify against its own signing root", x.id, map[string]any{"kind": x.k, "account": x.a.FullName()})
				}
			}
		}(w)
	}
	vg.Wait()
	c.Eval(g * per)
	c.Distinct("storm")
}

func oneRequest(ctx context.Context, s *signer.Service, r *rand.Rand, spe uint64, single, plain, multi []harness.Acct) caseRes {
	kind := kinds[r.Intn(len(kinds))]
	// slots across epoch (domain) boundaries
	epoch := uint64(r.Intn(6)) + []uint64{0, 73, 74, 100000}[r.Intn(4)]
	slot := epoch*spe + uint64(r.Intn(int(spe)))
	if r.Intn(4) == 0 {
		slot = epoch*spe + spe - 1 // last slot of epoch
	}
	res := caseRes{}
	check := func(a harness.Acct, sig phase0.BLSSignature, obj harness.Chunk, d phase0.Domain, what string) {
		res.nsigs++
		root := harness.RefSigningRoot(obj, d[:])
		if !harness.VerifySig(a, root[:], sig) {
			res.bad = append(res.bad, "bad-signature:"+kind+":"+what)
		}
	}
	switch kind {
	case "attestation", "attestations":
		br, sr, tr := rnd32(r), rnd32(r), rnd32(r)
		se := uint64(r.Intn(int(epoch) + 1))
		te := epoch
		d := dom("DOMAIN_BEACON_ATTESTER", epoch)
		if kind == "attestation" {
			a := single[r.Intn(len(single))]
			ci := uint64(r.Intn(64))
			sig, err := s.SignBeaconAttestation(ctx, a, phase0.Slot(slot), phase0.CommitteeIndex(ci), br, phase0.Epoch(se), sr, phase0.Epoch(te), tr)
			res.sample = map[string]any{"kind": kind, "account": a.FullName(), "slot": slot, "committee": ci, "source": se, "target": te, "err": fmt.Sprint(err)}
			res.fp = fmt.Sprintf("%s|%T|e%d", kind, a, epoch%7)
			if err != nil {
				res.bad = append(res.bad, "unexpected-error:"+kind)
				break
			}
			check(a, sig, harness.RefAttestationData(slot, ci, br[:], se, sr[:], te, tr[:]), d, fmt.Sprintf("%T", a))
		} else {
			as, pat := genBatch(r, plain, multi)
			refused := map[int]bool{}
			if !strings.HasPrefix(pat, "P") && r.Intn(3) == 0 {
				// some accounts of a dirk-like batch are refused a signature by their remote signer
				for i := range as {
					if r.Intn(3) == 0 {
						as[i] = refusers[r.Intn(len(refusers))]
						refused[i] = true
					}
				}
				pat += fmt.Sprintf("+refused%d", len(refused))
			}
			cis := make([]phase0.CommitteeIndex, len(as))
			for i := range cis {
				cis[i] = phase0.CommitteeIndex(r.Intn(64))
			}
			sgn := s
			if r.Intn(12) == 0 {
				sgn = sNoEpoch // the fork domain cannot be obtained
				pat += "+no-domain"
			}
			sigs, err := sgn.SignBeaconAttestations(ctx, toAccounts(as), phase0.Slot(slot), cis, br, phase0.Epoch(se), sr, phase0.Epoch(te), tr)
			if sgn != s {
				res.fp = fmt.Sprintf("%s|%s", kind, pat)
				if err == nil {
					for i, a := range as {
						if !refused[i] && sigs[i] != (phase0.BLSSignature{}) {
							check(a, sigs[i], harness.RefAttestationData(slot, uint64(cis[i]), br[:], se, sr[:], te, tr[:]), d, "domain-lookup-failed")
						}
					}
				}
				break
			}
			res.sample = map[string]any{"kind": kind, "pattern": pat, "slot": slot, "committees": fmt.Sprint(cis), "err": fmt.Sprint(err)}
			res.fp = fmt.Sprintf("%s|%s", kind, pat)
			if err != nil || len(sigs) != len(as) {
				if !strings.HasPrefix(pat, "mixed:") { // a mixed batch may be refused
					res.bad = append(res.bad, "unexpected-error:"+kind)
				}
				break
			}
			for i, a := range as {
				if refused[i] {
					res.nsigs++
					if sigs[i] != (phase0.BLSSignature{}) {
						res.bad = append(res.bad, "signature-for-refused-account:"+kind)
					}
					continue
				}
				check(a, sigs[i], harness.RefAttestationData(slot, uint64(cis[i]), br[:], se, sr[:], te, tr[:]), d, "position")
			}
		}
	case "proposal":
		a := single[r.Intn(len(single))]
		p, st, b := rnd32(r), rnd32(r), rnd32(r)
		vi := uint64(r.Intn(1 << 20))
		sig, err := s.SignBeaconBlockProposal(ctx, a, phase0.Slot(slot), phase0.ValidatorIndex(vi), p, st, b)
		res.sample = map[string]any{"kind": kind, "account": a.FullName(), "slot": slot, "proposer": vi, "err": fmt.Sprint(err)}
		res.fp = fmt.Sprintf("%s|%T|e%d", kind, a, epoch%7)
		if err != nil {
			res.bad = append(res.bad, "unexpected-error:"+kind)
			break
		}
		check(a, sig, harness.RefBlockHeader(slot, vi, p[:], st[:], b[:]), dom("DOMAIN_BEACON_PROPOSER", epoch), fmt.Sprintf("%T", a))
	case "randao":
		a := single[r.Intn(len(single))]
		sig, err := s.SignRANDAOReveal(ctx, a, phase0.Slot(slot))
		res.sample = map[string]any{"kind": kind, "account": a.FullName(), "slot": slot, "err": fmt.Sprint(err)}
		res.fp = fmt.Sprintf("%s|%T|e%d|%v", kind, a, epoch%7, slot%spe == spe-1)
		if err != nil {
			res.bad = append(res.bad, "unexpected-error:"+kind)
			break
		}
		check(a, sig, harness.U64Chunk(epoch), dom("DOMAIN_RANDAO", epoch), fmt.Sprintf("%T", a))
	case "aggregate-and-proof":
		a := single[r.Intn(len(single))]
		root := rnd32(r)
		sig, err := s.SignAggregateAndProof(ctx, a, phase0.Slot(slot), root)
		res.sample = map[string]any{"kind": kind, "account": a.FullName(), "slot": slot, "err": fmt.Sprint(err)}
		res.fp = fmt.Sprintf("%s|%T|e%d", kind, a, epoch%7)
		if err != nil {
			res.bad = append(res.bad, "unexpected-error:"+kind)
			break
		}
		check(a, sig, harness.Chunk(root), dom("DOMAIN_AGGREGATE_AND_PROOF", epoch), fmt.Sprintf("%T", a))
	case "slot-selections":
		as, pat := genBatch(r, plain, multi)
		sigs, err := s.SignSlotSelections(ctx, toAccounts(as), phase0.Slot(slot))
		res.sample = map[string]any{"kind": kind, "pattern": pat, "slot": slot, "err": fmt.Sprint(err)}
		res.fp = fmt.Sprintf("%s|%s", kind, pat)
		if err != nil || len(sigs) != len(as) {
			if !strings.HasPrefix(pat, "mixed:") { // a mixed batch may be refused
				res.bad = append(res.bad, "unexpected-error:"+kind)
			}
			break
		}
		for i, a := range as {
			check(a, sigs[i], harness.U64Chunk(slot), dom("DOMAIN_SELECTION_PROOF", epoch), "position")
		}
	case "sync-selections":
		as, pat := genBatch(r, plain, multi)
		subs := make([]uint64, len(as))
		for i := range subs {
			subs[i] = uint64(r.Intn(4))
		}
		sigs, err := s.SignSyncCommitteeSelections(ctx, toAccounts(as), phase0.Slot(slot), subs)
		res.sample = map[string]any{"kind": kind, "pattern": pat, "slot": slot, "subcommittees": subs, "err": fmt.Sprint(err)}
		res.fp = fmt.Sprintf("%s|%s", kind, pat)
		if err != nil || len(sigs) != len(as) {
			if !strings.HasPrefix(pat, "mixed:") { // a mixed batch may be refused
				res.bad = append(res.bad, "unexpected-error:"+kind)
			}
			break
		}
		for i, a := range as {
			check(a, sigs[i], harness.RefSyncSelectionData(slot, subs[i]), dom("DOMAIN_SYNC_COMMITTEE_SELECTION_PROOF", epoch), "position")
		}
	case "sync-roots":
		as, pat := genBatch(r, plain, multi)
		root := rnd32(r)
		sigs, err := s.SignSyncCommitteeRoots(ctx, toAccounts(as), phase0.Epoch(epoch), root)
		res.sample = map[string]any{"kind": kind, "pattern": pat, "epoch": epoch, "err": fmt.Sprint(err)}
		res.fp = fmt.Sprintf("%s|%s", kind, pat)
		if err != nil || len(sigs) != len(as) {
			if !strings.HasPrefix(pat, "mixed:") { // a mixed batch may be refused
				res.bad = append(res.bad, "unexpected-error:"+kind)
			}
			break
		}
		for i, a := range as {
			check(a, sigs[i], harness.Chunk(root), dom("DOMAIN_SYNC_COMMITTEE", epoch), "position")
		}
	case "contributions":
		as, pat := genBatch(r, plain, multi)
		caps := make([]*altair.ContributionAndProof, len(as))
		objs := make([]harness.Chunk, len(as))
		for i := range as {
			bits := bitfield.NewBitvector128()
			for k := 0; k < 5; k++ {
				bits.SetBitAt(uint64(r.Intn(128)), true)
			}
			cp := &altair.ContributionAndProof{
				AggregatorIndex: phase0.ValidatorIndex(r.Intn(1 << 20)),
				Contribution: &altair.SyncCommitteeContribution{
					Slot: phase0.Slot(slot), BeaconBlockRoot: rnd32(r), SubcommitteeIndex: uint64(r.Intn(4)), AggregationBits: bits,
				},
			}
			r.Read(cp.Contribution.Signature[:])
			r.Read(cp.SelectionProof[:])
			caps[i] = cp
			objs[i] = harness.RefContributionAndProof(uint64(cp.AggregatorIndex),
				harness.RefContribution(slot, cp.Contribution.BeaconBlockRoot[:], cp.Contribution.SubcommitteeIndex, bits, cp.Contribution.Signature[:]),
				cp.SelectionProof[:])
		}
		sigs, err := s.SignContributionAndProofs(ctx, toAccounts(as), caps)
		res.sample = map[string]any{"kind": kind, "pattern": pat, "slot": slot, "err": fmt.Sprint(err)}
		res.fp = fmt.Sprintf("%s|%s", kind, pat)
		if err != nil || len(sigs) != len(as) {
			if !strings.HasPrefix(pat, "mixed:") { // a mixed batch may be refused
				res.bad = append(res.bad, "unexpected-error:"+kind)
			}
			break
		}
		for i, a := range as {
			check(a, sigs[i], objs[i], dom("DOMAIN_CONTRIBUTION_AND_PROOF", epoch), "position")
		}
	case "registration":
		a := single[r.Intn(len(single))]
		var fr bellatrix.ExecutionAddress
		r.Read(fr[:])
		gl := uint64(r.Int63())
		ts := r.Int63n(4000000000)
		pk := a.Pub48()
		if r.Intn(3) == 0 {
			r.Read(pk[:]) // the message names another key; still signed by the account
		}
		reg := &builderapi.VersionedValidatorRegistration{Version: builderspec.BuilderVersionV1, V1: &builderv1.ValidatorRegistration{FeeRecipient: fr, GasLimit: gl, Timestamp: time.Unix(ts, 0), Pubkey: pk}}
		sgn := s
		switch r.Intn(10) {
		case 0, 1:
			sgn = sNoGenesis // the genesis domain cannot be obtained
		case 2:
			sgn = sNoBuilderType // the specification does not list the builder domain type
		}
		sig, err := sgn.SignValidatorRegistration(ctx, a, reg)
		res.sample = map[string]any{"kind": kind, "account": a.FullName(), "gas_limit": gl, "timestamp": ts, "err": fmt.Sprint(err), "genesis_domain_lookup_fails": sgn == sNoGenesis, "spec_without_builder_domain_type": sgn == sNoBuilderType}
		res.fp = fmt.Sprintf("%s|%T|%v", kind, a, sgn != s)
		if sgn != s && err != nil {
			break // refused: fine
		}
		if err != nil {
			res.bad = append(res.bad, "unexpected-error:"+kind)
			break
		}
		d := harness.DomainFor(harness.DomainTypes["DOMAIN_APPLICATION_BUILDER"], 0, true)
		check(a, sig, harness.RefValidatorRegistration(fr[:], gl, uint64(ts), pk[:]), d, fmt.Sprintf("%T", a))
	}
	return res
}

func main() {
	harness.Main(&harness.Spec{
		Property:    "C06",
		Level:       "exploration",
		Rule:        "random requests of the ten signing kinds (random messages, slots across epoch/domain boundaries incl. last slot of an epoch, batches of 1-12 accounts in random order, wallet-like all-plain or dirk-like ordinary/distributed multi-signer mixtures, single requests over plain/protecting/multi/distributed accounts) issued concurrently by 8 goroutines against one long-lived signer per batch; every returned signature BLS-verified against an independently merkleised signing root with the domain of the expected (type, epoch); in some dirk-like attestation batches a third of the accounts are refused a signature by their signer (their entries must be zero), and some requests go to signers whose genesis-domain or fork-domain lookup fails (error, or a signature that verifies as usual); distinct = (kind, account-kind pattern of the batch | account kind and epoch class)",
		Batches:     func(string) int { return 3 },
		Parallel:    3,
		Run:         run,
		MinDistinct: 100,
		Assumptions: []string{"herumi BLS (go-eth2-types) verification is trusted", "the fake domain provider returns a distinct domain per (type, epoch) so a wrong type or epoch fails verification", "all contributions of one batch share one slot, as in production"},
	})
}
