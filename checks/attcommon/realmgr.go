package attcommon

import (
	"context"
	"os"

	"github.com/attestantio/go-eth2-client/api"
	apiv1 "github.com/attestantio/go-eth2-client/api/v1"
	"github.com/attestantio/go-eth2-client/spec/phase0"
	"github.com/attestantio/vouch/mock"
	"github.com/attestantio/vouch/services/accountmanager"
	"github.com/attestantio/vouch/services/accountmanager/dirk"
	"github.com/attestantio/vouch/services/accountmanager/wallet"
	nullmetrics "github.com/attestantio/vouch/services/metrics/null"
	vmstd "github.com/attestantio/vouch/services/validatorsmanager/standard"
	"github.com/attestantio/vouch/testing/resources"
	"github.com/rs/zerolog"
	e2wtypes "github.com/wealdtech/go-eth2-wallet-types/v2"
	"verif/harness"
)

const farFutureEpoch = phase0.Epoch(0xffffffffffffffff)

// allActive is a beacon node for which every one of our validators is active throughout.
type allActive struct {
	records map[phase0.BLSPubKey]*apiv1.Validator
}

func (b allActive) Validators(_ context.Context, opts *api.ValidatorsOpts) (*api.Response[map[phase0.ValidatorIndex]*apiv1.Validator], error) {
	out := map[phase0.ValidatorIndex]*apiv1.Validator{}
	for _, pk := range opts.PubKeys {
		if v, ok := b.records[pk]; ok {
			out[v.Index] = v
		}
	}
	return &api.Response[map[phase0.ValidatorIndex]*apiv1.Validator]{Data: out, Metadata: map[string]any{}}, nil
}

// newManager puts the accounts behind the real wallet (or Dirk) account manager and the real validators manager, so
// that the attester's by-index account lookups are answered by the code that answers them in production.
func newManager(dirkLike bool, accts map[uint64]harness.Acct) (accountmanager.ValidatingAccountsProvider, func(), error) {
	ctx := context.Background()
	b := allActive{records: map[phase0.BLSPubKey]*apiv1.Validator{}}
	var list []e2wtypes.Account
	for v, a := range accts {
		pk := a.Pub48()
		if cp, ok := a.(e2wtypes.AccountCompositePublicKeyProvider); ok {
			copy(pk[:], cp.CompositePublicKey().Marshal())
		}
		b.records[pk] = &apiv1.Validator{Index: phase0.ValidatorIndex(v), Balance: 32e9, Validator: &phase0.Validator{PublicKey: pk, EffectiveBalance: 32e9, ExitEpoch: farFutureEpoch, WithdrawableEpoch: farFutureEpoch}}
		list = append(list, a)
	}
	w := harness.NewFWallet("W", list)
	clock := harness.NewVClock(12e9, 32)
	vm, err := vmstd.New(ctx, vmstd.WithLogLevel(zerolog.Disabled), vmstd.WithMonitor(nullmetrics.New()), vmstd.WithClientMonitor(nullmetrics.New()), vmstd.WithValidatorsProvider(b), vmstd.WithFarFutureEpoch(farFutureEpoch))
	if err != nil {
		return nil, nil, err
	}
	if dirkLike {
		s, err := dirk.New(ctx, dirk.WithLogLevel(zerolog.Disabled), dirk.WithMonitor(nullmetrics.New()), dirk.WithClientMonitor(nullmetrics.New()), dirk.WithProcessConcurrency(2),
			dirk.WithEndpoints([]string{"localhost:1"}), dirk.WithAccountPaths([]string{"W"}), dirk.WithClientCert([]byte(resources.ClientTest01Crt)), dirk.WithClientKey([]byte(resources.ClientTest01Key)),
			dirk.WithCACert([]byte(resources.CACrt)), dirk.WithValidatorsManager(vm), dirk.WithDomainProvider(harness.RecDomains{}), dirk.WithFarFutureEpochProvider(mock.NewFarFutureEpochProvider(farFutureEpoch)), dirk.WithCurrentEpochProvider(clock))
		if err != nil {
			return nil, nil, err
		}
		s.VerifSetWallet("W", w)
		s.Refresh(ctx)
		return s, func() {}, nil
	}
	dir, err := os.MkdirTemp("", "verif-att-")
	if err != nil {
		return nil, nil, err
	}
	s, err := wallet.New(ctx, wallet.WithLogLevel(zerolog.Disabled), wallet.WithMonitor(nullmetrics.New()), wallet.WithProcessConcurrency(2), wallet.WithLocations([]string{dir}), wallet.WithAccountPaths([]string{"W"}),
		wallet.WithPassphrases([][]byte{[]byte("p")}), wallet.WithValidatorsManager(vm), wallet.WithSpecProvider(harness.NewSpec(32, nil)), wallet.WithFarFutureEpochProvider(mock.NewFarFutureEpochProvider(farFutureEpoch)),
		wallet.WithDomainProvider(harness.RecDomains{}), wallet.WithCurrentEpochProvider(clock))
	if err != nil {
		os.RemoveAll(dir)
		return nil, nil, err
	}
	s.VerifRefreshFromWallets(ctx, []e2wtypes.Wallet{w})
	return s, func() { os.RemoveAll(dir) }, nil
}
