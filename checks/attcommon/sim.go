// Package attcommon drives histories of attestation runs against the real attester (and the real signer over
// harness BLS accounts) and judges them for C01 (at most one signature request per validator and epoch, only
// valid data) and C04 (each attestation carries its own validator's assignment and the agreed data).
package attcommon

import (
	"context"
	"encoding/binary"
	"errors"
	"fmt"
	"math/rand"
	"sort"
	"strings"
	"sync"
	"time"

	eth2client "github.com/attestantio/go-eth2-client"
	"github.com/attestantio/go-eth2-client/api"
	apiv1 "github.com/attestantio/go-eth2-client/api/v1"
	"github.com/attestantio/go-eth2-client/spec/phase0"
	"github.com/attestantio/vouch/services/accountmanager"
	"github.com/attestantio/vouch/services/attester"
	attstd "github.com/attestantio/vouch/services/attester/standard"
	nullmetrics "github.com/attestantio/vouch/services/metrics/null"
	signerstd "github.com/attestantio/vouch/services/signer/standard"
	adbest "github.com/attestantio/vouch/strategies/attestationdata/best"
	adfirst "github.com/attestantio/vouch/strategies/attestationdata/first"
	admajority "github.com/attestantio/vouch/strategies/attestationdata/majority"
	"github.com/rs/zerolog"
	e2wtypes "github.com/wealdtech/go-eth2-wallet-types/v2"
	"verif/harness"
)

// Entry is one validator's assignment in a duty.
type Entry struct {
	Validator uint64 `json:"v"`
	Committee uint64 `json:"c"`
	Position  uint64 `json:"p"`
}

// Run is one Attest call of a history.
type Run struct {
	Slot      uint64            `json:"slot"`
	Entries   []Entry           `json:"entries"`
	Sizes     map[uint64]uint64 `json:"sizes"`
	DataKind  string            `json:"data"`                          // ok | error | wrong-slot | target-above | target-below | source-above-target
	DataKind2 string            `json:"data_of_second_node,omitempty"` // when a strategy sits in front of the attester
	Missing   []uint64          `json:"missing_accounts,omitempty"`
	AcctErr   bool              `json:"accounts_error,omitempty"`
	SignFault map[uint64]int    `json:"sign_faults,omitempty"` // validator -> harness.Fault*
	SubmitErr bool              `json:"submit_error,omitempty"`
	Overlap   bool              `json:"overlaps_next,omitempty"` // released together with the next run
}

// History is a generated case.
type History struct {
	SlotsPerEpoch uint64 `json:"slots_per_epoch"`
	Dirk          bool   `json:"dirk_like_accounts"`
	NVal          int    `json:"validators"`
	Merge         bool   `json:"duties_built_by_MergeDuties"`
	RealManager   bool   `json:"accounts_behind_the_real_account_manager,omitempty"`
	Strategy      string `json:"attestation_data_strategy,omitempty"` // best | majority | first: the real strategy over two scripted nodes feeds the attester
	Runs          []Run  `json:"runs"`
}

// SignCall is a recorded SignBeaconAttestations request at the signer boundary.
type SignCall struct {
	Run        int      `json:"run"` // identified from the block root
	Slot       uint64   `json:"slot"`
	Validators []uint64 `json:"validators"`
	Committees []uint64 `json:"committees"`
	BlockRoot  string   `json:"block_root"`
	Source     uint64   `json:"source"`
	Target     uint64   `json:"target"`
	Err        string   `json:"err,omitempty"`
	NoSig      []uint64 `json:"no_signature,omitempty"`
}

// Att is a recorded submitted attestation.
type Att struct {
	Slot      uint64 `json:"slot"`
	Committee uint64 `json:"committee"`
	Bits      string `json:"bits"`
	BitLen    uint64 `json:"bit_len"`
	BlockRoot string `json:"block_root"`
	Source    uint64 `json:"source"`
	Target    uint64 `json:"target"`
	Signer    int64  `json:"signed_by_validator"` // -1: no known account verifies
	raw       *phase0.Attestation
}

// Trace is what was observed.
type Trace struct {
	Signs    []SignCall `json:"sign_requests"`
	Submits  [][]Att    `json:"submissions"`
	Returned []int      `json:"returned_per_run"`
	RunErr   []string   `json:"run_errors"`
	replies  map[phase0.Root]*reply
}

// Finding is a violation of C01 or C04.
type Finding struct {
	Prop string
	Key  string
	What string
}

type sim struct {
	h       *History
	mu      sync.Mutex
	trace   Trace
	accts   map[uint64]harness.Acct
	byPub   map[phase0.BLSPubKey]uint64
	replies map[phase0.Root]*reply // block root -> reply
	runOf   map[phase0.Root]int
	curRun  sync.Map // goroutine-less: data provider is told the run through the context
	real    *signerstd.Service
	mgr     accountmanager.ValidatingAccountsProvider // the real account manager, in some histories
}

type reply struct {
	run  int
	kind string
	data *phase0.AttestationData
}

type ctxKey struct{}
type ctxSecond struct{}

// secondNode is the second beacon node behind a strategy: same script, its own kind of reply.
type secondNode struct{ s *sim }

func (n secondNode) AttestationData(ctx context.Context, opts *api.AttestationDataOpts) (*api.Response[*phase0.AttestationData], error) {
	return n.s.AttestationData(context.WithValue(ctx, ctxSecond{}, true), opts)
}

type rootSlots struct{ s *sim }

// BlockRootToSlot gives the strategies' scoring the slot of a head root: the run's slot for roots the script produced.
func (c rootSlots) BlockRootToSlot(_ context.Context, root phase0.Root) (phase0.Slot, error) {
	c.s.mu.Lock()
	defer c.s.mu.Unlock()
	if rp, ok := c.s.replies[root]; ok {
		return phase0.Slot(c.s.h.Runs[rp.run].Slot), nil
	}
	return 0, errors.New("unknown root")
}

func rootFor(run int, n uint64) phase0.Root {
	var r phase0.Root
	binary.BigEndian.PutUint64(r[0:8], uint64(run)+1)
	binary.BigEndian.PutUint64(r[8:16], n)
	r[31] = 0xa7
	return r
}

// AttestationData: scripted per run (the run index travels in the context).
func (s *sim) AttestationData(ctx context.Context, opts *api.AttestationDataOpts) (*api.Response[*phase0.AttestationData], error) {
	ri, _ := ctx.Value(ctxKey{}).(int)
	run := s.h.Runs[ri]
	if second, _ := ctx.Value(ctxSecond{}).(bool); second {
		run.DataKind = run.DataKind2
	}
	if run.DataKind == "error" {
		return nil, errors.New("scripted data failure")
	}
	spe := s.h.SlotsPerEpoch
	epoch := run.Slot / spe
	d := &phase0.AttestationData{Slot: opts.Slot, Index: opts.CommitteeIndex,
		Source: &phase0.Checkpoint{Epoch: 0}, Target: &phase0.Checkpoint{Epoch: phase0.Epoch(epoch)}}
	if epoch > 0 {
		d.Source.Epoch = phase0.Epoch(epoch - 1)
	}
	switch run.DataKind {
	case "wrong-slot":
		d.Slot = opts.Slot + 1
	case "target-above":
		d.Target.Epoch = phase0.Epoch(epoch + 1)
	case "target-below":
		if epoch == 0 {
			d.Target.Epoch = 0 // cannot go below; becomes conforming
		} else {
			d.Target.Epoch = phase0.Epoch(epoch - 1)
			d.Source.Epoch = 0
		}
	case "source-above-target":
		d.Source.Epoch = phase0.Epoch(epoch + 1)
	case "source-far-future":
		d.Source.Epoch = phase0.Epoch(^uint64(0) - uint64(ri%16)) // FAR_FUTURE_EPOCH and its neighbours
	case "source-2^63":
		d.Source.Epoch = phase0.Epoch(uint64(1)<<63 + uint64(ri))
	case "target-far-future":
		d.Target.Epoch = phase0.Epoch(^uint64(0))
	case "target-wraps-in-slots":
		// an epoch whose first slot, computed in 64 bits, wraps round to one not after the duty's
		d.Target.Epoch = phase0.Epoch((^uint64(0))/spe + 1 + uint64(ri)%(epoch+1))
	}
	s.mu.Lock()
	n := uint64(len(s.replies))
	d.BeaconBlockRoot = rootFor(ri, n)
	d.Source.Root = rootFor(ri, n+1000)
	d.Target.Root = rootFor(ri, n+2000)
	s.replies[d.BeaconBlockRoot] = &reply{run: ri, kind: run.DataKind, data: d}
	s.mu.Unlock()
	cp := *d
	cp.Source = &phase0.Checkpoint{Epoch: d.Source.Epoch, Root: d.Source.Root}
	cp.Target = &phase0.Checkpoint{Epoch: d.Target.Epoch, Root: d.Target.Root}
	return &api.Response[*phase0.AttestationData]{Data: &cp, Metadata: map[string]any{}}, nil
}

func (s *sim) ValidatingAccountsForEpoch(_ context.Context, _ phase0.Epoch) (map[phase0.ValidatorIndex]e2wtypes.Account, error) {
	return nil, errors.New("not used")
}

func (s *sim) ValidatingAccountsForEpochByIndex(ctx context.Context, epoch phase0.Epoch, indices []phase0.ValidatorIndex) (map[phase0.ValidatorIndex]e2wtypes.Account, error) {
	ri, _ := ctx.Value(ctxKey{}).(int)
	run := s.h.Runs[ri]
	if run.AcctErr {
		return nil, errors.New("scripted accounts failure")
	}
	out := map[phase0.ValidatorIndex]e2wtypes.Account{}
	if s.mgr != nil {
		got, err := s.mgr.ValidatingAccountsForEpochByIndex(ctx, epoch, indices)
		if err != nil {
			return nil, err
		}
		for idx, a := range got {
			miss := false
			for _, m := range run.Missing {
				if m == uint64(idx) {
					miss = true
				}
			}
			if !miss {
				out[idx] = a
			}
		}
		return out, nil
	}
	for _, idx := range indices {
		miss := false
		for _, m := range run.Missing {
			if m == uint64(idx) {
				miss = true
			}
		}
		if a, ok := s.accts[uint64(idx)]; ok && !miss {
			out[idx] = a
		}
	}
	return out, nil
}

func (s *sim) SyncCommitteeAccountsForEpoch(_ context.Context, _ phase0.Epoch) (map[phase0.ValidatorIndex]e2wtypes.Account, error) {
	return nil, errors.New("not used")
}

func (s *sim) SyncCommitteeAccountsForEpochByIndex(_ context.Context, _ phase0.Epoch, _ []phase0.ValidatorIndex) (map[phase0.ValidatorIndex]e2wtypes.Account, error) {
	return nil, errors.New("not used")
}

// SignBeaconAttestations records the request at the signer boundary and passes it to the real signer.
func (s *sim) SignBeaconAttestations(ctx context.Context, accounts []e2wtypes.Account, slot phase0.Slot, committeeIndices []phase0.CommitteeIndex,
	blockRoot phase0.Root, sourceEpoch phase0.Epoch, sourceRoot phase0.Root, targetEpoch phase0.Epoch, targetRoot phase0.Root,
) ([]phase0.BLSSignature, error) {
	ri, _ := ctx.Value(ctxKey{}).(int)
	run := s.h.Runs[ri]
	call := SignCall{Run: -1, Slot: uint64(slot), BlockRoot: fmt.Sprintf("%#x", blockRoot[:16]), Source: uint64(sourceEpoch), Target: uint64(targetEpoch)}
	s.mu.Lock()
	if rp, ok := s.replies[blockRoot]; ok {
		call.Run = rp.run
	}
	s.mu.Unlock()
	for i, a := range accounts {
		if a == nil {
			call.Validators = append(call.Validators, ^uint64(0))
			continue
		}
		var pk phase0.BLSPubKey
		copy(pk[:], a.PublicKey().Marshal())
		call.Validators = append(call.Validators, s.byPub[pk])
		if i < len(committeeIndices) {
			call.Committees = append(call.Committees, uint64(committeeIndices[i]))
		}
		// faults are per run
		if f, ok := run.SignFault[s.byPub[pk]]; ok {
			s.accts[s.byPub[pk]].SetFault(f)
		} else {
			s.accts[s.byPub[pk]].SetFault(harness.FaultNone)
		}
	}
	sigs, err := s.real.SignBeaconAttestations(ctx, accounts, slot, committeeIndices, blockRoot, sourceEpoch, sourceRoot, targetEpoch, targetRoot)
	if err != nil {
		call.Err = err.Error()
	}
	for i := range sigs {
		if sigs[i].IsZero() && i < len(call.Validators) {
			call.NoSig = append(call.NoSig, call.Validators[i])
		}
	}
	s.mu.Lock()
	s.trace.Signs = append(s.trace.Signs, call)
	s.mu.Unlock()
	return sigs, err
}

func (s *sim) SubmitAttestations(ctx context.Context, attestations []*phase0.Attestation) error {
	ri, _ := ctx.Value(ctxKey{}).(int)
	var sub []Att
	for _, a := range attestations {
		sub = append(sub, s.describe(a, ri))
	}
	s.mu.Lock()
	s.trace.Submits = append(s.trace.Submits, sub)
	s.mu.Unlock()
	if s.h.Runs[ri].SubmitErr {
		return errors.New("scripted submission failure")
	}
	return nil
}

func (s *sim) describe(a *phase0.Attestation, ri int) Att {
	out := Att{Signer: -1, raw: a}
	if a == nil || a.Data == nil || a.Data.Source == nil || a.Data.Target == nil {
		return out
	}
	out.Slot, out.Committee = uint64(a.Data.Slot), uint64(a.Data.Index)
	out.BitLen = a.AggregationBits.Len()
	out.Bits = fmt.Sprint(a.AggregationBits.BitIndices())
	out.BlockRoot = fmt.Sprintf("%#x", a.Data.BeaconBlockRoot[:16])
	out.Source, out.Target = uint64(a.Data.Source.Epoch), uint64(a.Data.Target.Epoch)
	obj := harness.RefAttestationData(out.Slot, out.Committee, a.Data.BeaconBlockRoot[:], out.Source, a.Data.Source.Root[:], out.Target, a.Data.Target.Root[:])
	dom := harness.DomainFor(harness.DomainTypes["DOMAIN_BEACON_ATTESTER"], out.Slot/s.h.SlotsPerEpoch, false)
	root := harness.RefSigningRoot(obj, dom[:])
	ids := make([]uint64, 0, len(s.accts))
	for v := range s.accts {
		ids = append(ids, v)
	}
	sort.Slice(ids, func(i, j int) bool { return ids[i] < ids[j] })
	// the validators whose assignment the attestation carries are tried first (a duty may hold hundreds)
	if ri >= 0 && ri < len(s.h.Runs) {
		var first []uint64
		for _, e := range s.h.Runs[ri].Entries {
			if e.Committee == out.Committee && e.Position < out.BitLen && a.AggregationBits.BitAt(e.Position) {
				if _, ours := s.accts[e.Validator]; ours {
					first = append(first, e.Validator)
				}
			}
		}
		ids = append(first, ids...)
	}
	for _, v := range ids {
		if harness.VerifySig(s.accts[v], root[:], a.Signature) {
			out.Signer = int64(v)
			break
		}
	}
	return out
}

// Generate builds a history from the PRNG.
func Generate(r *rand.Rand) *History {
	h := &History{SlotsPerEpoch: uint64([]int{4, 8, 32}[r.Intn(3)]), Dirk: r.Intn(2) == 0, NVal: 2 + r.Intn(7), Merge: r.Intn(2) == 0}
	nRuns := 2 + r.Intn(9)
	epoch := uint64(r.Intn(3))
	dataKinds := []string{"ok", "ok", "ok", "ok", "ok", "error", "wrong-slot", "target-above", "target-below", "source-above-target"}
	hugeKinds := []string{"source-far-future", "source-2^63", "target-far-future", "target-wraps-in-slots"}
	for i := 0; i < nRuns; i++ {
		// epochs drift forward; a duty for e is never started after one for e+2 completed
		if r.Intn(4) == 0 {
			epoch++
		}
		e := epoch
		if e > 0 && r.Intn(5) == 0 {
			e-- // late duty of the previous epoch
		}
		run := Run{Slot: e*h.SlotsPerEpoch + uint64(r.Intn(int(h.SlotsPerEpoch))), Sizes: map[uint64]uint64{}, SignFault: map[uint64]int{}}
		if i > 0 && r.Intn(3) == 0 {
			run.Slot = h.Runs[i-1].Slot // re-delivery of the same slot
		}
		nEntries := 1 + r.Intn(h.NVal)
		perm := r.Perm(h.NVal)
		nComm := 1 + r.Intn(4)
		for k := 0; k < nEntries; k++ {
			c := uint64(r.Intn(nComm)) * uint64(1+r.Intn(3))
			if _, ok := run.Sizes[c]; !ok {
				run.Sizes[c] = uint64(1 + r.Intn(200))
			}
			run.Entries = append(run.Entries, Entry{Validator: uint64(100 + perm[k]), Committee: c, Position: uint64(r.Intn(int(run.Sizes[c])))})
		}
		if r.Intn(25) == 0 && len(run.Entries) > 1 {
			// a beacon node listing one validator twice
			run.Entries = append(run.Entries, Entry{Validator: run.Entries[0].Validator, Committee: run.Entries[len(run.Entries)-1].Committee, Position: 0})
		}
		run.DataKind = dataKinds[r.Intn(len(dataKinds))]
		for _, en := range run.Entries {
			if r.Intn(6) == 0 {
				run.Missing = append(run.Missing, en.Validator)
			}
			if r.Intn(6) == 0 {
				f := harness.FaultNoSig
				if r.Intn(3) == 0 {
					f = harness.FaultError
				}
				run.SignFault[en.Validator] = f
			}
		}
		run.AcctErr = r.Intn(20) == 0
		run.SubmitErr = r.Intn(8) == 0
		run.Overlap = r.Intn(3) == 0
		h.Runs = append(h.Runs, run)
	}
	// overlapping groups stay within two consecutive epochs (a duty for epoch e is never started after an
	// attestation for e+2 completed: the service deliberately forgets e-2)
	minE, maxE := uint64(0), uint64(0)
	inGroup := false
	for i := range h.Runs {
		e := h.Runs[i].Slot / h.SlotsPerEpoch
		if !inGroup {
			minE, maxE = e, e
		} else {
			if e < minE {
				minE = e
			}
			if e > maxE {
				maxE = e
			}
		}
		inGroup = h.Runs[i].Overlap
		if inGroup && i+1 < len(h.Runs) {
			ne := h.Runs[i+1].Slot / h.SlotsPerEpoch
			lo, hi := minE, maxE
			if ne < lo {
				lo = ne
			}
			if ne > hi {
				hi = ne
			}
			if hi-lo > 1 {
				h.Runs[i].Overlap = false
				inGroup = false
			}
		}
	}
	h.Runs[len(h.Runs)-1].Overlap = false
	// a third of the histories put a real attestation data strategy over two nodes in front of the attester
	r2 := rand.New(rand.NewSource(r.Int63()))
	for i := range h.Runs {
		if r2.Intn(12) == 0 {
			h.Runs[i].DataKind = hugeKinds[r2.Intn(len(hugeKinds))] // epochs at the top of the uint64 range
		}
	}
	if r2.Intn(3) == 0 {
		h.Strategy = []string{"best", "majority", "first"}[r2.Intn(3)]
		for i := range h.Runs {
			h.Runs[i].DataKind2 = dataKinds[r2.Intn(len(dataKinds))]
		}
	}
	// a quarter have the accounts looked up through the real wallet / Dirk account manager and validators manager
	h.RealManager = r2.Intn(4) == 0
	return h
}

// Execute runs the history against a fresh real attester and returns the trace.
func Execute(h *History, r *rand.Rand) (*Trace, error) {
	harness.InitBLS()
	ctx := context.Background()
	clock := harness.NewVClock(12*time.Second, h.SlotsPerEpoch)
	specP := harness.NewSpec(h.SlotsPerEpoch, nil)
	s := &sim{h: h, accts: map[uint64]harness.Acct{}, byPub: map[phase0.BLSPubKey]uint64{}, replies: map[phase0.Root]*reply{}}
	for i := 0; i < h.NVal; i++ {
		kind := harness.KindPlain
		if h.Dirk {
			kind = harness.KindMulti
			if i%3 == 2 {
				kind = harness.KindDist
			}
		}
		v := uint64(100 + i)
		a := harness.NewAcct(kind, "W", fmt.Sprintf("a%d", i), 200+i, phase0.ValidatorIndex(v), nil)
		s.accts[v] = a
		s.byPub[a.Pub48()] = v
	}
	var err error
	if h.RealManager {
		var done func()
		s.mgr, done, err = newManager(h.Dirk, s.accts)
		if err != nil {
			return nil, err
		}
		defer done()
	}
	s.real, err = signerstd.New(ctx, signerstd.WithLogLevel(zerolog.Disabled), signerstd.WithMonitor(nullmetrics.New()), signerstd.WithClientMonitor(nullmetrics.New()),
		signerstd.WithSpecProvider(specP), signerstd.WithDomainProvider(harness.RecDomains{}))
	if err != nil {
		return nil, err
	}
	var dataProvider eth2client.AttestationDataProvider = s
	nodes := map[string]eth2client.AttestationDataProvider{"node1": s, "node2": secondNode{s}}
	switch h.Strategy {
	case "best":
		dataProvider, err = adbest.New(ctx, adbest.WithLogLevel(zerolog.Disabled), adbest.WithClientMonitor(nullmetrics.New()), adbest.WithProcessConcurrency(4), adbest.WithAttestationDataProviders(nodes),
			adbest.WithTimeout(2*time.Second), adbest.WithChainTime(clock), adbest.WithBlockRootToSlotCache(rootSlots{s}))
	case "majority":
		dataProvider, err = admajority.New(ctx, admajority.WithLogLevel(zerolog.Disabled), admajority.WithClientMonitor(nullmetrics.New()), admajority.WithProcessConcurrency(4), admajority.WithAttestationDataProviders(nodes),
			admajority.WithTimeout(2*time.Second), admajority.WithChainTime(clock), admajority.WithBlockRootToSlotCache(rootSlots{s}), admajority.WithThreshold(1))
	case "first":
		dataProvider, err = adfirst.New(ctx, adfirst.WithLogLevel(zerolog.Disabled), adfirst.WithClientMonitor(nullmetrics.New()), adfirst.WithAttestationDataProviders(nodes), adfirst.WithTimeout(2*time.Second))
	}
	if err != nil {
		return nil, err
	}
	att, err := attstd.New(ctx, attstd.WithLogLevel(zerolog.Disabled), attstd.WithProcessConcurrency(4), attstd.WithChainTime(clock), attstd.WithSpecProvider(specP),
		attstd.WithAttestationDataProvider(dataProvider), attstd.WithAttestationsSubmitter(s), attstd.WithMonitor(nullmetrics.New()),
		attstd.WithValidatingAccountsProvider(s), attstd.WithBeaconAttestationsSigner(s))
	if err != nil {
		return nil, err
	}
	s.trace.Returned = make([]int, len(h.Runs))
	s.trace.RunErr = make([]string, len(h.Runs))
	runOne := func(i int) {
		run := h.Runs[i]
		var vis []phase0.ValidatorIndex
		var cis []phase0.CommitteeIndex
		var pos []uint64
		sizes := map[phase0.CommitteeIndex]uint64{}
		for _, e := range run.Entries {
			vis = append(vis, phase0.ValidatorIndex(e.Validator))
			cis = append(cis, phase0.CommitteeIndex(e.Committee))
			pos = append(pos, e.Position)
		}
		for c, n := range run.Sizes {
			sizes[phase0.CommitteeIndex(c)] = n
		}
		var duty *attester.Duty
		var derr error
		if h.Merge {
			// as the controller does: the node's per-validator duties of several slots, merged per slot
			var list []*apiv1.AttesterDuty
			addRun := func(rn Run) {
				for _, e := range rn.Entries {
					list = append(list, &apiv1.AttesterDuty{Slot: phase0.Slot(rn.Slot), ValidatorIndex: phase0.ValidatorIndex(e.Validator), CommitteeIndex: phase0.CommitteeIndex(e.Committee),
						CommitteeLength: rn.Sizes[e.Committee], CommitteesAtSlot: 4, ValidatorCommitteeIndex: e.Position})
				}
			}
			addRun(run)
			seenSlot := map[uint64]bool{run.Slot: true}
			for k, other := range h.Runs {
				if k != i && !seenSlot[other.Slot] && other.Slot/h.SlotsPerEpoch == run.Slot/h.SlotsPerEpoch {
					seenSlot[other.Slot] = true
					addRun(other)
				}
			}
			merged, merr := attester.MergeDuties(ctx, list)
			derr = merr
			if merr == nil {
				derr = errors.New("slot missing from merged duties")
				for _, d := range merged {
					if uint64(d.Slot()) == run.Slot {
						duty, derr = d, nil
					}
				}
			}
		} else {
			duty, derr = attester.NewDuty(ctx, phase0.Slot(run.Slot), 4, vis, cis, pos, sizes)
		}
		if derr != nil {
			s.trace.RunErr[i] = "duty: " + derr.Error()
			return
		}
		clock.SetSlot(phase0.Slot(run.Slot))
		atts, aerr := att.Attest(context.WithValue(ctx, ctxKey{}, i), duty)
		s.mu.Lock()
		s.trace.Returned[i] = len(atts)
		if aerr != nil {
			s.trace.RunErr[i] = aerr.Error()
		}
		s.mu.Unlock()
	}
	for i := 0; i < len(h.Runs); {
		// a group of overlapping runs is released together
		j := i
		for j < len(h.Runs)-1 && h.Runs[j].Overlap {
			j++
		}
		if j == i {
			runOne(i)
		} else {
			gate := make(chan struct{})
			var wg sync.WaitGroup
			for k := i; k <= j; k++ {
				wg.Add(1)
				go func(k int) {
					defer wg.Done()
					<-gate
					runOne(k)
				}(k)
			}
			close(gate)
			wg.Wait()
		}
		i = j + 1
	}
	// nodes a strategy no longer waits for may still be answering: take what there is, under the lock
	s.mu.Lock()
	tr := s.trace
	tr.replies = make(map[phase0.Root]*reply, len(s.replies))
	for k, v := range s.replies {
		tr.replies[k] = v
	}
	s.mu.Unlock()
	return &tr, nil
}

// Judge applies both oracles to a trace.
func Judge(h *History, tr *Trace) []Finding {
	replies := tr.replies
	var out []Finding
	add := func(p, k, w string) { out = append(out, Finding{p, k, w}) }
	spe := h.SlotsPerEpoch

	// ---- C01 ----
	count := map[[2]uint64]int{}
	for _, sc := range tr.Signs {
		epoch := sc.Slot / spe
		for _, v := range sc.Validators {
			count[[2]uint64{v, epoch}]++
			if count[[2]uint64{v, epoch}] == 2 {
				add("C01", "second-signature-request-in-epoch", fmt.Sprintf("validator %d was put forward for an attestation signature twice in epoch %d", v, epoch))
			}
		}
		if sc.Run < 0 {
			add("C01", "signed-unknown-data", "a signature was requested over data no beacon node returned")
			continue
		}
		run := h.Runs[sc.Run]
		if sc.Slot != run.Slot {
			add("C01", "signed-other-slot", fmt.Sprintf("signature requested for slot %d, duty slot is %d", sc.Slot, run.Slot))
		}
		if sc.Target != sc.Slot/spe {
			add("C01", "signed-target-not-duty-epoch:"+cmp(sc.Target, sc.Slot/spe), fmt.Sprintf("signature requested with target epoch %d for slot %d (epoch %d)", sc.Target, sc.Slot, sc.Slot/spe))
		}
		if sc.Source > sc.Target {
			add("C01", "signed-source-above-target", fmt.Sprintf("signature requested with source %d above target %d", sc.Source, sc.Target))
		}
	}
	// non-conforming replies are never referenced
	for root, rp := range replies {
		d := rp.data
		run := h.Runs[rp.run]
		conforming := uint64(d.Slot) == run.Slot && uint64(d.Target.Epoch) == run.Slot/spe && d.Source.Epoch <= d.Target.Epoch
		if conforming {
			continue
		}
		for _, sc := range tr.Signs {
			if sc.BlockRoot == fmt.Sprintf("%#x", root[:16]) {
				add("C01", "nonconforming-data-signed:"+rp.kind, fmt.Sprintf("attestation data (%s) for slot %d was refused neither by validation nor before signing", rp.kind, run.Slot))
			}
		}
	}

	// ---- C04 ----
	type want struct {
		e   Entry
		run int
	}
	for si, sub := range tr.Submits {
		seen := map[int64]bool{}
		for _, a := range sub {
			if a.raw == nil || a.raw.Data == nil {
				add("C04", "malformed-attestation", "submitted attestation without data")
				continue
			}
			rp, ok := replies[a.raw.Data.BeaconBlockRoot]
			if !ok {
				add("C04", "attestation-data-unknown", "submitted attestation carries a block root no beacon node returned")
				continue
			}
			run := h.Runs[rp.run]
			d := rp.data
			if a.raw.Data.Source.Epoch != d.Source.Epoch || a.raw.Data.Source.Root != d.Source.Root || a.raw.Data.Target.Epoch != d.Target.Epoch || a.raw.Data.Target.Root != d.Target.Root {
				add("C04", "attestation-data-differs", "source/target of the submitted attestation differ from the data obtained for the slot")
			}
			if a.Slot != run.Slot {
				add("C04", "attestation-slot-differs", fmt.Sprintf("attestation slot %d, duty slot %d", a.Slot, run.Slot))
			}
			if a.Signer < 0 {
				add("C04", "signature-matches-no-validator", fmt.Sprintf("submission %d: signature over (slot %d, committee %d, data) verifies for none of the duty's accounts", si, a.Slot, a.Committee))
				continue
			}
			if seen[a.Signer] {
				add("C04", "two-attestations-one-validator", fmt.Sprintf("validator %d appears twice in one submission", a.Signer))
			}
			seen[a.Signer] = true
			// the validator's own entry (first one if the node listed it twice: either is accepted)
			match := false
			inDuty := false
			var first Entry
			for _, e := range run.Entries {
				if int64(e.Validator) != a.Signer {
					continue
				}
				if !inDuty {
					first = e
				}
				inDuty = true
				if e.Committee == a.Committee && a.BitLen == run.Sizes[e.Committee] && a.Bits == fmt.Sprintf("[%d]", e.Position) {
					match = true
				}
			}
			if !inDuty {
				add("C04", "attestation-for-validator-without-duty", fmt.Sprintf("validator %d has no duty in slot %d", a.Signer, run.Slot))
			} else if !match {
				add("C04", "assignment-of-another-validator", fmt.Sprintf("validator %d attested with committee %d bits %s/%d, its duty says committee %d position %d/%d",
					a.Signer, a.Committee, a.Bits, a.BitLen, first.Committee, first.Position, run.Sizes[first.Committee]))
			}
		}
	}
	// every validator that got a signature yields an attestation in the submission of its run; others none
	for _, sc := range tr.Signs {
		if sc.Run < 0 || sc.Err != "" {
			continue
		}
		nosig := map[uint64]bool{}
		for _, v := range sc.NoSig {
			nosig[v] = true
		}
		// find the submission with this block root
		var sub []Att
		found := false
		for _, sb := range tr.Submits {
			if len(sb) > 0 && sb[0].BlockRoot == sc.BlockRoot {
				sub, found = sb, true
			}
		}
		signed := 0
		for _, v := range sc.Validators {
			if !nosig[v] {
				signed++
			}
		}
		if signed > 0 && !found {
			add("C04", "signed-but-not-submitted", fmt.Sprintf("%d signatures obtained for slot %d but nothing submitted", signed, sc.Slot))
			continue
		}
		have := map[int64]bool{}
		for _, a := range sub {
			have[a.Signer] = true
		}
		for _, v := range sc.Validators {
			if nosig[v] && have[int64(v)] {
				add("C04", "attestation-without-signature", fmt.Sprintf("validator %d returned no signature but an attestation was submitted for it", v))
			}
			if !nosig[v] && !have[int64(v)] {
				add("C04", "signed-validator-missing-from-submission", fmt.Sprintf("validator %d signed but its attestation is missing from the submission", v))
			}
		}
	}
	return out
}

func cmp(a, b uint64) string {
	switch {
	case a < b:
		return "below"
	case a > b:
		return "above"
	}
	return "equal"
}

// Fingerprint classifies a history/trace for coverage accounting; non-trivial when it returns a non-empty string.
func Fingerprint(h *History, tr *Trace) string {
	var parts []string
	sameEpochRepeat := false
	seen := map[[2]uint64]bool{}
	for _, run := range h.Runs {
		for _, e := range run.Entries {
			k := [2]uint64{e.Validator, run.Slot / h.SlotsPerEpoch}
			if seen[k] {
				sameEpochRepeat = true
			}
			seen[k] = true
		}
	}
	skipped := false
	for _, run := range h.Runs {
		if len(run.Missing) > 0 || len(run.SignFault) > 0 {
			skipped = true
		}
	}
	if !sameEpochRepeat && !skipped {
		return ""
	}
	kinds := map[string]bool{}
	overlap := false
	for _, run := range h.Runs {
		kinds[run.DataKind] = true
		overlap = overlap || run.Overlap
	}
	ks := make([]string, 0)
	for k := range kinds {
		ks = append(ks, k)
	}
	sort.Strings(ks)
	parts = append(parts, fmt.Sprintf("runs:%d", len(h.Runs)), "data:"+strings.Join(ks, ","), fmt.Sprintf("repeat:%v skipped:%v overlap:%v dirk:%v merge:%v strategy:%s", sameEpochRepeat, skipped, overlap, h.Dirk, h.Merge, h.Strategy),
		fmt.Sprintf("signs:%d subs:%d", len(tr.Signs), len(tr.Submits)))
	return strings.Join(parts, "|")
}

// Storm: for each of a series of fresh epochs, several runs over the same validators are released at the same
// instant, so that they race to be the first to touch the epoch. Signing is counted, not carried out.
func Storm(r *rand.Rand, epochs int) (findings []Finding, requests int) {
	ctx := context.Background()
	spe := uint64(8)
	clock := harness.NewVClock(12*time.Second, spe)
	specP := harness.NewSpec(spe, nil)
	st := &stormSim{count: map[[2]uint64]int{}, spe: spe}
	for i := 0; i < 8; i++ {
		st.accts = append(st.accts, harness.NewAcct(harness.KindPlain, "W", fmt.Sprintf("s%d", i), 300+i, phase0.ValidatorIndex(100+i), nil))
	}
	att, err := attstd.New(ctx, attstd.WithLogLevel(zerolog.Disabled), attstd.WithProcessConcurrency(4), attstd.WithChainTime(clock), attstd.WithSpecProvider(specP),
		attstd.WithAttestationDataProvider(st), attstd.WithAttestationsSubmitter(st), attstd.WithMonitor(nullmetrics.New()),
		attstd.WithValidatingAccountsProvider(st), attstd.WithBeaconAttestationsSigner(st))
	if err != nil {
		return []Finding{{"C01", "storm-setup", err.Error()}}, 0
	}
	for e := uint64(1); e <= uint64(epochs); e++ {
		g := 2 + r.Intn(3)
		gate := make(chan struct{})
		var wg sync.WaitGroup
		for k := 0; k < g; k++ {
			var vis []phase0.ValidatorIndex
			var cis []phase0.CommitteeIndex
			var pos []uint64
			for i := range st.accts {
				vis = append(vis, phase0.ValidatorIndex(100+i))
				cis = append(cis, 0)
				pos = append(pos, uint64(i))
			}
			duty, _ := attester.NewDuty(ctx, phase0.Slot(e*spe+uint64(k)), 4, vis, cis, pos, map[phase0.CommitteeIndex]uint64{0: 64})
			wg.Add(1)
			go func() {
				defer wg.Done()
				<-gate
				_, _ = att.Attest(ctx, duty)
			}()
		}
		close(gate)
		wg.Wait()
	}
	st.mu.Lock()
	defer st.mu.Unlock()
	for k, n := range st.count {
		if n > 1 {
			findings = append(findings, Finding{"C01", "second-signature-request-in-epoch:concurrent-first-touch", fmt.Sprintf("validator %d was put forward for an attestation signature %d times in epoch %d by runs released together", k[0], n, k[1])})
			break
		}
	}
	return findings, st.requests
}

type stormSim struct {
	mu       sync.Mutex
	count    map[[2]uint64]int
	requests int
	accts    []harness.Acct
	spe      uint64
}

func (s *stormSim) AttestationData(_ context.Context, opts *api.AttestationDataOpts) (*api.Response[*phase0.AttestationData], error) {
	e := uint64(opts.Slot) / s.spe
	return &api.Response[*phase0.AttestationData]{Data: &phase0.AttestationData{Slot: opts.Slot, Index: opts.CommitteeIndex,
		Source: &phase0.Checkpoint{Epoch: phase0.Epoch(e - 1)}, Target: &phase0.Checkpoint{Epoch: phase0.Epoch(e)}}, Metadata: map[string]any{}}, nil
}
func (s *stormSim) ValidatingAccountsForEpoch(context.Context, phase0.Epoch) (map[phase0.ValidatorIndex]e2wtypes.Account, error) {
	return nil, errors.New("not used")
}
func (s *stormSim) ValidatingAccountsForEpochByIndex(_ context.Context, _ phase0.Epoch, indices []phase0.ValidatorIndex) (map[phase0.ValidatorIndex]e2wtypes.Account, error) {
	out := map[phase0.ValidatorIndex]e2wtypes.Account{}
	for _, idx := range indices {
		out[idx] = s.accts[int(idx)-100]
	}
	return out, nil
}
func (s *stormSim) SyncCommitteeAccountsForEpoch(context.Context, phase0.Epoch) (map[phase0.ValidatorIndex]e2wtypes.Account, error) {
	return nil, errors.New("not used")
}
func (s *stormSim) SyncCommitteeAccountsForEpochByIndex(context.Context, phase0.Epoch, []phase0.ValidatorIndex) (map[phase0.ValidatorIndex]e2wtypes.Account, error) {
	return nil, errors.New("not used")
}
func (s *stormSim) SignBeaconAttestations(_ context.Context, accounts []e2wtypes.Account, slot phase0.Slot, _ []phase0.CommitteeIndex,
	_ phase0.Root, _ phase0.Epoch, _ phase0.Root, _ phase0.Epoch, _ phase0.Root,
) ([]phase0.BLSSignature, error) {
	s.mu.Lock()
	s.requests++
	for _, a := range accounts {
		s.count[[2]uint64{uint64(harness.AcctIndex(a.(harness.Acct))), uint64(slot) / s.spe}]++
	}
	s.mu.Unlock()
	out := make([]phase0.BLSSignature, len(accounts))
	for i := range out {
		out[i][0] = 1
	}
	return out, nil
}
func (s *stormSim) SubmitAttestations(context.Context, []*phase0.Attestation) error { return nil }
