// C05: a proposal signs only the selected block of the duty slot and submits it intact.
// Monitor: the real beacon block proposer (Prepare, Propose) with the real signer over BLS accounts; recorded:
// signer requests, the proposal request, the auction, each relay's unblinding requests, the submission.
package main

import (
	"context"
	"errors"
	"fmt"
	"math/rand"
	"strings"
	"sync"
	"time"

	"github.com/attestantio/go-block-relay/services/blockauctioneer"
	builderclient "github.com/attestantio/go-builder-client"
	builderapi "github.com/attestantio/go-builder-client/api"
	"github.com/attestantio/go-eth2-client/api"
	"github.com/attestantio/go-eth2-client/spec"
	"github.com/attestantio/go-eth2-client/spec/phase0"
	"github.com/attestantio/vouch/services/beaconblockproposer"
	propstd "github.com/attestantio/vouch/services/beaconblockproposer/standard"
	nullmetrics "github.com/attestantio/vouch/services/metrics/null"
	signerstd "github.com/attestantio/vouch/services/signer/standard"
	"github.com/rs/zerolog"
	e2wtypes "github.com/wealdtech/go-eth2-wallet-types/v2"
	"verif/harness"
)

const spe = 32

type fcase struct {
	Version     string   `json:"version"`
	Blinded     bool     `json:"blinded"`
	OtherSlot   bool     `json:"proposal_for_other_slot,omitempty"`
	OtherIndex  bool     `json:"proposal_built_for_another_proposer_index,omitempty"`
	AuctionSlow bool     `json:"auction_answers_after_2300ms,omitempty"`
	Gated       bool     `json:"relays_answer_at_the_same_instant,omitempty"`
	Unhashable  bool     `json:"block_body_cannot_be_hashed,omitempty"`
	Graffiti    string   `json:"graffiti"`                   // ok | error | absent | timeout
	Auction     string   `json:"auction"`                    // none | error | no-winner | winner
	Relays      []string `json:"relay_unblinding,omitempty"` // block | 400 | transient | error | slow | hang | empty
	Listed      []int    `json:"relays_listed_for_unblinding,omitempty"`
	SubmitErr   bool     `json:"submit_error,omitempty"`
	SignErr     bool     `json:"block_signing_error,omitempty"`
	UnblindAll  bool     `json:"unblind_from_all_relays,omitempty"`
	AccountKind int      `json:"account_kind"`
}

type world struct {
	mu         sync.Mutex
	fc         *fcase
	acct       harness.Acct
	acct2      harness.Acct // a second validator proposing in the same epoch
	real       *signerstd.Service
	randaoReqs []string
	blockReqs  []blockReq
	propReqs   []*api.ProposalOpts
	proposal   *api.VersionedProposal
	auctions   int
	submitted  []*api.VersionedSignedProposal
	relays     []*harness.Relay
	returned   map[*api.VersionedSignedProposal]int // full block -> relay that returned it
	goodReq    map[int]bool                         // relay got a request carrying exactly the signed blinded block
	badReq     []string
	dutySlot   phase0.Slot
	index      phase0.ValidatorIndex
	blockSig   phase0.BLSSignature
}

type blockReq struct {
	account             string
	slot                phase0.Slot
	index               phase0.ValidatorIndex
	parent, state, body phase0.Root
	sig                 phase0.BLSSignature
	err                 error
}

// ---- fakes ----

func (w *world) ValidatingAccountsForEpoch(context.Context, phase0.Epoch) (map[phase0.ValidatorIndex]e2wtypes.Account, error) {
	return nil, errors.New("not used")
}
func (w *world) ValidatingAccountsForEpochByIndex(_ context.Context, _ phase0.Epoch, idx []phase0.ValidatorIndex) (map[phase0.ValidatorIndex]e2wtypes.Account, error) {
	out := map[phase0.ValidatorIndex]e2wtypes.Account{}
	for _, i := range idx {
		if i == w.index {
			out[i] = w.acct
		}
		if w.acct2 != nil && i == w.index+1 {
			out[i] = w.acct2
		}
	}
	return out, nil
}
func (w *world) SyncCommitteeAccountsForEpoch(context.Context, phase0.Epoch) (map[phase0.ValidatorIndex]e2wtypes.Account, error) {
	return nil, errors.New("not used")
}
func (w *world) SyncCommitteeAccountsForEpochByIndex(context.Context, phase0.Epoch, []phase0.ValidatorIndex) (map[phase0.ValidatorIndex]e2wtypes.Account, error) {
	return nil, errors.New("not used")
}

func (w *world) SignRANDAOReveal(ctx context.Context, account e2wtypes.Account, slot phase0.Slot) (phase0.BLSSignature, error) {
	if ctx.Err() != nil {
		return phase0.BLSSignature{}, ctx.Err()
	}
	w.mu.Lock()
	w.randaoReqs = append(w.randaoReqs, fmt.Sprintf("%s@%d", account.Name(), slot))
	w.mu.Unlock()
	return w.real.SignRANDAOReveal(ctx, account, slot)
}

func (w *world) SignBeaconBlockProposal(ctx context.Context, account e2wtypes.Account, slot phase0.Slot, proposerIndex phase0.ValidatorIndex, parentRoot, stateRoot, bodyRoot phase0.Root) (phase0.BLSSignature, error) {
	var sig phase0.BLSSignature
	var err error
	if ctx.Err() != nil {
		err = ctx.Err() // a remote signer is not reached once the request's context has ended
	} else if w.fc.SignErr {
		err = errors.New("scripted signing failure")
	} else {
		sig, err = w.real.SignBeaconBlockProposal(ctx, account, slot, proposerIndex, parentRoot, stateRoot, bodyRoot)
	}
	w.mu.Lock()
	w.blockReqs = append(w.blockReqs, blockReq{account.Name(), slot, proposerIndex, parentRoot, stateRoot, bodyRoot, sig, err})
	w.blockSig = sig
	w.mu.Unlock()
	return sig, err
}

func (w *world) SignBlobSidecar(context.Context, e2wtypes.Account, phase0.Slot, phase0.Root) (phase0.BLSSignature, error) {
	return phase0.BLSSignature{}, errors.New("not used")
}

func (w *world) Graffiti(context.Context, phase0.Slot, phase0.ValidatorIndex) ([]byte, error) {
	if w.fc.Graffiti == "error" {
		return nil, errors.New("scripted graffiti failure")
	}
	if w.fc.Graffiti == "timeout" {
		return nil, fmt.Errorf("failed to fetch graffiti: %w", context.DeadlineExceeded) // the source's own timeout, not the proposal's
	}
	return []byte("verif graffiti"), nil
}

func (w *world) ExecutionChainHead(context.Context) (phase0.Hash32, uint64) {
	return phase0.Hash32{4, 2}, 99
}

func (w *world) Proposal(ctx context.Context, opts *api.ProposalOpts) (*api.Response[*api.VersionedProposal], error) {
	if ctx.Err() != nil {
		return nil, ctx.Err() // as an HTTP client does
	}
	w.mu.Lock()
	defer w.mu.Unlock()
	w.propReqs = append(w.propReqs, opts)
	return &api.Response[*api.VersionedProposal]{Data: w.proposal, Metadata: map[string]any{}}, nil
}

func (w *world) SubmitProposal(ctx context.Context, p *api.VersionedSignedProposal) error {
	if ctx.Err() != nil {
		return ctx.Err()
	}
	w.mu.Lock()
	w.submitted = append(w.submitted, p)
	w.mu.Unlock()
	if w.fc.SubmitErr {
		return errors.New("scripted submission failure")
	}
	return nil
}

func (w *world) AuctionBlock(ctx context.Context, _ phase0.Slot, _ phase0.Hash32, _ phase0.BLSPubKey) (*blockauctioneer.Results, error) {
	w.mu.Lock()
	w.auctions++
	w.mu.Unlock()
	if w.fc.AuctionSlow {
		select {
		case <-time.After(2300 * time.Millisecond):
		case <-ctx.Done():
			return nil, ctx.Err()
		}
	}
	if w.fc.Auction == "error" {
		return nil, errors.New("scripted auction failure")
	}
	res := &blockauctioneer.Results{Participation: map[string]*blockauctioneer.Participation{}}
	for _, rl := range w.relays {
		res.AllProviders = append(res.AllProviders, rl)
	}
	if w.fc.Auction == "winner" {
		for _, i := range w.fc.Listed {
			res.Providers = append(res.Providers, w.relays[i])
		}
		res.WinningParticipation = &blockauctioneer.Participation{Category: "standard"}
	}
	return res, nil
}

func versionOf(s string) spec.DataVersion {
	for _, v := range harness.Versions {
		if v.String() == s {
			return v
		}
	}
	return spec.DataVersionDeneb
}

func signedBlindedRoot(p *api.VersionedSignedBlindedProposal) (phase0.Root, phase0.BLSSignature, bool) {
	if p == nil {
		return phase0.Root{}, phase0.BLSSignature{}, false
	}
	switch p.Version {
	case spec.DataVersionBellatrix:
		if p.Bellatrix != nil && p.Bellatrix.Message != nil {
			r, err := p.Bellatrix.Message.HashTreeRoot()
			return r, p.Bellatrix.Signature, err == nil
		}
	case spec.DataVersionCapella:
		if p.Capella != nil && p.Capella.Message != nil {
			r, err := p.Capella.Message.HashTreeRoot()
			return r, p.Capella.Signature, err == nil
		}
	case spec.DataVersionDeneb:
		if p.Deneb != nil && p.Deneb.Message != nil {
			r, err := p.Deneb.Message.HashTreeRoot()
			return r, p.Deneb.Signature, err == nil
		}
	}
	return phase0.Root{}, phase0.BLSSignature{}, false
}

// signedRootSig returns the message root and signature of a signed (full) proposal.
func signedRootSig(p *api.VersionedSignedProposal) (phase0.Root, phase0.BLSSignature, error) {
	bad := errors.New("no full block present")
	if p == nil {
		return phase0.Root{}, phase0.BLSSignature{}, bad
	}
	switch p.Version {
	case spec.DataVersionPhase0:
		if p.Phase0 != nil && p.Phase0.Message != nil {
			r, err := p.Phase0.Message.HashTreeRoot()
			return r, p.Phase0.Signature, err
		}
	case spec.DataVersionAltair:
		if p.Altair != nil && p.Altair.Message != nil {
			r, err := p.Altair.Message.HashTreeRoot()
			return r, p.Altair.Signature, err
		}
	case spec.DataVersionBellatrix:
		if p.Bellatrix != nil && p.Bellatrix.Message != nil {
			r, err := p.Bellatrix.Message.HashTreeRoot()
			return r, p.Bellatrix.Signature, err
		}
	case spec.DataVersionCapella:
		if p.Capella != nil && p.Capella.Message != nil {
			r, err := p.Capella.Message.HashTreeRoot()
			return r, p.Capella.Signature, err
		}
	case spec.DataVersionDeneb:
		if p.Deneb != nil && p.Deneb.SignedBlock != nil && p.Deneb.SignedBlock.Message != nil {
			r, err := p.Deneb.SignedBlock.Message.HashTreeRoot()
			return r, p.Deneb.SignedBlock.Signature, err
		}
	}
	return phase0.Root{}, phase0.BLSSignature{}, bad
}

func genCase(r *rand.Rand) *fcase {
	v := harness.Versions[r.Intn(len(harness.Versions))]
	fc := &fcase{Version: v.String(), Graffiti: []string{"ok", "ok", "error", "absent", "timeout"}[r.Intn(5)], Auction: []string{"none", "error", "no-winner", "winner", "winner"}[r.Intn(5)],
		OtherSlot: r.Intn(8) == 0, SubmitErr: r.Intn(8) == 0, SignErr: r.Intn(10) == 0, UnblindAll: r.Intn(5) == 0, AccountKind: r.Intn(4)}
	if v >= spec.DataVersionBellatrix {
		fc.Blinded = r.Intn(2) == 0
	}
	r2 := rand.New(rand.NewSource(r.Int63()))
	fc.OtherIndex = r2.Intn(10) == 0
	fc.Unhashable = !fc.Blinded && v >= spec.DataVersionBellatrix && r2.Intn(25) == 0
	fc.AuctionSlow = fc.Auction != "none" && r2.Intn(40) == 0
	if fc.Auction == "winner" || fc.Auction == "no-winner" {
		n := 1 + r.Intn(4)
		for i := 0; i < n; i++ {
			fc.Relays = append(fc.Relays, []string{"block", "block", "400", "transient", "error", "slow", "hang", "empty", "slow"}[r.Intn(9)])
		}
		if fc.Auction == "winner" {
			for i := 0; i < n; i++ {
				if r.Intn(2) == 0 {
					fc.Listed = append(fc.Listed, i)
				}
			}
			if len(fc.Listed) == 0 {
				fc.Listed = []int{r.Intn(n)}
			}
		}
	}
	return fc
}

func runCase(c *harness.Ctx, id string, fc *fcase, uniq int) {
	ctx := context.Background()
	w := &world{fc: fc, index: phase0.ValidatorIndex(4000 + uniq%100), dutySlot: phase0.Slot(spe*200 + uniq%spe), returned: map[*api.VersionedSignedProposal]int{}, goodReq: map[int]bool{}}
	w.acct = harness.NewAcct(fc.AccountKind, "W", "proposer", 800+uniq%6, w.index, nil)
	specP := harness.NewSpec(spe, nil)
	var err error
	w.real, err = signerstd.New(ctx, signerstd.WithLogLevel(zerolog.Disabled), signerstd.WithMonitor(nullmetrics.New()), signerstd.WithClientMonitor(nullmetrics.New()),
		signerstd.WithSpecProvider(specP), signerstd.WithDomainProvider(harness.RecDomains{}))
	if err != nil {
		c.Inconclusive(err.Error())
		return
	}
	clock := harness.NewVClock(12*time.Second, spe)
	clock.SetSlot(w.dutySlot)
	params := []propstd.Parameter{propstd.WithLogLevel(zerolog.Disabled), propstd.WithChainTime(clock), propstd.WithProposalDataProvider(w), propstd.WithMonitor(nullmetrics.New()),
		propstd.WithValidatingAccountsProvider(w), propstd.WithExecutionChainHeadProvider(w), propstd.WithProposalSubmitter(w), propstd.WithRANDAORevealSigner(w),
		propstd.WithBeaconBlockSigner(w), propstd.WithBlobSidecarSigner(w), propstd.WithUnblindFromAllRelays(fc.UnblindAll), propstd.WithBuilderBoostFactor(91)}
	if fc.Graffiti != "absent" {
		params = append(params, propstd.WithGraffitiProvider(w))
	}
	if fc.Auction != "none" {
		params = append(params, propstd.WithBlockAuctioneer(w))
	}
	svc, err := propstd.New(ctx, params...)
	if err != nil {
		c.Inconclusive("proposer New: " + err.Error())
		return
	}
	// relays
	var gate sync.WaitGroup
	if fc.Gated {
		gate.Add(len(fc.Relays))
	}
	for i, kind := range fc.Relays {
		i, kind := i, kind
		var gateOnce sync.Once
		rl := &harness.Relay{Addr: fmt.Sprintf("http://relay%d.example.com/", i), KeyNo: i}
		var calls int
		var cmu sync.Mutex
		rl.UnblindFn = func(ctx context.Context, opts *builderapi.UnblindProposalOpts) (*api.VersionedSignedProposal, error) {
			cmu.Lock()
			calls++
			n := calls
			cmu.Unlock()
			if fc.Gated {
				gateOnce.Do(gate.Done)
				gate.Wait() // every relay has the request in hand; they answer together
			}
			// does the request carry exactly the signed blinded block?
			w.mu.Lock()
			prop := w.proposal
			sig := w.blockSig
			w.mu.Unlock()
			root, rsig, ok := signedBlindedRoot(opts.Proposal)
			want, _ := prop.Root()
			if !ok || root != want || rsig != sig || opts.Proposal.Version != prop.Version {
				w.mu.Lock()
				w.badReq = append(w.badReq, fmt.Sprintf("relay %d: request does not carry the signed blinded block (root %x want %x)", i, root[:4], want[:4]))
				w.mu.Unlock()
			} else {
				w.mu.Lock()
				w.goodReq[i] = true
				w.mu.Unlock()
			}
			full := func() (*api.VersionedSignedProposal, error) {
				signed := &api.VersionedSignedProposal{Version: opts.Proposal.Version, BellatrixBlinded: opts.Proposal.Bellatrix, CapellaBlinded: opts.Proposal.Capella, DenebBlinded: opts.Proposal.Deneb}
				u := harness.Unblinded(signed, uint64(i+1))
				if u == nil {
					return nil, errors.New("cannot unblind what was sent")
				}
				w.mu.Lock()
				w.returned[u] = i
				w.mu.Unlock()
				return u, nil
			}
			switch kind {
			case "block":
				return full()
			case "400":
				return nil, errors.New("POST failed with status 400: unknown payload")
			case "empty":
				return nil, nil // an answer without a block
			case "transient":
				if n < 2 {
					return nil, errors.New("POST failed with status 502: bad gateway")
				}
				return full()
			case "slow":
				select {
				case <-time.After(300 * time.Millisecond):
				case <-ctx.Done():
					return nil, ctx.Err()
				}
				return full()
			case "hang":
				<-ctx.Done()
				return nil, ctx.Err()
			default:
				return nil, errors.New("POST failed with status 500: internal")
			}
		}
		w.relays = append(w.relays, rl)
	}
	var graffiti [32]byte
	copy(graffiti[:], "verif graffiti")
	pslot := w.dutySlot
	if fc.OtherSlot {
		pslot += phase0.Slot(1 + uniq%3)
	}
	pindex := w.index
	if fc.OtherIndex {
		pindex += phase0.ValidatorIndex(1 + uniq%5) // the node answers with a block built for another proposer
	}
	w.proposal = harness.NewProposal(versionOf(fc.Version), fc.Blinded, pslot, pindex, uint64(uniq+1), graffiti)
	if fc.Unhashable {
		// a body holding more proposer slashings than the list may hold: its root cannot be computed
		sl := make([]*phase0.ProposerSlashing, 17)
		for i := range sl {
			h := &phase0.SignedBeaconBlockHeader{Message: &phase0.BeaconBlockHeader{}}
			sl[i] = &phase0.ProposerSlashing{SignedHeader1: h, SignedHeader2: h}
		}
		switch {
		case w.proposal.Bellatrix != nil:
			w.proposal.Bellatrix.Body.ProposerSlashings = sl
		case w.proposal.Capella != nil:
			w.proposal.Capella.Body.ProposerSlashings = sl
		case w.proposal.Deneb != nil:
			w.proposal.Deneb.Block.Body.ProposerSlashings = sl
		}
	}

	detail := func() map[string]any {
		w.mu.Lock()
		defer w.mu.Unlock()
		return map[string]any{"case": fc, "randao_requests": w.randaoReqs, "block_signature_requests": len(w.blockReqs), "proposal_requests": len(w.propReqs), "submissions": len(w.submitted), "relay_request_problems": w.badReq}
	}
	fail := func(key, what string) { c.Violate(key, what, id, detail()) }

	duty := beaconblockproposer.NewDuty(w.dutySlot, w.index)
	if err := svc.Prepare(ctx, duty); err != nil {
		fail("prepare-error", "Prepare failed: "+err.Error())
		return
	}
	if len(w.randaoReqs) != 1 || w.randaoReqs[0] != fmt.Sprintf("proposer@%d", w.dutySlot) {
		fail("randao-requests-wrong", fmt.Sprintf("RANDAO reveal requests %v, want exactly one for the duty's account and slot", w.randaoReqs))
	}
	epoch := uint64(w.dutySlot) / spe
	rd := harness.DomainFor(harness.DomainTypes["DOMAIN_RANDAO"], epoch, false)
	rroot := harness.RefSigningRoot(harness.U64Chunk(epoch), rd[:])
	if !harness.VerifySig(w.acct, rroot[:], duty.RANDAOReveal()) {
		fail("randao-reveal-invalid", "the RANDAO reveal attached to the duty does not verify for the duty's epoch and account")
	}
	// a second validator with a duty in the same epoch, prepared on the same service
	w.acct2 = harness.NewAcct(fc.AccountKind, "W", "proposer2", 806+uniq%3, w.index+1, nil)
	slot2 := phase0.Slot(uint64(w.dutySlot)/spe*spe + uint64(uniq+3)%spe)
	duty2 := beaconblockproposer.NewDuty(slot2, w.index+1)
	if err := svc.Prepare(ctx, duty2); err != nil {
		fail("prepare-error", "Prepare of a second validator failed: "+err.Error())
	} else {
		if len(w.randaoReqs) != 2 || w.randaoReqs[1] != fmt.Sprintf("proposer2@%d", slot2) {
			fail("randao-requests-wrong:second-validator", fmt.Sprintf("RANDAO reveal requests %v after preparing a second validator's duty, want one more for that validator and slot", w.randaoReqs))
		}
		if !harness.VerifySig(w.acct2, rroot[:], duty2.RANDAOReveal()) {
			fail("randao-reveal-invalid:second-validator", "the RANDAO reveal attached to a second validator's duty in the same epoch does not verify under that validator's key")
		}
	}
	pctx, cancel := context.WithCancel(ctx)
	defer cancel()
	done := make(chan struct{})
	proposeStart := time.Now()
	go func() { svc.Propose(pctx, duty); close(done) }()
	// expectations
	results := fc.Auction == "winner" || fc.Auction == "no-winner"
	candidates := map[int]bool{}
	if results {
		if len(fc.Listed) > 0 && !fc.UnblindAll {
			for _, i := range fc.Listed {
				candidates[i] = true
			}
		} else {
			for i := range fc.Relays {
				candidates[i] = true
			}
		}
	}
	canUnblind := false
	for i := range candidates {
		switch fc.Relays[i] {
		case "block", "transient", "slow":
			canUnblind = true
		}
	}
	expectSign := !fc.OtherSlot && !fc.Unhashable // a block whose roots cannot be computed cannot be signed
	expectSubmit := expectSign && !fc.SignErr && (!fc.Blinded || canUnblind)
	returned := false
	select {
	case <-done:
		returned = true
	case <-time.After(map[bool]time.Duration{false: 2500 * time.Millisecond, true: 5 * time.Second}[fc.AuctionSlow]):
	}
	// Propose runs under the service's own wall-clock timeouts and this driver's watchdog: if the process was starved of
	// CPU while it ran (loaded machine), neither the watchdog nor what was or was not requested says anything about the
	// code, so the case is counted and not judged (found by a sweep under 20 busy loops at seed 8, DESIGN §9.4).
	if harness.MaxStallSince(proposeStart) > 60*time.Millisecond {
		c.Count("cases_not_judged_process_stalled", 1)
		cancel()
		select {
		case <-done:
		case <-time.After(30 * time.Second):
		}
		return
	}
	if fc.AuctionSlow {
		c.Count("slow_auctions", 1)
	}
	if fc.OtherIndex {
		c.Count("proposals_for_another_index", 1)
	}
	if !returned {
		waitsForRelays := fc.Blinded && expectSign && !fc.SignErr && results && !canUnblind
		if !waitsForRelays {
			fail("propose-does-not-return", "Propose did not return within 2.5 s although nothing was outstanding")
		} else {
			c.Count("blinded_no_relay_returned_waits_for_context", 1)
		}
		cancel()
		select {
		case <-done:
		case <-time.After(3 * time.Second):
			fail("propose-ignores-cancellation", "Propose did not return within 3 s of its context being cancelled")
			return
		}
	}
	w.mu.Lock()
	blockReqs := append([]blockReq{}, w.blockReqs...)
	propReqs := append([]*api.ProposalOpts{}, w.propReqs...)
	submitted := append([]*api.VersionedSignedProposal{}, w.submitted...)
	badReq := append([]string{}, w.badReq...)
	w.mu.Unlock()
	// the proposal was requested, with the duty's slot, reveal and the right graffiti
	if len(propReqs) != 1 {
		key := "proposal-not-requested"
		if fc.Graffiti == "error" || fc.Graffiti == "timeout" {
			key += ":graffiti-failed"
		} else if fc.Auction == "error" {
			key += ":auction-failed"
		}
		fail(key, fmt.Sprintf("%d proposal requests, want 1", len(propReqs)))
		return
	}
	po := propReqs[0]
	wantG := graffiti
	if fc.Graffiti != "ok" {
		wantG = [32]byte{}
	}
	if po.Slot != w.dutySlot || po.RandaoReveal != duty.RANDAOReveal() || po.Graffiti != wantG {
		fail("proposal-request-wrong", fmt.Sprintf("proposal requested for slot %d graffiti %q, want slot %d graffiti %q and the duty's reveal", po.Slot, strings.TrimRight(string(po.Graffiti[:]), "\x00"), w.dutySlot, strings.TrimRight(string(wantG[:]), "\x00")))
	}
	// signing
	if !expectSign && fc.Unhashable && !fc.OtherSlot {
		if len(blockReqs) != 0 {
			fail("signed-block-without-roots", "a block signature was requested for a block whose body root cannot be computed (not over that block's own roots, then)")
		}
		if len(submitted) != 0 {
			fail("submitted-block-without-roots", "a block whose body root cannot be computed was submitted")
		}
		return
	}
	if !expectSign {
		if len(blockReqs) != 0 {
			fail("signed-block-of-other-slot", fmt.Sprintf("a block signature was requested although the proposal is for slot %d and the duty for slot %d", pslot, w.dutySlot))
		}
		if len(submitted) != 0 {
			fail("submitted-block-of-other-slot", "a block for another slot was submitted")
		}
		return
	}
	if len(blockReqs) != 1 {
		fail("block-signature-requests-wrong", fmt.Sprintf("%d block signature requests, want 1", len(blockReqs)))
		return
	}
	br := blockReqs[0]
	wantBody, _ := w.proposal.BodyRoot()
	wantParent, _ := w.proposal.ParentRoot()
	wantState, _ := w.proposal.StateRoot()
	if br.account != "proposer" || br.slot != w.dutySlot || br.index != w.index || br.parent != wantParent || br.state != wantState || br.body != wantBody {
		fail("block-signature-request-wrong", "the block signature was not requested for the duty's account, slot and validator over the proposal's own parent, state and body roots")
	}
	if !expectSubmit {
		if len(submitted) != 0 {
			key := "submitted-without-block"
			if fc.SignErr {
				key = "submitted-unsigned-block"
			}
			fail(key, "a proposal was submitted although no signed full block was available")
		}
		return
	}
	if len(submitted) != 1 {
		key := "proposal-not-submitted"
		if fc.Blinded {
			key += ":blinded"
		}
		if fc.Graffiti != "ok" {
			key += ":graffiti-" + fc.Graffiti
		}
		fail(key, fmt.Sprintf("%d submissions, want 1", len(submitted)))
		return
	}
	sub := submitted[0]
	// (requests that other relays receive after the block has been unblinded are only counted: the statement
	// constrains the relay whose block is submitted)
	c.Count("unblinding_requests_without_the_blinded_block_to_other_relays", int64(len(badReq)))
	if !fc.Blinded {
		// exactly the proposal obtained, with the signature the signer returned
		subRoot, sig, err1 := signedRootSig(sub)
		wantRoot, _ := w.proposal.Root()
		var err2 error
		if err1 != nil || err2 != nil || subRoot != wantRoot || sub.Version != w.proposal.Version || sub.Blinded {
			fail("submitted-block-differs", "the submitted block is not the proposal that was obtained and signed")
		} else if sig != br.sig {
			fail("submitted-signature-differs", "the submitted block does not carry the signature the signer returned")
		} else {
			d := harness.DomainFor(harness.DomainTypes["DOMAIN_BEACON_PROPOSER"], epoch, false)
			root := harness.RefSigningRoot(harness.RefBlockHeader(uint64(w.dutySlot), uint64(w.index), wantParent[:], wantState[:], wantBody[:]), d[:])
			if !harness.VerifySig(w.acct, root[:], sig) {
				fail("submitted-signature-invalid", "the submitted signature does not verify over the block's own header under the duty's account")
			}
			c.Count("full_blocks_verified", 1)
		}
		return
	}
	// blinded: the submitted object is a full block a candidate relay returned for the right request
	w.mu.Lock()
	ri, ok := w.returned[sub]
	good := w.goodReq[ri]
	w.mu.Unlock()
	if sub.Blinded {
		fail("submitted-still-blinded", "a blinded block was submitted")
		return
	}
	if !ok {
		// the proposer copies the relay's block into its own structure: compare contents with what relays returned
		found := false
		w.mu.Lock()
		for u, i := range w.returned {
			ur, _, e1 := signedRootSig(u)
			sr, _, e2 := signedRootSig(sub)
			if e1 == nil && e2 == nil && ur == sr {
				found, ri, good = true, i, w.goodReq[i]
			}
		}
		w.mu.Unlock()
		if !found {
			fail("submitted-block-no-relay-returned", "the submitted full block is none that a relay returned")
			return
		}
	}
	if !candidates[ri] {
		fail("unblinded-by-unlisted-relay", fmt.Sprintf("the submitted block came from relay %d which was not among the relays to unblind from", ri))
	}
	if !good {
		fail("unblinded-from-wrong-request", fmt.Sprintf("relay %d returned the submitted block for a request that did not carry the signed blinded block", ri))
	}
	if _, sig, err := signedRootSig(sub); err != nil || sig != br.sig {
		fail("submitted-signature-differs", "the submitted unblinded block does not carry the signature the signer returned")
	}
	c.Count("unblinded_blocks_verified", 1)
}

func run(c *harness.Ctx) {
	harness.InitBLS()
	for i := 0; i < 10; i++ {
		harness.Keys.Key(800 + i)
	}
	n := c.N(1500, 40000)
	var wg sync.WaitGroup
	sem := make(chan struct{}, 64)
	for i := 0; i < n; i++ {
		id := fmt.Sprintf("case%d", i)
		c.Case(id, func() {
			fc := genCase(c.Rand("case", i))
			wg.Add(1)
			sem <- struct{}{}
			go func() {
				defer wg.Done()
				defer func() { <-sem }()
				runCase(c, id, fc, i)
				c.Distinct(fmt.Sprintf("%s|%v|%v|%s|%s|%s|%v%v%v", fc.Version, fc.Blinded, fc.OtherSlot, fc.Graffiti, fc.Auction, strings.Join(fc.Relays, ","), fc.SubmitErr, fc.SignErr, fc.UnblindAll))
				if i < 3 {
					c.Sample(fc)
				}
			}()
		})
	}
	// one relay returns the block at the very instant the others reject the request
	ng := c.N(4000, 60000)
	for i := 0; i < ng; i++ {
		id := fmt.Sprintf("together%d", i)
		c.Case(id, func() {
			r := c.Rand("together", i)
			fc := &fcase{Version: []string{"bellatrix", "capella", "deneb"}[r.Intn(3)], Blinded: true, Graffiti: "ok", Auction: "winner", AccountKind: r.Intn(4), Gated: true}
			n := 3 + r.Intn(5)
			if i%3 != 0 {
				n = 40 + r.Intn(60) // many relays: the more of them answer at once, the likelier two of them meet
			}
			for k := 0; k < n; k++ {
				fc.Relays = append(fc.Relays, []string{"400", "400", "error"}[r.Intn(3)])
				fc.Listed = append(fc.Listed, k)
			}
			fc.Relays[r.Intn(n)] = "block"
			wg.Add(1)
			sem <- struct{}{}
			go func() {
				defer wg.Done()
				defer func() { <-sem }()
				runCase(c, id, fc, 100000+i)
				c.Count("cases_with_relays_answering_together", 1)
				c.Distinct(fmt.Sprintf("together|%s|%d", fc.Version, n))
			}()
		})
	}
	wg.Wait()
}

var _ builderclient.UnblindedProposalProvider = (*harness.Relay)(nil)

func main() {
	harness.StartStallMonitor()
	harness.Main(&harness.Spec{
		Property:     "C05",
		Level:        "exploration",
		Rule:         "proposal duties over versions phase0..deneb x full/blinded x {proposal for the duty slot, for another slot} x graffiti {ok, error, timeout of the source, no provider} x auction {no auctioneer, error, result without winner, winner with a random listed subset} x per-relay unblinding {block, 400, transient error then block, error, slow, hang, answer without block} x {submission error, block signing error, unblind-from-all} x {block built for the duty validator, for another proposer index} x {body whose root cannot be computed} x {auction answers at once, after 2.3 s}; nodes and signer refuse a request whose context has ended; plus blinded proposals whose 3-100 relays all answer at the same instant, one of them with the block; Prepare then Propose on the real proposer with the real signer. distinct = the whole assignment",
		Batches:      func(string) int { return 2 },
		Parallel:     2,
		Run:          run,
		MinDistinct:  150,
		ChildTimeout: func(string) time.Duration { return 40 * time.Minute },
		Assumptions:  []string{"when no relay returns a full block Propose waits on its context (reported under C20); the driver cancels it after 2.5 s and requires it to return then", "a case during which the stall monitor saw the process starved of CPU (wake-up delay above 60 ms) is counted under cases_not_judged_process_stalled and not judged: the service's timeouts and the driver's watchdog are wall-clock", "BodyRoot/Root of blocks are computed with the client library; header signing root with the reference merkleisation"},
	})
}
