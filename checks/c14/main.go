// C14: future attester duties are all subscribed; every selected aggregator aggregates.
// Monitor: the real beacon committee subscriber and the real attestation aggregator's selection (real signer,
// BLS accounts), stand-alone and inside the real controller in virtual time (AttestAndScheduleAggregate);
// oracle: subscriptions = {(slot, committee) with a duty after the current slot}; is_aggregator recomputed from
// the spec rule on the validator's slot signature; after attesting, one aggregation job per committee of the slot
// with a selected aggregator, whose run aggregates for that validator, signature and attestation data root.
package main

import (
	"context"
	"crypto/sha256"
	"encoding/binary"
	"errors"
	"fmt"
	"math/rand"
	"sort"
	"sync"
	"time"

	apiv1 "github.com/attestantio/go-eth2-client/api/v1"
	"github.com/attestantio/go-eth2-client/spec/phase0"
	"github.com/attestantio/vouch/mock"
	"github.com/attestantio/vouch/services/attestationaggregator"
	aggstd "github.com/attestantio/vouch/services/attestationaggregator/standard"
	"github.com/attestantio/vouch/services/attester"
	"github.com/attestantio/vouch/services/beaconcommitteesubscriber"
	substd "github.com/attestantio/vouch/services/beaconcommitteesubscriber/standard"
	nullmetrics "github.com/attestantio/vouch/services/metrics/null"
	signerstd "github.com/attestantio/vouch/services/signer/standard"
	"github.com/rs/zerolog"
	e2wtypes "github.com/wealdtech/go-eth2-wallet-types/v2"
	"verif/checks/ctlsim"
	"verif/harness"
)

const target = 16 // TARGET_AGGREGATORS_PER_COMMITTEE

// expected slot signature and aggregator selection of a validator for a slot and committee size
func slotSig(a harness.Acct, slot, spe uint64) phase0.BLSSignature {
	d := harness.DomainFor(harness.DomainTypes["DOMAIN_SELECTION_PROOF"], slot/spe, false)
	root := harness.RefSigningRoot(harness.U64Chunk(slot), d[:])
	var sig phase0.BLSSignature
	copy(sig[:], harness.Keys.Key(keyOf(a)).Sign(root[:]).Marshal())
	return sig
}

var keyNo = map[string]int{}
var keyMu sync.Mutex

func keyOf(a harness.Acct) int {
	keyMu.Lock()
	defer keyMu.Unlock()
	return keyNo[a.Name()]
}

func isAggregator(sig phase0.BLSSignature, size uint64) bool {
	modulo := size / target
	if modulo == 0 {
		modulo = 1
	}
	h := sha256.Sum256(sig[:])
	return binary.LittleEndian.Uint64(h[:8])%modulo == 0
}

// subRec records submitted subscriptions.
type subRec struct {
	mu   sync.Mutex
	subs [][]*apiv1.BeaconCommitteeSubscription
}

func (s *subRec) SubmitBeaconCommitteeSubscriptions(_ context.Context, subs []*apiv1.BeaconCommitteeSubscription) error {
	s.mu.Lock()
	s.subs = append(s.subs, subs)
	s.mu.Unlock()
	return nil
}

// aggWrap: real selection, recorded aggregation.
type aggWrap struct {
	real      *aggstd.Service
	failSlots map[uint64]bool // slots for which the signer is down when the selection proofs are asked for
	hold      chan struct{}   // when set, selection proofs wait for it (a slow remote signer)
	mu        sync.Mutex
	runs      []*attestationaggregator.Duty
}

func (a *aggWrap) Aggregate(_ context.Context, d *attestationaggregator.Duty) {
	a.mu.Lock()
	a.runs = append(a.runs, d)
	a.mu.Unlock()
}
func (a *aggWrap) setHold(h chan struct{}) { a.mu.Lock(); a.hold = h; a.mu.Unlock() }

func (a *aggWrap) AggregatorsAndSignatures(ctx context.Context, accounts []e2wtypes.Account, slot phase0.Slot, sizes []uint64) ([]phase0.BLSSignature, []bool, error) {
	if a.failSlots[uint64(slot)] {
		return nil, nil, errors.New("signer unavailable")
	}
	a.mu.Lock()
	hold := a.hold
	a.mu.Unlock()
	if hold != nil {
		<-hold
	}
	return a.real.AggregatorsAndSignatures(ctx, accounts, slot, sizes)
}

type duty struct {
	V, Slot, Committee, Size, Pos uint64
}

func history(c *harness.Ctx, id string, r *rand.Rand) {
	ctx := context.Background()
	spe := uint64(8)
	cas := uint64(3) // committees per slot
	epoch := uint64(3 + r.Intn(3))
	r0 := rand.New(rand.NewSource(r.Int63()))
	switch r0.Intn(5) {
	case 0:
		// a full-size epoch: more (slot, committee) pairs than attestation subnets, so that pairs share subnets
		spe, cas = 32, uint64([]int{4, 8}[r0.Intn(2)])
	case 1:
		epoch = 0 // the chain's first epochs
	}
	nVal := 3 + r.Intn(6)
	vals := make([]uint64, nVal)
	accts := map[uint64]harness.Acct{}
	for i := range vals {
		vals[i] = uint64(20 + i)
		a := harness.NewAcct(harness.KindPlain, "W", fmt.Sprintf("c14v%d", i), 1000+i, phase0.ValidatorIndex(vals[i]), nil)
		keyMu.Lock()
		keyNo[a.Name()] = 1000 + i
		keyMu.Unlock()
		accts[vals[i]] = a
	}
	start := epoch*spe + uint64(r.Intn(int(spe)))
	// duties of this epoch and the next: few slots, 1-3 committees per slot, sizes from "always aggregator" to ~5%
	sizes := []uint64{8, 31, 64, 128, 320, 2 * target, 2*target + 1, 3*target - 1, 3 * target} // incl. the sizes at which the selection modulus steps
	mk := func(e uint64) []duty {
		var ds []duty
		slots := []uint64{e*spe + uint64(r.Intn(int(spe))), e*spe + uint64(r.Intn(int(spe))), e*spe + uint64(r.Intn(int(spe)))}
		csize := map[[2]uint64]uint64{}
		for _, v := range vals {
			s := slots[r.Intn(len(slots))]
			k := uint64(r.Intn(3))
			if _, ok := csize[[2]uint64{s, k}]; !ok {
				csize[[2]uint64{s, k}] = sizes[r.Intn(len(sizes))]
			}
			ds = append(ds, duty{V: v, Slot: s, Committee: k, Size: csize[[2]uint64{s, k}], Pos: uint64(r.Intn(8))})
		}
		return ds
	}
	script := map[uint64][]duty{epoch: mk(epoch), epoch + 1: mk(epoch + 1), epoch + 2: mk(epoch + 2)}

	specP := harness.NewSpec(spe, map[string]any{"TARGET_AGGREGATORS_PER_COMMITTEE": uint64(target)})
	sg, err := signerstd.New(ctx, signerstd.WithLogLevel(zerolog.Disabled), signerstd.WithMonitor(nullmetrics.New()), signerstd.WithClientMonitor(nullmetrics.New()),
		signerstd.WithSpecProvider(specP), signerstd.WithDomainProvider(harness.RecDomains{}))
	if err != nil {
		c.Inconclusive(err.Error())
		return
	}
	subs := &subRec{}
	var aw *aggWrap
	// In some histories the signer is down for the selection proofs of a few duty slots: nothing is demanded for those
	// slots, everything for the others (the subscriber works on the slots of an epoch side by side, few at a time).
	failSlots := map[uint64]bool{}
	conc := int64(4)
	if r0.Intn(4) == 0 {
		conc = int64(1 + r0.Intn(2))
		for _, ds := range script {
			for k := 0; k < 1+r0.Intn(2); k++ {
				failSlots[ds[r0.Intn(len(ds))].Slot] = true
			}
		}
		c.Count("histories_with_failing_selection_proofs", 1)
	}
	opts := ctlsim.Options{SlotsPerEpoch: spe, EpochsPerPeriod: 4, StartSlot: start, Validators: vals, Accounts: accts}
	opts.Subscriber = func(e *ctlsim.Env) beaconcommitteesubscriber.Service {
		real, err := aggstd.New(ctx, aggstd.WithLogLevel(zerolog.Disabled), aggstd.WithSpecProvider(specP), aggstd.WithMonitor(nullmetrics.New()),
			aggstd.WithValidatingAccountsProvider(acctsOf(e)), aggstd.WithAggregateAttestationProvider(mock.NewAggregateAttestationProvider()),
			aggstd.WithAggregateAttestationsSubmitter(mock.NewAggregateAttestationsSubmitter()), aggstd.WithSlotSelectionSigner(sg), aggstd.WithAggregateAndProofSigner(sg), aggstd.WithChainTime(e.Clock))
		if err != nil {
			panic(err)
		}
		aw = &aggWrap{real: real, failSlots: failSlots}
		s, err := substd.New(ctx, substd.WithLogLevel(zerolog.Disabled), substd.WithProcessConcurrency(conc), substd.WithMonitor(nullmetrics.New()), substd.WithChainTimeService(e.Clock),
			substd.WithAttesterDutiesProvider(e.Duties), substd.WithAttestationAggregator(aw), substd.WithBeaconCommitteeSubmitter(subs))
		if err != nil {
			panic(err)
		}
		return trackedSub{s, e}
	}
	env, err := ctlsim.New(opts)
	if err != nil {
		c.Inconclusive(err.Error())
		return
	}
	// the aggregator given to the controller is the same wrapper (created when the subscriber is built)
	for e, ds := range script {
		for _, d := range ds {
			env.Duties.Attester[e] = append(env.Duties.Attester[e], &apiv1.AttesterDuty{Slot: phase0.Slot(d.Slot), ValidatorIndex: phase0.ValidatorIndex(d.V), CommitteeIndex: phase0.CommitteeIndex(d.Committee),
				CommitteeLength: d.Size, CommitteesAtSlot: cas, ValidatorCommitteeIndex: d.Pos})
		}
	}
	// attestation data root per (slot, committee) as the (fake) attester reports it
	env.AttestReturn = func(d *attester.Duty) []*phase0.Attestation {
		var out []*phase0.Attestation
		for i := range d.ValidatorIndices() {
			data := &phase0.AttestationData{Slot: d.Slot(), Index: d.CommitteeIndices()[i], Source: &phase0.Checkpoint{Epoch: 1}, Target: &phase0.Checkpoint{Epoch: phase0.Epoch(uint64(d.Slot()) / spe)}}
			data.BeaconBlockRoot[0] = byte(d.Slot())
			out = append(out, &phase0.Attestation{Data: data})
		}
		return out
	}
	env.Opts.Aggregator = nil
	lateAgg := &lateAggregator{get: func() *aggWrap { return aw }}
	env.Opts.Aggregator = lateAgg
	if r0.Intn(4) == 0 {
		// place the wall clock late in the first duty slot after the start (after the aggregation delay, before the slot's
		// end): an attestation that completes late in its slot still gets its aggregation jobs
		first := uint64(0)
		for _, d := range script[epoch] {
			if d.Slot > start && (first == 0 || d.Slot < first) {
				first = d.Slot
			}
		}
		if first > 0 {
			env.Clock.Genesis = time.Now().Add(-(time.Duration(first)*ctlsim.SlotDuration + 9*time.Second))
			c.Count("histories_with_wall_clock_late_in_a_duty_slot", 1)
		}
	}
	if err := env.Start(); err != nil {
		c.Inconclusive("controller.New: " + err.Error())
		return
	}
	detail := func() map[string]any {
		return map[string]any{"start_slot": start, "duties": script, "slots_per_epoch": spe, "clock_slot": uint64(env.Clock.CurrentSlot())}
	}
	fail := func(key, what string) { c.Violate(key, what, id, detail()) }
	aborted := false // a subscription call that never returned: nothing further can be judged (and every settle would time out)

	// ---- subscriptions submitted at start for the current and next epoch ----
	expectSubs := func(e, now uint64) map[[2]uint64]bool {
		want := map[[2]uint64]bool{}
		for _, d := range script[e] {
			if d.Slot > now && !failSlots[d.Slot] {
				agg := isAggregator(slotSig(accts[d.V], d.Slot, spe), d.Size)
				want[[2]uint64{d.Slot, d.Committee}] = want[[2]uint64{d.Slot, d.Committee}] || agg
			}
		}
		return want
	}
	checkSubs := func(stage string, epochs []uint64, now uint64, fromBatch int) {
		want := map[[2]uint64]bool{}
		for _, e := range epochs {
			for k, v := range expectSubs(e, now) {
				want[k] = v
			}
		}
		ok := env.Eventually(func() bool {
			subs.mu.Lock()
			defer subs.mu.Unlock()
			got := map[[2]uint64]bool{}
			for bi, b := range subs.subs {
				if bi < fromBatch {
					continue
				}
				for _, s := range b {
					got[[2]uint64{uint64(s.Slot), uint64(s.CommitteeIndex)}] = true
				}
			}
			for k := range want {
				if !got[k] {
					return false
				}
			}
			return true
		})
		subs.mu.Lock()
		defer subs.mu.Unlock()
		got := map[[2]uint64]*apiv1.BeaconCommitteeSubscription{}
		for bi, b := range subs.subs {
			if bi < fromBatch {
				continue
			}
			for _, s := range b {
				got[[2]uint64{uint64(s.Slot), uint64(s.CommitteeIndex)}] = s
			}
		}
		if !ok {
			aborted = true
			for k := range want {
				if got[k] == nil {
					past := false
					for _, e := range epochs {
						for _, d := range script[e] {
							if d.Slot <= now {
								past = true
							}
						}
					}
					key := "subscription-missing"
					if past {
						key += ":other-duties-of-the-epoch-in-the-past"
					}
					fail(key+":"+stage, fmt.Sprintf("no beacon committee subscription for slot %d committee %d although a duty lies after the current slot %d", k[0], k[1], now))
					break
				}
			}
		}
		for k, s := range got {
			w, expected := want[k]
			if !expected {
				if k[0] <= now && k[0]/spe >= epochs[0] {
					fail("subscription-for-non-future-slot:"+stage, fmt.Sprintf("subscription submitted for slot %d which is not after the current slot %d", k[0], now))
				}
				continue
			}
			if s.IsAggregator != w {
				fail("is-aggregator-wrong:"+stage, fmt.Sprintf("subscription for slot %d committee %d has is_aggregator=%v, the selection rule on the validators' slot signatures gives %v", k[0], k[1], s.IsAggregator, w))
			}
			c.Count("subscriptions_checked", 1)
		}
	}
	checkSubs("start", []uint64{epoch, epoch + 1}, start, 0)
	if aborted {
		return
	}

	// ---- attest each remaining duty slot of the epoch and the next; aggregation jobs must follow ----
	last := (epoch+2)*spe - 1
	reorgSlot := (epoch+1)*spe + 1 + uint64(r.Intn(int(spe)-2))
	if r.Intn(3) == 0 {
		reorgSlot = 0 // no reorg in this history
	}
	inflightReorg := r0.Intn(2) == 0
	if inflightReorg && reorgSlot != 0 {
		// ... at a slot that has a duty under the assignment of before the reorg
		for _, d := range script[epoch+1] {
			if d.Slot > (epoch+1)*spe {
				reorgSlot = d.Slot
				break
			}
		}
	}
	for s := start + 1; s <= last; s++ {
		env.Clock.SetSlot(phase0.Slot(s))
		if s%spe == 0 {
			env.Sched.RunSync("Epoch ticker")
			env.Settle()
		}
		// a reorg in the second epoch: first an event that only records the roots, later one whose previous
		// dependent root differs, delivered at a duty slot before that slot's attestation has run
		if s/spe == epoch {
			env.HeadEvent(s, 7, 1) // the node's head event of every slot of the first epoch (roots unchanged)
		}
		if s == (epoch+1)*spe {
			env.HeadEvent(s, 1, 2)
		}
		var handed []duty // set when this slot's attestation was handed an assignment that a reorg has since replaced
		if s == reorgSlot {
			old := script[epoch+1]
			fresh := mk(epoch + 1)
			fresh[0].Slot = s // the slot that is running keeps a duty
			fresh[0].Size = 8 // ... of a committee in which everybody aggregates
			for i := range fresh {
				if i > 0 && fresh[i].Slot == s && fresh[i].Committee == fresh[0].Committee {
					fresh[i].Size = 8
				}
			}
			script[epoch+1] = fresh
			env.Duties.Attester[epoch+1] = nil
			for _, d := range fresh {
				env.Duties.Attester[epoch+1] = append(env.Duties.Attester[epoch+1], &apiv1.AttesterDuty{Slot: phase0.Slot(d.Slot), ValidatorIndex: phase0.ValidatorIndex(d.V), CommitteeIndex: phase0.CommitteeIndex(d.Committee),
					CommitteeLength: d.Size, CommitteesAtSlot: cas, ValidatorCommitteeIndex: d.Pos})
			}
			subs.mu.Lock()
			from := len(subs.subs)
			subs.mu.Unlock()
			attName := fmt.Sprintf("Attestations for slot %d", s)
			if _, pending := env.PendingOneOff()[attName]; pending && inflightReorg {
				// The slot's attestation is under way when the event arrives, and it completes while the refreshed duties
				// are still being subscribed (the signer is slow): its aggregation jobs are those of the assignment it
				// was handed, taken from the subscription information stored for it.
				env.RunDueJobs(env.Clock.StartOfSlot(phase0.Slot(s)).Add(ctlsim.AttDelay))
				gate := make(chan struct{})
				env.SetAttestGate(gate)
				_ = env.Sched.RunJob(ctx, attName)
				env.SettleBusy()
				hold := make(chan struct{})
				aw.setHold(hold)
				ev := &apiv1.HeadEvent{Slot: phase0.Slot(s)}
				ev.Block[0], ev.Block[1], ev.PreviousDutyDependentRoot[0], ev.CurrentDutyDependentRoot[0] = byte(s), 0xb1, 101, 2
				env.Bus.Emit("head", ev)
				env.SettleBusy()
				env.SetAttestGate(nil)
				close(gate)
				env.Sched.Wait()
				env.SettleBusy()
				handed = old
				for _, d := range old {
					if d.Slot == s && isAggregator(slotSig(accts[d.V], d.Slot, spe), d.Size) && !failSlots[s] {
						name := fmt.Sprintf("Beacon block attestation aggregation for slot %d committee %d", s, d.Committee)
						if _, exists := env.PendingOneOff()[name]; !exists {
							fail("aggregation-job-missing:attestation-completed-during-duty-refresh", fmt.Sprintf("the attestation of slot %d completed while the refreshed duties of the epoch were being subscribed; no aggregation job exists for committee %d whose validator %d is a selected aggregator", s, d.Committee, d.V))
						}
						c.Count("aggregators_judged_during_refresh", 1)
					}
				}
				aw.setHold(nil)
				close(hold)
				env.Settle()
				c.Count("reorgs_with_attestation_under_way", 1)
			} else {
				env.HeadEvent(s, 101, 2)
			}
			checkSubs("reorg", []uint64{epoch + 1}, s, from)
			if aborted {
				return
			}
			c.Count("reorgs_with_changed_duties", 1)
		}
		judge := script[s/spe] // the assignment this slot's attestation and aggregation are judged by
		if handed != nil {
			judge = handed
		}
		// run the jobs due in this slot up to the attestation (slot start + 4 s), then look at the aggregation jobs
		env.RunDueJobs(env.Clock.StartOfSlot(phase0.Slot(s)).Add(ctlsim.AttDelay + time.Second))
		committees := map[uint64]*duty{} // committee -> an aggregator duty of ours (nil entry = none selected)
		hasDuty := false
		for _, d := range judge {
			if d.Slot != s {
				continue
			}
			hasDuty = true
			d := d
			if isAggregator(slotSig(accts[d.V], d.Slot, spe), d.Size) {
				if committees[d.Committee] == nil {
					committees[d.Committee] = &d
				}
			} else if _, ok := committees[d.Committee]; !ok {
				committees[d.Committee] = nil
			}
		}
		attestedNow := false
		for _, ev := range env.Recorded() {
			if ev.Kind == "attest" && ev.Slot == s {
				attestedNow = true
			}
		}
		if hasDuty && !attestedNow {
			c.Count("duty_slots_not_attested_(current_slot_at_refresh)", 1)
		}
		if hasDuty && attestedNow && failSlots[s] {
			c.Count("attested_slots_without_selection_proofs", 1)
		}
		if hasDuty && attestedNow && !failSlots[s] {
			nAgg := 0
			for k, ad := range committees {
				name := fmt.Sprintf("Beacon block attestation aggregation for slot %d committee %d", s, k)
				at, exists := env.PendingOneOff()[name]
				if ad == nil {
					if exists {
						fail("aggregation-job-without-aggregator", fmt.Sprintf("aggregation job for slot %d committee %d although none of our validators there is a selected aggregator", s, k))
					}
					continue
				}
				nAgg++
				if !exists {
					key := "aggregation-job-missing"
					if nAgg > 1 {
						key += ":second-committee-of-the-slot"
					}
					fail(key, fmt.Sprintf("after attesting at slot %d no aggregation job exists for committee %d whose validator %d is a selected aggregator", s, k, ad.V))
					continue
				}
				if !at.Equal(env.Clock.StartOfSlot(phase0.Slot(s)).Add(ctlsim.AggDelay)) {
					fail("aggregation-job-time-wrong", fmt.Sprintf("aggregation job for slot %d committee %d timed %v after the slot start", s, k, at.Sub(env.Clock.StartOfSlot(phase0.Slot(s)))))
				}
				c.Count("aggregation_jobs_checked", 1)
			}
			var szs []string
			nv := 0
			for _, d := range judge {
				if d.Slot == s {
					nv++
					szs = append(szs, fmt.Sprint(d.Size))
				}
			}
			sort.Strings(szs)
			c.Distinct(fmt.Sprintf("slot|committees:%d|aggregators:%d|validators:%d|sizes:%v|past:%v", len(committees), nAgg, nv, szs, s <= start+1))
		}
		before := len(aw.runs)
		env.RunDueJobs(env.Clock.StartOfSlot(phase0.Slot(s + 1)))
		// the aggregation runs of this slot
		aw.mu.Lock()
		runs := append([]*attestationaggregator.Duty{}, aw.runs[before:]...)
		aw.mu.Unlock()
		// every committee of the slot for which a job was demanded is aggregated for, with that committee's attestation data
		if hasDuty && attestedNow && !failSlots[s] {
			for k, ad := range committees {
				if ad == nil {
					continue
				}
				data := &phase0.AttestationData{Slot: phase0.Slot(s), Index: phase0.CommitteeIndex(k), Source: &phase0.Checkpoint{Epoch: 1}, Target: &phase0.Checkpoint{Epoch: phase0.Epoch(s / spe)}}
				data.BeaconBlockRoot[0] = byte(s)
				root, _ := data.HashTreeRoot()
				found := false
				for _, run := range runs {
					if uint64(run.Slot) == s && run.AttestationDataRoot == root {
						found = true
					}
				}
				if !found {
					fail("aggregation-run-missing-for-committee", fmt.Sprintf("the aggregation jobs of slot %d have run; none of them aggregated the attestation data of committee %d, in which validator %d is a selected aggregator (%d runs in the slot)", s, k, ad.V, len(runs)))
				}
				c.Count("committees_with_aggregation_run_checked", 1)
			}
		}
		for _, run := range runs {
			ok := false
			for _, d := range judge {
				if d.Slot == uint64(run.Slot) && d.V == uint64(run.ValidatorIndex) && isAggregator(slotSig(accts[d.V], d.Slot, spe), d.Size) {
					data := &phase0.AttestationData{Slot: run.Slot, Index: phase0.CommitteeIndex(d.Committee), Source: &phase0.Checkpoint{Epoch: 1}, Target: &phase0.Checkpoint{Epoch: phase0.Epoch(uint64(run.Slot) / spe)}}
					data.BeaconBlockRoot[0] = byte(run.Slot)
					root, _ := data.HashTreeRoot()
					if run.SlotSignature == slotSig(accts[d.V], d.Slot, spe) && run.AttestationDataRoot == root {
						ok = true
					}
				}
			}
			if !ok {
				fail("aggregation-run-wrong", fmt.Sprintf("Aggregate ran for slot %d validator %d with a slot signature / data root that is not that of a selected aggregator's attestation", run.Slot, run.ValidatorIndex))
			}
			c.Count("aggregation_runs_checked", 1)
		}
		// "Prepare for epoch" ran mid-epoch: the following epoch gets subscribed from here on
		if s%spe == spe/2+1 && s/spe == epoch+1 {
			checkSubs("prepare", []uint64{epoch + 2}, s, 0)
			if aborted {
				return
			}
		}
	}
}

// trackedSub lets the driver's quiescence detection see a subscription in progress.
type trackedSub struct {
	real beaconcommitteesubscriber.Service
	e    *ctlsim.Env
}

func (t trackedSub) Subscribe(ctx context.Context, epoch phase0.Epoch, accounts map[phase0.ValidatorIndex]e2wtypes.Account) (map[phase0.Slot]map[phase0.CommitteeIndex]*beaconcommitteesubscriber.Subscription, error) {
	t.e.Busy(1)
	defer func() {
		// the controller stores the result right after we return
		go func() { time.Sleep(2 * time.Millisecond); t.e.Busy(-1) }()
	}()
	return t.real.Subscribe(ctx, epoch, accounts)
}

type acctsProv struct{ e *ctlsim.Env }

func acctsOf(e *ctlsim.Env) acctsProv { return acctsProv{e} }
func (a acctsProv) get(idx []phase0.ValidatorIndex) map[phase0.ValidatorIndex]e2wtypes.Account {
	out := map[phase0.ValidatorIndex]e2wtypes.Account{}
	for v, x := range a.e.Accts {
		if idx == nil {
			out[phase0.ValidatorIndex(v)] = x
		}
	}
	for _, i := range idx {
		if x, ok := a.e.Accts[uint64(i)]; ok {
			out[i] = x
		}
	}
	return out
}
func (a acctsProv) ValidatingAccountsForEpoch(context.Context, phase0.Epoch) (map[phase0.ValidatorIndex]e2wtypes.Account, error) {
	return a.get(nil), nil
}
func (a acctsProv) ValidatingAccountsForEpochByIndex(_ context.Context, _ phase0.Epoch, idx []phase0.ValidatorIndex) (map[phase0.ValidatorIndex]e2wtypes.Account, error) {
	if idx == nil {
		idx = []phase0.ValidatorIndex{}
	}
	return a.get(idx), nil
}
func (a acctsProv) SyncCommitteeAccountsForEpoch(context.Context, phase0.Epoch) (map[phase0.ValidatorIndex]e2wtypes.Account, error) {
	return a.get(nil), nil
}
func (a acctsProv) SyncCommitteeAccountsForEpochByIndex(_ context.Context, _ phase0.Epoch, idx []phase0.ValidatorIndex) (map[phase0.ValidatorIndex]e2wtypes.Account, error) {
	return a.ValidatingAccountsForEpochByIndex(context.Background(), 0, idx)
}

// lateAggregator forwards to the wrapper that is created when the subscriber is built.
type lateAggregator struct{ get func() *aggWrap }

func (l *lateAggregator) Aggregate(ctx context.Context, d *attestationaggregator.Duty) {
	l.get().Aggregate(ctx, d)
}
func (l *lateAggregator) AggregatorsAndSignatures(ctx context.Context, accounts []e2wtypes.Account, slot phase0.Slot, sizes []uint64) ([]phase0.BLSSignature, []bool, error) {
	return l.get().AggregatorsAndSignatures(ctx, accounts, slot, sizes)
}

func run(c *harness.Ctx) {
	harness.InitBLS()
	for i := 0; i < 10; i++ {
		harness.Keys.Key(1000 + i)
	}
	n := c.N(300, 10000)
	var wg sync.WaitGroup
	sem := make(chan struct{}, 16)
	for i := 0; i < n; i++ {
		id := fmt.Sprintf("hist%d", i)
		c.Case(id, func() {
			wg.Add(1)
			sem <- struct{}{}
			go func() {
				defer wg.Done()
				defer func() { <-sem }()
				history(c, id, c.Rand("hist", i))
			}()
		})
	}
	wg.Wait()
}

var _ = sort.Strings

func main() {
	harness.Main(&harness.Spec{
		Property:     "C14",
		Level:        "exploration",
		Rule:         "controller histories in virtual time with the real beacon committee subscriber and the real aggregator selection (real signer, BLS keys): 3-8 validators with attester duties over three slots per epoch (before, at and after the start instant), 1-3 committees per slot and 1-3 of our validators per committee, committee sizes 8..320 (aggregator rates 100%..5%); subscriptions checked at start (current and next epoch) and after the mid-epoch preparation; every duty slot of two epochs is attested and the aggregation jobs and their runs are checked. distinct = (committees at a slot, committees with a selected aggregator)",
		Batches:      func(string) int { return 2 },
		Parallel:     2,
		Run:          run,
		MinDistinct:  30,
		ChildTimeout: func(string) time.Duration { return 40 * time.Minute },
		Assumptions:  []string{"the attester is a recording fake returning one attestation per validator (the real one is judged under C01/C04)", "BLS signatures are deterministic, so the expected slot signature is recomputed with the validator's key over the reference signing root", "a missing subscription is only reported after persisting for 8 s"},
	})
}
