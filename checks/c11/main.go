// C11: relays and beacon nodes are told exactly what the configuration says.
// Monitor: histories of configuration changes and registration rounds on the real block relay service and
// proposal preparer; every registration received by a relay / beacon node is compared with the reference
// resolution (refcfg) of the configuration in force and BLS-verified against an independent signing root.
package main

import (
	"context"
	"fmt"
	"math/rand"
	"sort"
	"strings"
	"sync"
	"sync/atomic"
	"time"

	relaytypes "github.com/attestantio/go-block-relay/types"
	builderapi "github.com/attestantio/go-builder-client/api"
	builderv1 "github.com/attestantio/go-builder-client/api/v1"
	consensusapi "github.com/attestantio/go-eth2-client/api"
	apiv1 "github.com/attestantio/go-eth2-client/api/v1"
	"github.com/attestantio/go-eth2-client/spec/phase0"
	"verif/checks/refcfg"
	"verif/checks/relaycommon"
	"verif/harness"
)

type round struct {
	RefreshFailedAfter bool     `json:"a_failing_refresh_followed_the_good_one,omitempty"`
	Doc                string   `json:"document"`
	FailRelays         []int    `json:"failing_relays,omitempty"`
	FailNodes          []int    `json:"failing_nodes,omitempty"`
	FailSigning        []string `json:"validators_failing_to_sign,omitempty"`
	FailSignOnce       []string `json:"validators_whose_first_signing_request_fails,omitempty"`
	SleepBefore        bool     `json:"one_second_pause_before,omitempty"`
	Unresolvable       []string `json:"unresolvable_validators,omitempty"`
}

func builderDomain() phase0.Domain {
	return harness.DomainFor(harness.DomainTypes["DOMAIN_APPLICATION_BUILDER"], 0, true)
}

func verifyReg(a harness.Acct, m *builderv1.ValidatorRegistration, sig phase0.BLSSignature) bool {
	obj := harness.RefValidatorRegistration(m.FeeRecipient[:], m.GasLimit, uint64(m.Timestamp.Unix()), m.Pubkey[:])
	d := builderDomain()
	root := harness.RefSigningRoot(obj, d[:])
	return harness.VerifySig(a, root[:], sig)
}

func history(c *harness.Ctx, id string, r *rand.Rand) {
	ctx := context.Background()
	// validators: keys 0..4 with wallet/account names that the generated account expressions can match
	var accts []harness.Acct
	var vals []refcfg.Validator
	nVal := 2 + r.Intn(4)
	for i := 0; i < nVal; i++ {
		v := refcfg.Validator{KeyNo: i, Wallet: refcfg.Wallets[r.Intn(len(refcfg.Wallets))], Acct: refcfg.AcctNames[r.Intn(len(refcfg.AcctNames))]}
		vals = append(vals, v)
		// key numbers: the account's public key must be refcfg.PubOf(i)?  No: proposer entries by key use the validator's real key.
		accts = append(accts, harness.NewAcct(harness.KindPlain, v.Wallet, v.Acct, 700+i, phase0.ValidatorIndex(9000+i), nil))
	}
	env, err := relaycommon.NewEnv(accts, 2, relaycommon.Outcome{Kind: "error"}, nil)
	if err != nil {
		c.Inconclusive("cannot build block relay service: " + err.Error())
		return
	}
	// one validator may be a round away from activation: validating from the next epoch on ("about to be active")
	if r.Intn(3) == 0 {
		env.Accounts.SetActiveFrom(phase0.ValidatorIndex(9000+r.Intn(nVal)), env.Clock.CurrentEpoch()+1)
	}
	// documents A, B (and A again)
	gen := func() *refcfg.Doc2 {
		d := refcfg.GenDoc(r)
		if len(d.Relays) == 0 && r.Intn(3) != 0 {
			v := 1 + r.Intn(60)
			d.Relays = map[string]*refcfg.Relay{refcfg.RelayAddrs[r.Intn(4)]: {}, refcfg.RelayAddrs[r.Intn(4)]: {Opts: refcfg.Opts{FR: &v}}}
		}
		// proposer entries by key refer to our validators' real keys
		for _, p := range d.Proposers {
			if p.KeyNo >= 0 {
				p.KeyNo = p.KeyNo % nVal
				p.Proposer = fmt.Sprintf("%#x", accts[p.KeyNo].Pub48())
			}
		}
		env.UseRelayAddrs(d)
		return d
	}
	docs := []*refcfg.Doc2{gen(), gen()}
	nRounds := 2 + r.Intn(3)
	var rounds []round
	type seenReg struct {
		ts  int64
		sig phase0.BLSSignature
		fr  string
		gl  uint64
	}
	lastTS := map[string]int64{} // relay|validator -> last timestamp
	detail := func() map[string]any { return map[string]any{"validators": vals, "rounds": rounds} }
	for ri := 0; ri < nRounds; ri++ {
		d := docs[[]int{0, 1, 0, 1, 0}[ri]]
		if ri > 0 && r.Intn(3) == 0 {
			d = docs[r.Intn(2)]
		}
		rd := round{}
		// optionally make some validators unresolvable: a proposer entry with the zero key placed after entries for others
		doc := d
		if r.Intn(5) == 0 {
			cp := *d
			cp.Proposers = append(append([]*refcfg.Proposer{}, d.Proposers...), &refcfg.Proposer{Proposer: fmt.Sprintf("%#x", phase0.BLSPubKey{}), KeyNo: -2})
			doc = &cp
		}
		rd.Doc = doc.JSON()
		for i := 0; i < 4; i++ {
			fail := r.Intn(5) == 0
			env.Relays[env.RelayAddr(i)].RegErr = fail
			if fail {
				rd.FailRelays = append(rd.FailRelays, i)
			}
		}
		for i, n := range env.Nodes {
			n.Fail = r.Intn(4) == 0
			n.Kind = []string{"", "timeout"}[r.Intn(2)]
			if n.Fail {
				rd.FailNodes = append(rd.FailNodes, i)
			}
		}
		signFail := map[int]bool{}
		signOnce := map[int]bool{}
		for i, a := range accts {
			switch r.Intn(8) {
			case 0:
				a.SetFault(harness.FaultError)
				signFail[i] = true
				rd.FailSigning = append(rd.FailSigning, a.FullName())
			case 1:
				a.SetFault(harness.FaultErrorOnce)
				signOnce[i] = true
				rd.FailSignOnce = append(rd.FailSignOnce, a.FullName())
			default:
				a.SetFault(harness.FaultNone)
			}
		}
		if ri > 0 && r.Intn(4) == 0 {
			rd.SleepBefore = true
			time.Sleep(1100 * time.Millisecond)
		}
		// expected resolution per validator
		type want struct {
			res  *refcfg.Resolved
			unre bool
		}
		wants := make([]want, nVal)
		for i, v := range vals {
			// matching as the reference does, with the real key
			res, unre := resolve(doc, accts[i].Pub48(), refcfg.AccountName(v), env.FallbackFR, env.FallbackGL)
			wants[i] = want{res, unre}
			if unre {
				rd.Unresolvable = append(rd.Unresolvable, accts[i].FullName())
			}
		}
		rounds = append(rounds, rd)
		// mark what the relays/nodes have so far
		before := map[string]int{}
		for a, rl := range env.Relays {
			before[a] = len(rl.RegsSnapshot())
		}
		nodeBefore := make([]int, len(env.Nodes))
		prepBefore := make([]int, len(env.Nodes))
		for i, n := range env.Nodes {
			rg, pp := n.Snapshot()
			nodeBefore[i], prepBefore[i] = len(rg), len(pp)
		}
		env.Config.Set(relaycommon.Outcome{Kind: "valid", Doc: rd.Doc})
		env.Refresh()
		if r.Intn(4) == 0 {
			// a later refresh fails (source down): the round goes by the configuration obtained last
			env.Config.Set(relaycommon.Outcome{Kind: []string{"error", "not-found", "malformed"}[r.Intn(3)]})
			env.Refresh()
			rd.RefreshFailedAfter = true
		}
		env.Register()
		if err := env.Prep.UpdatePreparations(ctx); err != nil {
			c.Violate("update-preparations-error", err.Error(), id, detail())
		}
		// preparations are submitted asynchronously
		deadline := time.Now().Add(3 * time.Second)
		for time.Now().Before(deadline) {
			done := true
			for i, n := range env.Nodes {
				_, pp := n.Snapshot()
				if len(pp) <= prepBefore[i] {
					done = false
				}
			}
			if done {
				break
			}
			time.Sleep(time.Millisecond)
		}
		// ---- relays ----
		got := map[string]map[int]*builderv1.SignedValidatorRegistration{} // relay -> validator -> registration
		for a, rl := range env.Relays {
			got[a] = map[int]*builderv1.SignedValidatorRegistration{}
			regs := rl.RegsSnapshot()
			for _, batch := range regs[before[a]:] {
				for _, vr := range batch {
					if vr == nil || vr.V1 == nil || vr.V1.Message == nil {
						c.Violate("malformed-registration", "relay received a registration without message", id, detail())
						continue
					}
					vi := -1
					for i, acc := range accts {
						if acc.Pub48() == vr.V1.Message.Pubkey {
							vi = i
						}
					}
					if vi < 0 {
						c.Violate("registration-for-unknown-key", "relay received a registration naming a key that is none of the validators'", id, detail())
						continue
					}
					if _, dup := got[a][vi]; dup {
						c.Violate("duplicate-registration", fmt.Sprintf("relay %s received two registrations for %s in one round", a, accts[vi].FullName()), id, detail())
					}
					got[a][vi] = vr.V1
				}
			}
		}
		for i := range vals {
			w := wants[i]
			missingForOnce := 0
			for a := range env.Relays {
				reg := got[a][i]
				var wr *refcfg.RRelay
				if w.res != nil {
					wr = w.res.Relays[a]
				}
				expect := wr != nil && !w.unre && !signFail[i]
				switch {
				case expect && reg == nil && signOnce[i] && missingForOnce == 0:
					missingForOnce++ // the one relay whose signing request failed
				case expect && reg == nil:
					key := "registration-missing"
					if signOnce[i] {
						key = "registration-missing:after-one-signing-failure-for-another-relay"
					}
					if len(rd.Unresolvable) > 0 {
						key = "registration-missing:another-validator-unresolvable"
					} else if len(rd.FailSigning) > 0 {
						key = "registration-missing:another-validator-signing-failed"
					} else if len(rd.FailRelays) > 0 {
						key = "registration-missing:another-relay-failing"
					}
					c.Violate(key, fmt.Sprintf("round %d: relay %s did not receive a registration for %s although its settings list that relay", ri, a, accts[i].FullName()), id, detail())
				case !expect && reg != nil && (wr == nil || w.unre):
					c.Violate("registration-to-unconfigured-relay", fmt.Sprintf("round %d: relay %s received a registration for %s whose settings do not list it", ri, a, accts[i].FullName()), id, detail())
				case reg != nil && wr != nil:
					m := reg.Message
					if m.FeeRecipient != wr.FR || m.GasLimit != wr.GL {
						c.Violate("registration-content-wrong", fmt.Sprintf("round %d: relay %s got fee recipient %#x gas limit %d for %s, settings resolve to %#x / %d",
							ri, a, m.FeeRecipient, m.GasLimit, accts[i].FullName(), wr.FR, wr.GL), id, detail())
					}
					if !verifyReg(accts[i], m, reg.Signature) {
						c.Violate("registration-signature-invalid", fmt.Sprintf("round %d: registration for %s at %s does not verify under the validator's key over the message sent", ri, accts[i].FullName(), a), id, detail())
					}
					k := fmt.Sprintf("%s|%d", a, i)
					if ts := m.Timestamp.Unix(); ts < lastTS[k] {
						c.Violate("stale-registration-reused", fmt.Sprintf("round %d: registration for %s at %s has timestamp %d, older than the %d sent before (a superseded signed registration was reused)", ri, accts[i].FullName(), a, ts, lastTS[k]), id, detail())
					} else {
						lastTS[k] = ts
					}
					c.Count("relay_registrations_verified", 1)
				}
			}
		}
		// ---- beacon nodes: a registration per validator with relays, a preparation per validator ----
		for ni, n := range env.Nodes {
			rg, pp := n.Snapshot()
			regSeen := map[int]*consensusapi.VersionedSignedValidatorRegistration{}
			for _, batch := range rg[nodeBefore[ni]:] {
				for _, vr := range batch {
					for i, acc := range accts {
						if vr != nil && vr.V1 != nil && vr.V1.Message != nil && acc.Pub48() == vr.V1.Message.Pubkey {
							regSeen[i] = vr
						}
					}
				}
			}
			for i := range vals {
				w := wants[i]
				expect := w.res != nil && len(w.res.Relays) > 0 && !w.unre && !signFail[i] && !signOnce[i]
				vr := regSeen[i]
				if expect && vr == nil {
					c.Violate("node-registration-missing", fmt.Sprintf("round %d: beacon node %d did not receive a registration for %s", ri, ni, accts[i].FullName()), id, detail())
				}
				if vr != nil && w.res != nil {
					ok := false
					for _, wr := range w.res.Relays {
						if vr.V1.Message.FeeRecipient == wr.FR && vr.V1.Message.GasLimit == wr.GL {
							ok = true
						}
					}
					if !ok {
						c.Violate("node-registration-content-wrong", fmt.Sprintf("round %d: beacon node %d got a registration for %s matching none of its relay settings", ri, ni, accts[i].FullName()), id, detail())
					}
				}
			}
			prepSeen := map[int]*apiv1.ProposalPreparation{}
			for _, batch := range pp[prepBefore[ni]:] {
				for _, p := range batch {
					if p != nil {
						prepSeen[int(p.ValidatorIndex)-9000] = p
					}
				}
			}
			for i := range vals {
				w := wants[i]
				p := prepSeen[i]
				if !w.unre && p == nil {
					c.Violate("preparation-missing", fmt.Sprintf("round %d: beacon node %d did not receive a proposal preparation for %s", ri, ni, accts[i].FullName()), id, detail())
				}
				if p != nil && w.res != nil && !w.unre && p.FeeRecipient != w.res.FR {
					c.Violate("preparation-fee-recipient-wrong", fmt.Sprintf("round %d: preparation for %s has fee recipient %#x, settings resolve to %#x", ri, accts[i].FullName(), p.FeeRecipient, w.res.FR), id, detail())
				}
				if p != nil {
					c.Count("preparations_checked", 1)
				}
			}
		}
	}
	// ---- registrations arriving over REST: controlled dropped, others forwarded unchanged ----
	foreign := harness.NewAcct(harness.KindPlain, "X", "foreign", 790, 0, nil)
	mk := func(pk phase0.BLSPubKey, n byte) *relaytypes.SignedValidatorRegistration {
		m := &relaytypes.ValidatorRegistration{GasLimit: 12345, Timestamp: time.Unix(1700000000, 0), Pubkey: pk}
		m.FeeRecipient[0] = n
		s := &relaytypes.SignedValidatorRegistration{Message: m}
		s.Signature[0], s.Signature[1] = 0xaa, n
		return s
	}
	before := map[string]int{}
	for a, rl := range env.Relays {
		rl.RegErr = false
		before[a] = len(rl.RegsSnapshot())
	}
	in := []*relaytypes.SignedValidatorRegistration{mk(foreign.Pub48(), 1), mk(accts[0].Pub48(), 2)}
	if _, err := env.Svc.ValidatorRegistrations(ctx, in); err != nil {
		c.Violate("rest-registrations-error", err.Error(), id, detail())
	}
	fres, _ := resolve(docs[0], foreign.Pub48(), "<unknown>/<unknown>", env.FallbackFR, env.FallbackGL)
	_ = fres
	for a, rl := range env.Relays {
		for _, batch := range rl.RegsSnapshot()[before[a]:] {
			for _, vr := range batch {
				if vr.V1.Message.Pubkey == accts[0].Pub48() {
					c.Violate("controlled-registration-forwarded", "a registration received over REST for a validator Vouch controls was forwarded to a relay", id, detail())
				}
				if vr.V1.Message.Pubkey == foreign.Pub48() {
					if vr.V1.Signature != in[0].Signature || vr.V1.Message.FeeRecipient != in[0].Message.FeeRecipient || vr.V1.Message.GasLimit != 12345 || !vr.V1.Message.Timestamp.Equal(in[0].Message.Timestamp) {
						c.Violate("foreign-registration-altered", "a registration for a validator Vouch does not control was not forwarded unchanged", id, detail())
					}
					c.Count("foreign_registrations_forwarded", 1)
				}
			}
		}
	}
	// fingerprint
	var fp []string
	for _, rd := range rounds {
		fp = append(fp, fmt.Sprintf("r%dn%ds%du%d%v", len(rd.FailRelays), len(rd.FailNodes), len(rd.FailSigning), len(rd.Unresolvable), rd.SleepBefore))
	}
	sort.Strings(fp)
	c.Distinct(fmt.Sprintf("%d|%s", nVal, strings.Join(fp, ",")))
}

// inflight: what happens while a registration round is under way. One relay takes its time over the round's request,
// another fails at once, and a beacon node hands in registrations over REST in the meantime (for a validator Vouch
// controls, with settings of its own choosing, and for one it does not control).
func inflight(c *harness.Ctx, id string, r *rand.Rand) {
	ctx := context.Background()
	nVal := 2 + r.Intn(3)
	var accts []harness.Acct
	for i := 0; i < nVal; i++ {
		accts = append(accts, harness.NewAcct(harness.KindPlain, "W", fmt.Sprintf("f%d", i), 700+i, phase0.ValidatorIndex(9000+i), nil))
	}
	env, err := relaycommon.NewEnv(accts, 1, relaycommon.Outcome{Kind: "error"}, nil)
	if err != nil {
		c.Inconclusive("cannot build block relay service: " + err.Error())
		return
	}
	fr := 11
	doc := &refcfg.Doc2{Opts: refcfg.Opts{FR: &fr}, Relays: map[string]*refcfg.Relay{env.RelayAddr(0): {}, env.RelayAddr(1): {}, env.RelayAddr(2): {}}}
	env.Config.Set(relaycommon.Outcome{Kind: "valid", Doc: doc.JSON()})
	env.Refresh()
	slow, failing := env.Relays[env.RelayAddr(0)], env.Relays[env.RelayAddr(1)]
	failFast := r.Intn(3) > 0
	failing.RegErr = failFast
	gate := make(chan struct{})
	var arrived atomic.Int64
	slow.SetRegHold(func(ctx context.Context) error {
		arrived.Add(1)
		select {
		case <-gate:
			return nil
		case <-ctx.Done():
			return ctx.Err()
		}
	})
	roundDone := make(chan struct{})
	go func() { env.Register(); close(roundDone) }()
	waitFor := func(cond func() bool) bool {
		for i := 0; i < 5000; i++ {
			if cond() {
				return true
			}
			time.Sleep(time.Millisecond)
		}
		return false
	}
	if !waitFor(func() bool { return arrived.Load() >= 1 }) {
		c.Inconclusive(id + ": the round's request never reached the slow relay")
		close(gate)
		return
	}
	// the round is now in flight; a beacon node's registrations arrive
	foreign := harness.NewAcct(harness.KindPlain, "X", "foreign", 790, 0, nil)
	mk := func(pk phase0.BLSPubKey, n byte) *relaytypes.SignedValidatorRegistration {
		m := &relaytypes.ValidatorRegistration{GasLimit: 12345, Timestamp: time.Unix(1700000000, 0), Pubkey: pk}
		m.FeeRecipient[0] = n
		sr := &relaytypes.SignedValidatorRegistration{Message: m}
		sr.Signature[0], sr.Signature[1] = 0xaa, n
		return sr
	}
	controlled := accts[r.Intn(nVal)]
	restDone := make(chan struct{})
	go func() {
		_, _ = env.Svc.ValidatorRegistrations(ctx, []*relaytypes.SignedValidatorRegistration{mk(foreign.Pub48(), 1), mk(controlled.Pub48(), 0xbb)})
		close(restDone)
	}()
	// let the forwarded registrations reach the slow relay as well (or the call end), then let the relay go
	waitFor(func() bool {
		select {
		case <-restDone:
			return true
		default:
			return arrived.Load() >= 2
		}
	})
	close(gate)
	for _, ch := range []chan struct{}{roundDone, restDone} {
		select {
		case <-ch:
		case <-time.After(15 * time.Second):
			c.Violate("registration-round-never-ends", "a registration round / REST registration call did not end 15 s after the slow relay had answered", id, nil)
			return
		}
	}
	detail := map[string]any{"validators": nVal, "other_relay_fails_at_once": failFast, "requests_at_slow_relay": arrived.Load()}
	c.Count("inflight_rounds", 1)
	for a, rl := range env.Relays {
		seen := map[phase0.BLSPubKey]bool{}
		for _, batch := range rl.RegsSnapshot() {
			for _, vr := range batch {
				if vr == nil || vr.V1 == nil || vr.V1.Message == nil {
					continue
				}
				m := vr.V1.Message
				for _, acc := range accts {
					if acc.Pub48() != m.Pubkey {
						continue
					}
					if !verifyReg(acc, m, vr.V1.Signature) || m.FeeRecipient != refcfg.FRAddr(fr) {
						c.Violate("controlled-registration-forwarded:during-round", fmt.Sprintf("relay %s received a registration for %s (a validator Vouch controls) with fee recipient %#x and a signature that is not the validator's: the one a beacon node handed in while the round was in flight", a, acc.FullName(), m.FeeRecipient[:4]), id, detail)
						return
					}
					seen[m.Pubkey] = true
				}
			}
		}
		if a == env.RelayAddr(3) || (a == failing.Addr && failFast) {
			continue // not configured / failing
		}
		for _, acc := range accts {
			if !seen[acc.Pub48()] {
				key := "registration-missing:slow-relay"
				if failFast {
					key = "registration-missing:slow-relay-while-another-relay-fails"
				}
				c.Violate(key, fmt.Sprintf("relay %s did not receive the round's registration for %s (it was still handling the request when the round went on)", a, acc.FullName()), id, detail)
				return
			}
		}
	}
	c.Distinct(fmt.Sprintf("inflight|%d|%v", nVal, failFast))
}

// resolve is refcfg's resolution with the validators' real keys (proposer entries by key carry them as text).
func resolve(d *refcfg.Doc2, pubkey phase0.BLSPubKey, name string, fFR [20]byte, fGL uint64) (*refcfg.Resolved, bool) {
	// an entry with KeyNo -2 is the zero key: unresolvable for whoever reaches it
	cp := *d
	cp.Proposers = nil
	for _, p := range d.Proposers {
		if p.KeyNo == -2 {
			// reached only if nothing before matched
			res := cp.ResolveWith(pubkey, name, fFR, fGL, func(p *refcfg.Proposer) bool { return strings.EqualFold(p.Proposer, fmt.Sprintf("%#x", pubkey)) })
			if res.Matched {
				return res.Resolved, false
			}
			return nil, true
		}
		cp.Proposers = append(cp.Proposers, p)
	}
	res := cp.ResolveWith(pubkey, name, fFR, fGL, func(p *refcfg.Proposer) bool { return strings.EqualFold(p.Proposer, fmt.Sprintf("%#x", pubkey)) })
	return res.Resolved, false
}

func run(c *harness.Ctx) {
	harness.InitBLS()
	for i := 0; i < 8; i++ {
		harness.Keys.Key(700 + i)
	}
	n := c.N(260, 8000)
	var wg sync.WaitGroup
	sem := make(chan struct{}, 32)
	for i := 0; i < n; i++ {
		id := fmt.Sprintf("hist%d", i)
		c.Case(id, func() {
			wg.Add(1)
			sem <- struct{}{}
			go func() {
				defer wg.Done()
				defer func() { <-sem }()
				history(c, id, c.Rand("hist", i))
			}()
		})
	}
	ni := c.N(24, 1000)
	for i := 0; i < ni; i++ {
		id := fmt.Sprintf("inflight%d", i)
		c.Case(id, func() {
			wg.Add(1)
			sem <- struct{}{}
			go func() {
				defer wg.Done()
				defer func() { <-sem }()
				inflight(c, id, c.Rand("inflight", i))
			}()
		})
	}
	wg.Wait()
}

var _ = builderapi.VersionedSignedValidatorRegistration{}

func main() {
	harness.Main(&harness.Spec{
		Property:     "C11",
		Level:        "exploration",
		Rule:         "histories of 2-4 rounds {set configuration (grammar-generated v2 documents A/B/A..., optionally with a trailing unresolvable proposer entry), refresh, registration round, proposal preparations} over 2-5 validators (real BLS keys), 4 relays and 2 beacon nodes, with random subsets of failing relays, failing beacon nodes and validators whose signing fails, and one-second pauses between some rounds, sometimes with a failing refresh after the good one; beacon nodes refuse requests containing a null entry; finally registrations arriving over REST; plus rounds held in flight at a slow relay (which gives up when its request context ends) while another relay fails at once and a beacon node hands in registrations for a controlled and a foreign validator. distinct = (validators, multiset of per-round fault patterns)",
		Batches:      func(string) int { return 2 },
		Parallel:     2,
		Run:          run,
		MinDistinct:  40,
		ChildTimeout: func(string) time.Duration { return 40 * time.Minute },
		Assumptions:  []string{"resolution reference = refcfg (as C10)", "beacon nodes receive one registration per validator (that of any one of its relays)", "stale reuse is observed through timestamps, hence only across rounds separated by the one-second pauses"},
	})
}
