// C01: see checks/attcommon (shared driver; this binary reports the C01 oracle's findings).
package main

import (
	"fmt"

	"verif/checks/attcommon"
	"verif/harness"
)

func run(c *harness.Ctx) {
	n := c.N(3000, 100000)
	for i := 0; i < n; i++ {
		id := fmt.Sprintf("hist%d", i)
		c.Case(id, func() {
			r := c.Rand("hist", i)
			h := attcommon.Generate(r)
			tr, err := attcommon.Execute(h, r)
			if err != nil {
				c.Inconclusive("setup failed: " + err.Error())
				return
			}
			if h.RealManager {
				c.Count("histories_with_the_real_account_manager", 1)
			}
			for _, f := range attcommon.Judge(h, tr) {
				if f.Prop != "C01" {
					continue
				}
				c.Violate(f.Key, f.What, id, map[string]any{"history": h, "trace": tr})
			}
			c.Count("sign_requests", int64(len(tr.Signs)))
			c.Count("submissions", int64(len(tr.Submits)))
			for _, sub := range tr.Submits {
				c.Count("attestations_verified", int64(len(sub)))
			}
			if fp := attcommon.Fingerprint(h, tr); fp != "" {
				c.Distinct(fp)
			}
			if i < 2 {
				c.Sample(map[string]any{"history": h, "trace": tr})
			}
		})
	}
	// duties with hundreds of our validators in one slot (an operator with thousands of validators), delivered twice
	for k := 0; k < c.N(6, 120); k++ {
		id := fmt.Sprintf("large-duty%d", k)
		c.Case(id, func() {
			r := c.Rand("large", k)
			nVal := 200 + r.Intn(500)
			h := &attcommon.History{SlotsPerEpoch: 32, NVal: nVal, Dirk: r.Intn(2) == 0, Merge: r.Intn(2) == 0, RealManager: r.Intn(3) == 0}
			nCom := uint64(1 + r.Intn(4))
			slot := uint64(64 + r.Intn(64))
			mk := func(s uint64) attcommon.Run {
				run := attcommon.Run{Slot: s, Sizes: map[uint64]uint64{}, DataKind: "ok"}
				for i := 0; i < nVal; i++ {
					run.Entries = append(run.Entries, attcommon.Entry{Validator: uint64(100 + i), Committee: uint64(i) % nCom, Position: uint64(i) / nCom})
				}
				for cm := uint64(0); cm < nCom; cm++ {
					run.Sizes[cm] = uint64(nVal)/nCom + 2
				}
				return run
			}
			h.Runs = []attcommon.Run{mk(slot), mk(slot), mk(slot + 1)}
			tr, err := attcommon.Execute(h, r)
			if err != nil {
				c.Inconclusive("setup failed: " + err.Error())
				return
			}
			for _, f := range attcommon.Judge(h, tr) {
				if f.Prop == "C01" {
					c.Violate(f.Key+":large-duty", f.What, id, map[string]any{"validators": nVal, "committees": nCom, "slot": slot})
				}
			}
			c.Count("large_duty_sign_requests", int64(len(tr.Signs)))
			c.Count("validators_in_large_duties", int64(nVal))
			c.Eval(1)
			c.Distinct(fmt.Sprintf("large|%d|%d", nVal/128, nCom))
		})
	}
	c.Case("first-touch-storm", func() {
		epochs := c.N(2400, 80000)
		fs, reqs := attcommon.Storm(c.Rand("storm"), epochs)
		for _, f := range fs {
			c.Violate(f.Key, f.What, "first-touch-storm", map[string]any{"epochs": epochs})
		}
		c.Count("storm_epochs", int64(epochs))
		c.Count("storm_sign_requests", int64(reqs))
		c.Eval(epochs)
		c.Distinct("storm")
	})
}

func main() {
	harness.Main(&harness.Spec{
		Property:    "C01",
		Level:       "exploration",
		Rule:        "histories of 2-10 Attest calls on one real attester over <=8 validators and <=4 epochs: re-delivery of a slot, re-assignment of a validator within the epoch, late duties of the previous epoch, overlapping runs released from a gate, attestation data scripted as ok/error/wrong slot/target above or below the duty epoch/source above target (unique block root per reply), failures of the accounts provider, per-validator signing faults and submission; every SignBeaconAttestations request recorded at the signer boundary; a quarter of the histories look the accounts up through the real wallet / Dirk account manager; a few duties hold 200-700 of our validators in one slot and are delivered twice. distinct = (runs, data kinds, repeat/skip/overlap/account-kind flags, requests, submissions); non-trivial = some validator has two duties in one epoch or some validator is skipped",
		Batches:     func(string) int { return 8 },
		Parallel:    8,
		Run:         run,
		MinDistinct: 100,
		Assumptions: []string{"a duty for epoch e is never started after an attestation for epoch e+2 has completed (slot-timed jobs; the service deliberately forgets e-2)", "BLS verification (herumi) and the reference SSZ merkleisation are trusted", "when a beacon node lists one validator twice in a duty either of its entries is accepted"},
	})
}
