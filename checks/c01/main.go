// C01: see checks/attcommon (shared driver; this binary reports the C01 oracle's findings).
package main

import (
	"fmt"

	"verif/checks/attcommon"
	"verif/harness"
)

func run(c *harness.Ctx) {
	n := c.N(3000, 100000)
	for i := 0; i < n; i++ {
		id := fmt.Sprintf("hist%d", i)
		c.Case(id, func() {
			r := c.Rand("hist", i)
			h := attcommon.Generate(r)
			tr, err := attcommon.Execute(h, r)
			if err != nil {
				c.Inconclusive("setup failed: " + err.Error())
				return
			}
			for _, f := range attcommon.Judge(h, tr) {
				if f.Prop != "C01" {
					continue
				}
				c.Violate(f.Key, f.What, id, map[string]any{"history": h, "trace": tr})
			}
			c.Count("sign_requests", int64(len(tr.Signs)))
			c.Count("submissions", int64(len(tr.Submits)))
			for _, sub := range tr.Submits {
				c.Count("attestations_verified", int64(len(sub)))
			}
			if fp := attcommon.Fingerprint(h, tr); fp != "" {
				c.Distinct(fp)
			}
			if i < 2 {
				c.Sample(map[string]any{"history": h, "trace": tr})
			}
		})
	}
	c.Case("first-touch-storm", func() {
		epochs := c.N(2400, 80000)
		fs, reqs := attcommon.Storm(c.Rand("storm"), epochs)
		for _, f := range fs {
			c.Violate(f.Key, f.What, "first-touch-storm", map[string]any{"epochs": epochs})
		}
		c.Count("storm_epochs", int64(epochs))
		c.Count("storm_sign_requests", int64(reqs))
		c.Eval(epochs)
		c.Distinct("storm")
	})
}

func main() {
	harness.Main(&harness.Spec{
		Property:    "C01",
		Level:       "exploration",
		Rule:        "histories of 2-10 Attest calls on one real attester over <=8 validators and <=4 epochs: re-delivery of a slot, re-assignment of a validator within the epoch, late duties of the previous epoch, overlapping runs released from a gate, attestation data scripted as ok/error/wrong slot/target above or below the duty epoch/source above target (unique block root per reply), failures of the accounts provider, per-validator signing faults and submission; every SignBeaconAttestations request recorded at the signer boundary. distinct = (runs, data kinds, repeat/skip/overlap/account-kind flags, requests, submissions); non-trivial = some validator has two duties in one epoch or some validator is skipped",
		Batches:     func(string) int { return 8 },
		Parallel:    8,
		Run:         run,
		MinDistinct: 100,
		Assumptions: []string{"a duty for epoch e is never started after an attestation for epoch e+2 has completed (slot-timed jobs; the service deliberately forgets e-2)", "BLS verification (herumi) and the reference SSZ merkleisation are trusted", "when a beacon node lists one validator twice in a duty either of its entries is accepted"},
	})
}
