// C10: proposer settings follow the documented precedence of the execution config.
// Monitor: real blockrelay.UnmarshalJSON + ProposerConfig (v2 and legacy) against an independent
// reference resolver (DESIGN.md Appendix A.1), plus the marshal/unmarshal round trip.
package main

import (
	"context"
	"encoding/json"
	"fmt"
	"regexp"
	"strings"

	"github.com/attestantio/vouch/services/blockrelay"
	"verif/checks/refcfg"
	"verif/harness"
)

func run(c *harness.Ctx) {
	ctx := context.Background()
	n := c.N(4000, 350000)
	fFR := refcfg.FRAddr(999)
	for i := 0; i < n; i++ {
		id := fmt.Sprintf("v2-%d", i)
		c.Case(id, func() {
			r := c.Rand("v2", i)
			d := refcfg.GenDoc(r)
			text := d.JSON()
			fGL := uint64(30000000 + r.Intn(3))
			cfg, err := blockrelay.UnmarshalJSON([]byte(text))
			if err != nil {
				c.Violate("valid-document-rejected", "generated valid v2 document rejected: "+err.Error(), id, map[string]any{"document": text})
				return
			}
			// Round trip.
			var cfg2 blockrelay.ExecutionConfigurator
			mb, merr := json.Marshal(cfg)
			if merr != nil {
				c.Violate("marshal-error", "marshal failed: "+merr.Error(), id, map[string]any{"document": text})
			} else if cfg2, err = blockrelay.UnmarshalJSON(mb); err != nil {
				c.Violate("roundtrip-rejected", "marshalled document does not unmarshal: "+err.Error(), id, map[string]any{"document": text, "marshalled": string(mb)})
				cfg2 = nil
			}
			vs := refcfg.GenValidators(r)
			for vi, v := range vs {
				c.Eval(1)
				want := d.Resolve(refcfg.PubOf(v.KeyNo), refcfg.AccountName(v), fFR, fGL)
				got, err := cfg.ProposerConfig(ctx, refcfg.MkAccount(v), refcfg.PubOf(v.KeyNo), fFR, fGL)
				detail := func(extra string) map[string]any {
					return map[string]any{"document": text, "validator": v, "account_name": refcfg.AccountName(v), "fallback_gas_limit": fGL, "got": fmt.Sprint(got), "note": extra}
				}
				if err != nil {
					c.Violate("resolve-error", "ProposerConfig failed on a resolvable document: "+err.Error(), id, detail(""))
					continue
				}
				if df := refcfg.Diff(want, got); df != "" {
					c.Violate("precedence:"+classify(df), df, id, detail("reference: first matching refcfg.Proposer over refcfg.Relay-level and top-level defaults over fallbacks"))
				}
				if cfg2 != nil {
					got2, err := cfg2.ProposerConfig(ctx, refcfg.MkAccount(v), refcfg.PubOf(v.KeyNo), fFR, fGL)
					if err != nil {
						c.Violate("roundtrip-Resolve-error", err.Error(), id, detail(string(mb)))
					} else if got != nil {
						w := &refcfg.Resolved{FR: got.FeeRecipient, Relays: map[string]*refcfg.RRelay{}}
						for _, rl := range got.Relays {
							w.Relays[rl.Address] = &refcfg.RRelay{FR: rl.FeeRecipient, GL: rl.GasLimit, Grace: rl.Grace, Min: rl.MinValue, Pub: rl.PublicKey}
						}
						if df := refcfg.Diff(w, got2); df != "" {
							c.Violate("roundtrip:"+classify(df), "after marshal/unmarshal: "+df, id, detail(string(mb)))
						}
					}
				}
				// fingerprint: which levels contributed
				fp := fmt.Sprintf("top:%v%v%v%v relays:%d props:%d match:%d", d.FR != nil, d.GL != nil, d.Grace != nil, d.Min != nil, len(d.Relays), len(d.Proposers), matchIdx(d, v))
				if mi := matchIdx(d, v); mi >= 0 {
					p := d.Proposers[mi]
					fp += fmt.Sprintf(" P:%v%v%v%v reset:%v prelays:%d key:%v", p.FR != nil, p.GL != nil, p.Grace != nil, p.Min != nil, p.Reset, len(p.Relays), p.KeyNo >= 0)
					c.Count("validators_matched_by_proposer_entry", 1)
					if mi > 0 {
						c.Count("matched_not_first_entry", 1)
					}
				}
				if len(d.Relays) > 0 || matchIdx(d, v) >= 0 {
					c.Distinct(fp)
				}
				_ = vi
			}
			if i < 2 {
				c.Sample(map[string]any{"document": text, "validators": vs})
			}
		})
	}
	// Legacy documents.
	n1 := c.N(1500, 100000)
	for i := 0; i < n1; i++ {
		id := fmt.Sprintf("v1-%d", i)
		c.Case(id, func() {
			r := c.Rand("v1", i)
			d := &refcfg.Doc1{Default: refcfg.GenV1Entry(r)}
			if r.Intn(3) != 0 {
				d.Proposer = map[int]*refcfg.V1Entry{}
				for k := 0; k < r.Intn(4); k++ {
					e := refcfg.GenV1Entry(r)
					d.Proposer[r.Intn(4)] = &e
				}
			}
			text := d.JSON()
			fGL := uint64(30000000)
			cfg, err := blockrelay.UnmarshalJSON([]byte(text))
			if err != nil {
				c.Violate("valid-document-rejected", "generated valid legacy document rejected: "+err.Error(), id, map[string]any{"document": text})
				return
			}
			var cfg2 blockrelay.ExecutionConfigurator
			if mb, merr := json.Marshal(cfg); merr == nil {
				if cfg2, err = blockrelay.UnmarshalJSON(mb); err != nil {
					c.Violate("roundtrip-rejected", "marshalled legacy document does not unmarshal: "+err.Error(), id, map[string]any{"document": text, "marshalled": string(mb)})
					cfg2 = nil
				}
			}
			for k := 0; k < 5; k++ {
				c.Eval(1)
				want := d.Resolve(refcfg.PubOf(k), fGL)
				for pass, cf := range []blockrelay.ExecutionConfigurator{cfg, cfg2} {
					if cf == nil {
						continue
					}
					got, err := cf.ProposerConfig(ctx, nil, refcfg.PubOf(k), fFR, fGL)
					if err != nil {
						c.Violate("resolve-error", err.Error(), id, map[string]any{"document": text})
						continue
					}
					if df := refcfg.Diff(want, got); df != "" {
						key := "legacy:" + classify(df)
						if pass == 1 {
							key = "legacy-roundtrip:" + classify(df)
						}
						c.Violate(key, df, id, map[string]any{"document": text, "validator_key": k, "got": fmt.Sprint(got)})
					}
				}
				_, isP := d.Proposer[k]
				c.Distinct(fmt.Sprintf("v1 prop:%v gl:%v builder:%v", isP, d.Default.GL != nil, d.Default.Builder != nil))
			}
		})
	}
}

func matchIdx(d *refcfg.Doc2, v refcfg.Validator) int {
	for i, p := range d.Proposers {
		if p.KeyNo >= 0 {
			if p.KeyNo == v.KeyNo {
				return i
			}
		} else if refcfg.FullMatch(p.Proposer, refcfg.AccountName(v)) {
			return i
		}
	}
	return -1
}

var numRe = regexp.MustCompile(`0x[0-9a-f]+|[0-9][0-9.]*|https://\S+`)

func classify(df string) string {
	return strings.Join(strings.Fields(numRe.ReplaceAllString(df, "#")), "-")
}

func main() {
	harness.Main(&harness.Spec{
		Property:    "C10",
		Level:       "exploration",
		Rule:        "documents from a grammar over the presence lattice (every optional field at top/refcfg.Relay/refcfg.Proposer/refcfg.Proposer-refcfg.Relay level, refcfg.Relay sets, ordered refcfg.Proposer lists with overlapping key and account-expression entries with/without anchors, reset/disabled, min values down to 1 wei) x 6 validators each (keys, wallet/account names incl. near misses, no account, account without wallet); legacy documents x 5 keys; each refcfg.Resolved by the real code and by the reference, and again after Marshal->Unmarshal. distinct = presence pattern of top level + matched refcfg.Proposer entry; non-trivial = document has relays or a matching refcfg.Proposer entry",
		Run:         run,
		MinDistinct: 200,
		Assumptions: []string{"account expressions contain no top-level bare alternation (anchoring of `a|b` is judged under C13)", "fee recipients are non-zero", "unmentioned inherited relays are kept (statement), not dropped (one sentence of docs/executionconfig.md)"},
	})
}
