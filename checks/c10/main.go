// C10: proposer settings follow the documented precedence of the execution config.
// Monitor: real blockrelay.UnmarshalJSON + ProposerConfig (v2 and legacy) against an independent
// reference resolver (DESIGN.md Appendix A.1), plus the marshal/unmarshal round trip.
package main

import (
	"context"
	"encoding/json"
	"fmt"
	"math/rand"
	"regexp"
	"sort"
	"strings"
	"time"

	"github.com/attestantio/go-eth2-client/spec/bellatrix"
	"github.com/attestantio/go-eth2-client/spec/phase0"
	"github.com/attestantio/vouch/services/beaconblockproposer"
	"github.com/attestantio/vouch/services/blockrelay"
	"github.com/shopspring/decimal"
	e2wtypes "github.com/wealdtech/go-eth2-wallet-types/v2"
	"verif/harness"
)

// ---- generated document model (version 2) ----

type opts struct {
	FR    *int    // fee recipient id
	GL    *uint64 // gas limit
	Grace *int64  // ms
	Min   *string // ETH decimal string
}

type relay struct {
	opts
	Pub      *int
	Disabled bool
}

type proposer struct {
	Proposer string // as written in the document
	KeyNo    int    // >=0: public key entry
	opts
	Reset  bool
	Relays map[string]*relay
}

type doc2 struct {
	opts
	Relays    map[string]*relay
	Proposers []*proposer
}

func frHex(id int) string {
	var a bellatrix.ExecutionAddress
	for i := range a {
		a[i] = byte(id)
	}
	a[0] = 0xf0 | byte(id>>8)
	return fmt.Sprintf("%#x", a)
}

func frAddr(id int) bellatrix.ExecutionAddress {
	var a bellatrix.ExecutionAddress
	for i := range a {
		a[i] = byte(id)
	}
	a[0] = 0xf0 | byte(id>>8)
	return a
}

func pubOf(n int) phase0.BLSPubKey {
	var p phase0.BLSPubKey
	for i := range p {
		p[i] = byte(n + 1)
	}
	p[0] = 0x80 | byte(n)
	return p
}

func (o *opts) fields() []string {
	var f []string
	if o.FR != nil {
		f = append(f, fmt.Sprintf(`"fee_recipient":"%s"`, frHex(*o.FR)))
	}
	if o.GL != nil {
		f = append(f, fmt.Sprintf(`"gas_limit":"%d"`, *o.GL))
	}
	if o.Grace != nil {
		f = append(f, fmt.Sprintf(`"grace":"%d"`, *o.Grace))
	}
	if o.Min != nil {
		f = append(f, fmt.Sprintf(`"min_value":"%s"`, *o.Min))
	}
	return f
}

func relaysJSON(rs map[string]*relay, proposerLevel bool) string {
	addrs := make([]string, 0, len(rs))
	for a := range rs {
		addrs = append(addrs, a)
	}
	sort.Strings(addrs)
	var parts []string
	for _, a := range addrs {
		r := rs[a]
		f := r.opts.fields()
		if r.Pub != nil {
			f = append(f, fmt.Sprintf(`"public_key":"%#x"`, pubOf(*r.Pub)))
		}
		if proposerLevel && r.Disabled {
			f = append(f, `"disabled":true`)
		}
		parts = append(parts, fmt.Sprintf(`%q:{%s}`, a, strings.Join(f, ",")))
	}
	return "{" + strings.Join(parts, ",") + "}"
}

func (d *doc2) JSON() string {
	f := []string{`"version":2`}
	f = append(f, d.opts.fields()...)
	if d.Relays != nil {
		f = append(f, `"relays":`+relaysJSON(d.Relays, false))
	}
	if d.Proposers != nil {
		var ps []string
		for _, p := range d.Proposers {
			pf := []string{fmt.Sprintf(`"proposer":%q`, p.Proposer)}
			pf = append(pf, p.opts.fields()...)
			if p.Reset {
				pf = append(pf, `"reset_relays":true`)
			}
			if p.Relays != nil {
				pf = append(pf, `"relays":`+relaysJSON(p.Relays, true))
			}
			ps = append(ps, "{"+strings.Join(pf, ",")+"}")
		}
		f = append(f, `"proposers":[`+strings.Join(ps, ",")+"]")
	}
	return "{" + strings.Join(f, ",") + "}"
}

// ---- reference resolver ----

type rrelay struct {
	FR    bellatrix.ExecutionAddress
	GL    uint64
	Grace time.Duration
	Min   decimal.Decimal // wei
	Pub   *phase0.BLSPubKey
}

type resolved struct {
	FR     bellatrix.ExecutionAddress
	Relays map[string]*rrelay
}

var weiPerETH = decimal.New(1, 18)

func minWei(s string) decimal.Decimal {
	d, err := decimal.NewFromString(s)
	if err != nil {
		panic(err)
	}
	return d.Mul(weiPerETH)
}

func applyOpts(r *rrelay, o *opts) {
	if o.FR != nil {
		r.FR = frAddr(*o.FR)
	}
	if o.GL != nil {
		r.GL = *o.GL
	}
	if o.Grace != nil {
		r.Grace = time.Duration(*o.Grace) * time.Millisecond
	}
	if o.Min != nil {
		r.Min = minWei(*o.Min)
	}
}

// fullMatch: the account expression, anchored at both ends as a whole.
func fullMatch(expr string, name string) bool {
	e := strings.TrimSuffix(strings.TrimPrefix(expr, "^"), "$")
	re := regexp.MustCompile("^(?:" + e + ")$")
	return re.MatchString(name)
}

func (d *doc2) resolve(pubkey phase0.BLSPubKey, name string, fFR bellatrix.ExecutionAddress, fGL uint64) *resolved {
	res := &resolved{FR: fFR, Relays: map[string]*rrelay{}}
	if d.FR != nil {
		res.FR = frAddr(*d.FR)
	}
	base := &rrelay{FR: res.FR, GL: fGL}
	applyOpts(base, &opts{GL: d.GL, Grace: d.Grace, Min: d.Min})
	for addr, b := range d.Relays {
		r := *base
		applyOpts(&r, &b.opts)
		if b.Pub != nil {
			p := pubOf(*b.Pub)
			r.Pub = &p
		}
		res.Relays[addr] = &r
	}
	var P *proposer
	for _, p := range d.Proposers {
		if p.KeyNo >= 0 {
			if pubOf(p.KeyNo) == pubkey {
				P = p
				break
			}
		} else if fullMatch(p.Proposer, name) {
			P = p
			break
		}
	}
	if P == nil {
		return res
	}
	if P.FR != nil {
		res.FR = frAddr(*P.FR)
	}
	for _, r := range res.Relays {
		applyOpts(r, &P.opts)
	}
	if P.Reset {
		res.Relays = map[string]*rrelay{}
	}
	for addr, pr := range P.Relays {
		if pr.Disabled {
			delete(res.Relays, addr)
			continue
		}
		if r, ok := res.Relays[addr]; ok {
			applyOpts(r, &pr.opts)
			if pr.Pub != nil {
				p := pubOf(*pr.Pub)
				r.Pub = &p
			}
			continue
		}
		// new relay: r.X ?? P.X ?? D.X ?? fallback
		r := &rrelay{FR: fFR, GL: fGL}
		applyOpts(r, &d.opts)
		applyOpts(r, &P.opts)
		applyOpts(r, &pr.opts)
		if pr.Pub != nil {
			p := pubOf(*pr.Pub)
			r.Pub = &p
		}
		res.Relays[addr] = r
	}
	return res
}

func diff(want *resolved, got *beaconblockproposer.ProposerConfig) string {
	if got == nil {
		return "nil config"
	}
	if got.FeeRecipient != want.FR {
		return fmt.Sprintf("fee recipient %#x, want %#x", got.FeeRecipient, want.FR)
	}
	seen := map[string]bool{}
	for _, r := range got.Relays {
		if seen[r.Address] {
			return "relay listed twice: " + r.Address
		}
		seen[r.Address] = true
		w, ok := want.Relays[r.Address]
		if !ok {
			return "unexpected relay " + r.Address
		}
		if r.FeeRecipient != w.FR {
			return fmt.Sprintf("relay %s fee recipient %#x, want %#x", r.Address, r.FeeRecipient, w.FR)
		}
		if r.GasLimit != w.GL {
			return fmt.Sprintf("relay %s gas limit %d, want %d", r.Address, r.GasLimit, w.GL)
		}
		if r.Grace != w.Grace {
			return fmt.Sprintf("relay %s grace %v, want %v", r.Address, r.Grace, w.Grace)
		}
		if !r.MinValue.Equal(w.Min) {
			return fmt.Sprintf("relay %s min value %s wei, want %s wei", r.Address, r.MinValue.String(), w.Min.String())
		}
		switch {
		case (r.PublicKey == nil) != (w.Pub == nil):
			return fmt.Sprintf("relay %s public key presence differs", r.Address)
		case r.PublicKey != nil && *r.PublicKey != *w.Pub:
			return fmt.Sprintf("relay %s public key differs", r.Address)
		}
	}
	for a := range want.Relays {
		if !seen[a] {
			return "missing relay " + a
		}
	}
	return ""
}

// ---- generators ----

var relayAddrs = []string{"https://relay1.com/", "https://relay2.com/", "https://relay3.com/", "https://relay4.com/"}

var minValues = []string{"0", "0.1", "0.2", "1", "0.000000000000000001", "0.00000000000000005", "0.000000000000000123", "12.5", "0.4", "0.000001"}

func genOpts(r *rand.Rand, p int) opts {
	var o opts
	if r.Intn(100) < p {
		v := 1 + r.Intn(60)
		o.FR = &v
	}
	if r.Intn(100) < p {
		v := uint64(1000000 * (1 + r.Intn(60)))
		if r.Intn(8) == 0 {
			v = 0 // explicit zero is a value
		}
		o.GL = &v
	}
	if r.Intn(100) < p {
		v := int64(r.Intn(5) * 250)
		o.Grace = &v
	}
	if r.Intn(100) < p {
		v := minValues[r.Intn(len(minValues))]
		o.Min = &v
	}
	return o
}

func genRelays(r *rand.Rand, proposerLevel bool) map[string]*relay {
	if r.Intn(4) == 0 {
		return nil
	}
	rs := map[string]*relay{}
	for _, a := range relayAddrs {
		if r.Intn(2) == 0 {
			continue
		}
		rl := &relay{opts: genOpts(r, 35)}
		if r.Intn(3) == 0 {
			v := r.Intn(4)
			rl.Pub = &v
		}
		if proposerLevel && r.Intn(4) == 0 {
			rl.Disabled = true
		}
		rs[a] = rl
	}
	return rs
}

type validator struct {
	KeyNo  int
	Wallet string // "" => no account (nil)
	Acct   string
	NoWalletProvider bool
}

var wallets = []string{"Wallet 1", "Wallet 2", "Wallet 11", "XWallet 1"}
var acctNames = []string{"Account 1", "Account 2", "Account 3", "Account 22", "Account 1x"}

var exprs = []string{
	"Wallet 1/Account 1", "Wallet 1/.*", "Wallet [12]/Account [123]", "(Wallet 1|Wallet 2)/Account 1", ".*", "Wallet 2/Account (1|2)",
	"Wallet 1/Account .", "Wallet 1.*", ".*/Account 2", "Wallet 1/Account 2?", "<unknown>/Account 1", "<unknown>/.*",
}

func genDoc(r *rand.Rand) *doc2 {
	d := &doc2{opts: genOpts(r, 50), Relays: genRelays(r, false)}
	n := r.Intn(5)
	if n > 0 || r.Intn(2) == 0 {
		d.Proposers = []*proposer{}
	}
	for i := 0; i < n; i++ {
		p := &proposer{KeyNo: -1, opts: genOpts(r, 40), Reset: r.Intn(4) == 0, Relays: genRelays(r, true)}
		if r.Intn(2) == 0 {
			p.KeyNo = r.Intn(4)
			p.Proposer = fmt.Sprintf("%#x", pubOf(p.KeyNo))
		} else {
			e := exprs[r.Intn(len(exprs))]
			switch r.Intn(4) {
			case 1:
				e = "^" + e
			case 2:
				e = e + "$"
			case 3:
				e = "^" + e + "$"
			}
			p.Proposer = e
		}
		d.Proposers = append(d.Proposers, p)
	}
	return d
}

type acct struct {
	e2wtypes.Account
}

func mkAccount(v validator) e2wtypes.Account {
	if v.Wallet == "" {
		return nil
	}
	a := harness.NewAcct(harness.KindPlain, v.Wallet, v.Acct, v.KeyNo, 0, nil)
	if v.NoWalletProvider {
		return acct{a} // hides Wallet()
	}
	return a
}

func accountName(v validator) string {
	switch {
	case v.Wallet == "":
		return "<unknown>/<unknown>"
	case v.NoWalletProvider:
		return "<unknown>/" + v.Acct
	default:
		return v.Wallet + "/" + v.Acct
	}
}

func genValidators(r *rand.Rand) []validator {
	var vs []validator
	for i := 0; i < 6; i++ {
		v := validator{KeyNo: r.Intn(5), Wallet: wallets[r.Intn(len(wallets))], Acct: acctNames[r.Intn(len(acctNames))]}
		switch r.Intn(10) {
		case 0:
			v.Wallet = ""
		case 1:
			v.NoWalletProvider = true
		}
		vs = append(vs, v)
	}
	return vs
}

// ---- legacy (v1) ----

type v1entry struct {
	FR      int
	GL      *uint64
	Builder *struct {
		Enabled bool
		Grace   *int64
		Relays  []string
	}
}

type doc1 struct {
	Default  v1entry
	Proposer map[int]*v1entry
}

func (e *v1entry) JSON() string {
	f := []string{fmt.Sprintf(`"fee_recipient":"%s"`, frHex(e.FR))}
	if e.GL != nil {
		f = append(f, fmt.Sprintf(`"gas_limit":"%d"`, *e.GL))
	}
	if e.Builder != nil {
		bf := []string{fmt.Sprintf(`"enabled":%v`, e.Builder.Enabled)}
		if e.Builder.Grace != nil {
			bf = append(bf, fmt.Sprintf(`"grace":"%d"`, *e.Builder.Grace))
		}
		if e.Builder.Relays != nil {
			b, _ := json.Marshal(e.Builder.Relays)
			bf = append(bf, `"relays":`+string(b))
		}
		f = append(f, `"builder":{`+strings.Join(bf, ",")+"}")
	}
	return "{" + strings.Join(f, ",") + "}"
}

func (d *doc1) JSON() string {
	var ps []string
	keys := make([]int, 0)
	for k := range d.Proposer {
		keys = append(keys, k)
	}
	sort.Ints(keys)
	for _, k := range keys {
		ps = append(ps, fmt.Sprintf(`"%#x":%s`, pubOf(k), d.Proposer[k].JSON()))
	}
	s := `{"default_config":` + d.Default.JSON()
	if d.Proposer != nil {
		s += `,"proposer_config":{` + strings.Join(ps, ",") + "}"
	}
	return s + "}"
}

func genV1Entry(r *rand.Rand) v1entry {
	e := v1entry{FR: 1 + r.Intn(60)}
	if r.Intn(2) == 0 {
		v := uint64(1000000 * (1 + r.Intn(60)))
		e.GL = &v
	}
	if r.Intn(4) != 0 {
		b := &struct {
			Enabled bool
			Grace   *int64
			Relays  []string
		}{Enabled: r.Intn(3) != 0}
		if r.Intn(2) == 0 {
			v := int64(r.Intn(5) * 250)
			b.Grace = &v
		}
		n := r.Intn(4)
		if b.Enabled && n == 0 {
			n = 1
		}
		for i := 0; i < n; i++ {
			b.Relays = append(b.Relays, relayAddrs[(i+r.Intn(2))%len(relayAddrs)])
		}
		// de-duplicate
		seen := map[string]bool{}
		var rs []string
		for _, a := range b.Relays {
			if !seen[a] {
				seen[a] = true
				rs = append(rs, a)
			}
		}
		b.Relays = rs
		e.Builder = b
	}
	return e
}

func (d *doc1) resolve(pubkey phase0.BLSPubKey, fGL uint64) *resolved {
	e := &d.Default
	for k, pe := range d.Proposer {
		if pubOf(k) == pubkey {
			e = pe
		}
	}
	res := &resolved{FR: frAddr(e.FR), Relays: map[string]*rrelay{}}
	gl := fGL
	if e.GL != nil && *e.GL != 0 {
		gl = *e.GL
	}
	if e.Builder != nil && e.Builder.Enabled {
		for _, a := range e.Builder.Relays {
			r := &rrelay{FR: res.FR, GL: gl}
			if e.Builder.Grace != nil {
				r.Grace = time.Duration(*e.Builder.Grace) * time.Millisecond
			}
			res.Relays[a] = r
		}
	}
	return res
}

func run(c *harness.Ctx) {
	ctx := context.Background()
	n := c.N(4000, 350000)
	fFR := frAddr(999)
	for i := 0; i < n; i++ {
		id := fmt.Sprintf("v2-%d", i)
		c.Case(id, func() {
			r := c.Rand("v2", i)
			d := genDoc(r)
			text := d.JSON()
			fGL := uint64(30000000 + r.Intn(3))
			cfg, err := blockrelay.UnmarshalJSON([]byte(text))
			if err != nil {
				c.Violate("valid-document-rejected", "generated valid v2 document rejected: "+err.Error(), id, map[string]any{"document": text})
				return
			}
			// Round trip.
			var cfg2 blockrelay.ExecutionConfigurator
			mb, merr := json.Marshal(cfg)
			if merr != nil {
				c.Violate("marshal-error", "marshal failed: "+merr.Error(), id, map[string]any{"document": text})
			} else if cfg2, err = blockrelay.UnmarshalJSON(mb); err != nil {
				c.Violate("roundtrip-rejected", "marshalled document does not unmarshal: "+err.Error(), id, map[string]any{"document": text, "marshalled": string(mb)})
				cfg2 = nil
			}
			vs := genValidators(r)
			for vi, v := range vs {
				c.Eval(1)
				want := d.resolve(pubOf(v.KeyNo), accountName(v), fFR, fGL)
				got, err := cfg.ProposerConfig(ctx, mkAccount(v), pubOf(v.KeyNo), fFR, fGL)
				detail := func(extra string) map[string]any {
					return map[string]any{"document": text, "validator": v, "account_name": accountName(v), "fallback_gas_limit": fGL, "got": fmt.Sprint(got), "note": extra}
				}
				if err != nil {
					c.Violate("resolve-error", "ProposerConfig failed on a resolvable document: "+err.Error(), id, detail(""))
					continue
				}
				if df := diff(want, got); df != "" {
					c.Violate("precedence:"+classify(df), df, id, detail("reference: first matching proposer over relay-level and top-level defaults over fallbacks"))
				}
				if cfg2 != nil {
					got2, err := cfg2.ProposerConfig(ctx, mkAccount(v), pubOf(v.KeyNo), fFR, fGL)
					if err != nil {
						c.Violate("roundtrip-resolve-error", err.Error(), id, detail(string(mb)))
					} else if got != nil {
						w := &resolved{FR: got.FeeRecipient, Relays: map[string]*rrelay{}}
						for _, rl := range got.Relays {
							w.Relays[rl.Address] = &rrelay{FR: rl.FeeRecipient, GL: rl.GasLimit, Grace: rl.Grace, Min: rl.MinValue, Pub: rl.PublicKey}
						}
						if df := diff(w, got2); df != "" {
							c.Violate("roundtrip:"+classify(df), "after marshal/unmarshal: "+df, id, detail(string(mb)))
						}
					}
				}
				// fingerprint: which levels contributed
				fp := fmt.Sprintf("top:%v%v%v%v relays:%d props:%d match:%d", d.FR != nil, d.GL != nil, d.Grace != nil, d.Min != nil, len(d.Relays), len(d.Proposers), matchIdx(d, v))
				if mi := matchIdx(d, v); mi >= 0 {
					p := d.Proposers[mi]
					fp += fmt.Sprintf(" P:%v%v%v%v reset:%v prelays:%d key:%v", p.FR != nil, p.GL != nil, p.Grace != nil, p.Min != nil, p.Reset, len(p.Relays), p.KeyNo >= 0)
					c.Count("validators_matched_by_proposer_entry", 1)
					if mi > 0 {
						c.Count("matched_not_first_entry", 1)
					}
				}
				if len(d.Relays) > 0 || matchIdx(d, v) >= 0 {
					c.Distinct(fp)
				}
				_ = vi
			}
			if i < 2 {
				c.Sample(map[string]any{"document": text, "validators": vs})
			}
		})
	}
	// Legacy documents.
	n1 := c.N(1500, 100000)
	for i := 0; i < n1; i++ {
		id := fmt.Sprintf("v1-%d", i)
		c.Case(id, func() {
			r := c.Rand("v1", i)
			d := &doc1{Default: genV1Entry(r)}
			if r.Intn(3) != 0 {
				d.Proposer = map[int]*v1entry{}
				for k := 0; k < r.Intn(4); k++ {
					e := genV1Entry(r)
					d.Proposer[r.Intn(4)] = &e
				}
			}
			text := d.JSON()
			fGL := uint64(30000000)
			cfg, err := blockrelay.UnmarshalJSON([]byte(text))
			if err != nil {
				c.Violate("valid-document-rejected", "generated valid legacy document rejected: "+err.Error(), id, map[string]any{"document": text})
				return
			}
			var cfg2 blockrelay.ExecutionConfigurator
			if mb, merr := json.Marshal(cfg); merr == nil {
				if cfg2, err = blockrelay.UnmarshalJSON(mb); err != nil {
					c.Violate("roundtrip-rejected", "marshalled legacy document does not unmarshal: "+err.Error(), id, map[string]any{"document": text, "marshalled": string(mb)})
					cfg2 = nil
				}
			}
			for k := 0; k < 5; k++ {
				c.Eval(1)
				want := d.resolve(pubOf(k), fGL)
				for pass, cf := range []blockrelay.ExecutionConfigurator{cfg, cfg2} {
					if cf == nil {
						continue
					}
					got, err := cf.ProposerConfig(ctx, nil, pubOf(k), fFR, fGL)
					if err != nil {
						c.Violate("resolve-error", err.Error(), id, map[string]any{"document": text})
						continue
					}
					if df := diff(want, got); df != "" {
						key := "legacy:" + classify(df)
						if pass == 1 {
							key = "legacy-roundtrip:" + classify(df)
						}
						c.Violate(key, df, id, map[string]any{"document": text, "validator_key": k, "got": fmt.Sprint(got)})
					}
				}
				_, isP := d.Proposer[k]
				c.Distinct(fmt.Sprintf("v1 prop:%v gl:%v builder:%v", isP, d.Default.GL != nil, d.Default.Builder != nil))
			}
		})
	}
}

func matchIdx(d *doc2, v validator) int {
	for i, p := range d.Proposers {
		if p.KeyNo >= 0 {
			if p.KeyNo == v.KeyNo {
				return i
			}
		} else if fullMatch(p.Proposer, accountName(v)) {
			return i
		}
	}
	return -1
}

var numRe = regexp.MustCompile(`0x[0-9a-f]+|[0-9][0-9.]*|https://\S+`)

func classify(df string) string {
	return strings.Join(strings.Fields(numRe.ReplaceAllString(df, "#")), "-")
}

func main() {
	harness.Main(&harness.Spec{
		Property: "C10",
		Level:    "exploration",
		Rule:     "documents from a grammar over the presence lattice (every optional field at top/relay/proposer/proposer-relay level, relay sets, ordered proposer lists with overlapping key and account-expression entries with/without anchors, reset/disabled, min values down to 1 wei) x 6 validators each (keys, wallet/account names incl. near misses, no account, account without wallet); legacy documents x 5 keys; each resolved by the real code and by the reference, and again after Marshal->Unmarshal. distinct = presence pattern of top level + matched proposer entry; non-trivial = document has relays or a matching proposer entry",
		Run:      run,
		MinDistinct: 200,
		Assumptions: []string{"account expressions contain no top-level bare alternation (anchoring of `a|b` is judged under C13)", "fee recipients are non-zero", "unmentioned inherited relays are kept (statement), not dropped (one sentence of docs/executionconfig.md)"},
	})
}
