// C15: sync committee members message every slot of their period, independently.
// Monitor: the real controller (sync scheduling) in virtual time with the real sync committee messenger and
// aggregator and the real signer over BLS accounts. Oracle: message window max(first-1, now) .. last-1 per period
// (refduty), each message signed over the head root fetched in that slot's run, contribution aggregators per
// subcommittee by the spec rule, independence from members without account or signature.
package main

import (
	"context"
	"crypto/sha256"
	"encoding/binary"
	"errors"
	"fmt"
	"math/rand"
	"os"
	"sort"
	"strings"
	"sync"
	"time"

	"github.com/attestantio/go-eth2-client/api"
	apiv1 "github.com/attestantio/go-eth2-client/api/v1"
	"github.com/attestantio/go-eth2-client/spec/altair"
	"github.com/attestantio/go-eth2-client/spec/phase0"
	nullmetrics "github.com/attestantio/vouch/services/metrics/null"
	signerstd "github.com/attestantio/vouch/services/signer/standard"
	aggstd "github.com/attestantio/vouch/services/synccommitteeaggregator/standard"
	msgstd "github.com/attestantio/vouch/services/synccommitteemessenger/standard"
	"github.com/prysmaticlabs/go-bitfield"
	"github.com/rs/zerolog"
	e2wtypes "github.com/wealdtech/go-eth2-wallet-types/v2"
	"verif/checks/ctlsim"
	"verif/harness"
)

const (
	spe        = 4
	period     = 8 // epochs
	size       = 32
	subnets    = 4
	targetAggs = 2 // modulo = size/subnets/target = 4
)

type world struct {
	mu       sync.Mutex
	env      *ctlsim.Env
	roots    map[uint64]phase0.Root // clock slot -> head root served in that slot
	rootSeq  uint64
	msgs     map[uint64][]*altair.SyncCommitteeMessage // clock slot -> messages submitted
	contribs map[uint64][]*altair.SignedContributionAndProof
	rootFail map[uint64]bool // clock slots in which the node cannot give its head root
}

func (w *world) BeaconBlockRoot(context.Context, *api.BeaconBlockRootOpts) (*api.Response[*phase0.Root], error) {
	w.mu.Lock()
	defer w.mu.Unlock()
	s := uint64(w.env.Clock.CurrentSlot())
	if w.rootFail[s] {
		return nil, errors.New("scripted head root failure")
	}
	w.rootSeq++
	var r phase0.Root
	binary.BigEndian.PutUint64(r[:8], w.rootSeq)
	binary.BigEndian.PutUint64(r[8:16], s)
	r[31] = 0x5f
	w.roots[s] = r
	return &api.Response[*phase0.Root]{Data: &r, Metadata: map[string]any{}}, nil
}

func (w *world) SubmitSyncCommitteeMessages(_ context.Context, m []*altair.SyncCommitteeMessage) error {
	w.mu.Lock()
	defer w.mu.Unlock()
	s := uint64(w.env.Clock.CurrentSlot())
	w.msgs[s] = append(w.msgs[s], m...)
	return nil
}

func (w *world) SubmitSyncCommitteeSubscriptions(context.Context, []*apiv1.SyncCommitteeSubscription) error {
	return nil
}

func (w *world) SyncCommitteeContribution(_ context.Context, opts *api.SyncCommitteeContributionOpts) (*api.Response[*altair.SyncCommitteeContribution], error) {
	bits := bitfield.NewBitvector128()
	bits.SetBitAt(opts.SubcommitteeIndex, true)
	return &api.Response[*altair.SyncCommitteeContribution]{Data: &altair.SyncCommitteeContribution{Slot: opts.Slot, BeaconBlockRoot: opts.BeaconBlockRoot, SubcommitteeIndex: opts.SubcommitteeIndex, AggregationBits: bits}, Metadata: map[string]any{}}, nil
}

func (w *world) SubmitSyncCommitteeContributions(_ context.Context, c []*altair.SignedContributionAndProof) error {
	w.mu.Lock()
	defer w.mu.Unlock()
	s := uint64(w.env.Clock.CurrentSlot())
	w.contribs[s] = append(w.contribs[s], c...)
	return nil
}

type scenario struct {
	Start      uint64              `json:"start_slot"`
	Altair     uint64              `json:"altair_fork_epoch"`
	Genesis    bool                `json:"waited_for_genesis"`
	MembersP   map[string][]uint64 `json:"members"`
	NoAccount  []uint64            `json:"members_without_account,omitempty"`
	NoSig      []uint64            `json:"members_without_signature,omitempty"`
	RunSlots   uint64              `json:"slots_run"`
	TargetAggs uint64              `json:"target_aggregators_per_sync_subcommittee"`
	SubRefused bool                `json:"sync_subnet_subscriptions_refused,omitempty"`
	Exited     []uint64            `json:"members_that_have_exited_but_are_still_in_the_committee,omitempty"`
	RootFails  int                 `json:"slots_without_head_root"`
}

func firstEpochOf(p, altairEpoch uint64) uint64 {
	e := p * period
	if e < altairEpoch {
		e = altairEpoch
	}
	return e
}

func history(c *harness.Ctx, id string, r *rand.Rand) {
	ctx := context.Background()
	sc := &scenario{MembersP: map[string][]uint64{}}
	// clock position: epoch 0, inside period 0, around the preparation epoch and the boundary, around an unaligned fork epoch
	switch r.Intn(6) {
	case 0:
		sc.Start = 0
		sc.Genesis = r.Intn(2) == 0
	case 1:
		sc.Start = uint64(r.Intn(spe * 3))
	case 2:
		sc.Start = uint64((period-6+r.Intn(6))*spe + r.Intn(spe)) // last epochs before the boundary of period 0
	case 3:
		sc.Start = uint64((period+r.Intn(period))*spe + r.Intn(spe)) // inside period 1
	case 4:
		sc.Altair = uint64(period + 1 + r.Intn(period-2)) // fork inside period 1, not on its boundary
		sc.Start = (sc.Altair-1)*spe + uint64(r.Intn(2*spe))
	default:
		sc.Start = uint64(r.Intn(2 * period * spe))
	}
	vals := []uint64{31, 32, 33, 34, 35}
	accts := map[uint64]harness.Acct{}
	for i, v := range vals {
		accts[v] = harness.NewAcct(harness.KindMulti, "W", fmt.Sprintf("sync%d", v), 1100+i, phase0.ValidatorIndex(v), nil)
	}
	opts := ctlsim.Options{SlotsPerEpoch: spe, EpochsPerPeriod: period, AltairForkEpoch: sc.Altair, StartSlot: sc.Start, Validators: vals, Accounts: accts, WaitedForGenesis: sc.Genesis}
	env, err := ctlsim.New(opts)
	if err != nil {
		c.Inconclusive(err.Error())
		return
	}
	w := &world{env: env, roots: map[uint64]phase0.Root{}, msgs: map[uint64][]*altair.SyncCommitteeMessage{}, contribs: map[uint64][]*altair.SignedContributionAndProof{}, rootFail: map[uint64]bool{}}
	// the usual test constants (modulo 4), or those of the minimal preset (target 16: every member aggregates)
	r1 := rand.New(rand.NewSource(r.Int63()))
	sc.TargetAggs = []uint64{targetAggs, targetAggs, 16}[r1.Intn(3)]
	sc.SubRefused = r1.Intn(5) == 0
	modulo := uint64(size) / subnets / sc.TargetAggs
	if modulo < 1 {
		modulo = 1
	}
	specExtra := map[string]any{"SYNC_COMMITTEE_SIZE": uint64(size), "SYNC_COMMITTEE_SUBNET_COUNT": uint64(subnets), "TARGET_AGGREGATORS_PER_SYNC_SUBCOMMITTEE": sc.TargetAggs}
	specP := harness.NewSpec(spe, specExtra)
	sg, err := signerstd.New(ctx, signerstd.WithLogLevel(zerolog.Disabled), signerstd.WithMonitor(nullmetrics.New()), signerstd.WithClientMonitor(nullmetrics.New()),
		signerstd.WithSpecProvider(specP), signerstd.WithDomainProvider(harness.RecDomains{}))
	if err != nil {
		c.Inconclusive(err.Error())
		return
	}
	agg, err := aggstd.New(ctx, aggstd.WithLogLevel(zerolog.Disabled), aggstd.WithMonitor(nullmetrics.New()), aggstd.WithSpecProvider(specP), aggstd.WithBeaconBlockRootProvider(w),
		aggstd.WithContributionAndProofSigner(sg), aggstd.WithValidatingAccountsProvider(nopAccts{}), aggstd.WithSyncCommitteeContributionProvider(w),
		aggstd.WithSyncCommitteeContributionsSubmitter(w), aggstd.WithChainTime(env.Clock))
	if err != nil {
		c.Inconclusive("sync aggregator: " + err.Error())
		return
	}
	msgr, err := msgstd.New(ctx, msgstd.WithLogLevel(zerolog.Disabled), msgstd.WithProcessConcurrency(4), msgstd.WithMonitor(nullmetrics.New()), msgstd.WithChainTimeService(env.Clock),
		msgstd.WithSyncCommitteeAggregator(agg), msgstd.WithSpecProvider(specP), msgstd.WithBeaconBlockRootProvider(w), msgstd.WithSyncCommitteeMessagesSubmitter(w),
		msgstd.WithValidatingAccountsProvider(nopAccts{}), msgstd.WithSyncCommitteeRootSigner(sg), msgstd.WithSyncCommitteeSelectionSigner(sg), msgstd.WithSyncCommitteeSubscriptionsSubmitter(w))
	if err != nil {
		c.Inconclusive("sync messenger: " + err.Error())
		return
	}
	env.Opts.Messenger, env.Opts.SyncAggregator = msgr, agg
	// members per period: 1-4 of our validators with 1-2 committee positions each
	members := map[uint64]map[uint64][]uint64{}
	for p := uint64(0); p < 4; p++ {
		members[p] = map[uint64][]uint64{}
		perm := r.Perm(len(vals))
		for k := 0; k < 1+r.Intn(4); k++ {
			v := vals[perm[k]]
			pos := []uint64{uint64(r.Intn(size))}
			if r.Intn(3) == 0 {
				pos = append(pos, uint64(r.Intn(size)))
			}
			members[p][v] = pos
			sc.MembersP[fmt.Sprintf("period %d validator %d", p, v)] = pos
			var idx []phase0.CommitteeIndex
			for _, x := range pos {
				idx = append(idx, phase0.CommitteeIndex(x))
			}
			env.Duties.Sync[p] = append(env.Duties.Sync[p], &apiv1.SyncCommitteeDuty{ValidatorIndex: phase0.ValidatorIndex(v), ValidatorSyncCommitteeIndices: idx})
		}
	}
	// members without account / without signature
	env.SyncMissing = map[uint64]bool{}
	noSig := map[uint64]bool{}
	for _, v := range vals {
		switch r.Intn(7) {
		case 0:
			env.SyncMissing[v] = true
			sc.NoAccount = append(sc.NoAccount, v)
		case 1:
			accts[v].SetFault(harness.FaultNoSig)
			noSig[v] = true
			sc.NoSig = append(sc.NoSig, v)
		}
	}
	// a member that has exited (no longer validating) stays in its committee until the period ends
	env.NotValidating = map[uint64]bool{}
	if r1.Intn(3) == 0 {
		v := vals[r1.Intn(len(vals))]
		env.NotValidating[v] = true
		sc.Exited = append(sc.Exited, v)
	}
	// in some slots the node cannot give its head root: no message can be made in them, and none over another slot's root
	for x := sc.Start; x < sc.Start+uint64(3*period*spe); x++ {
		if r1.Intn(12) == 0 {
			w.rootFail[x] = true
			sc.RootFails++
		}
	}
	env.SyncSubscribeFail.Store(sc.SubRefused)
	if err := env.Start(); err != nil {
		c.Inconclusive("controller.New: " + err.Error())
		return
	}
	sc.RunSlots = uint64(period*spe + spe*(1+r.Intn(4)))
	end := sc.Start + sc.RunSlots
	fail := func(key, what string) {
		c.Violate(key, what, id, map[string]any{"scenario": sc, "clock_slot": uint64(env.Clock.CurrentSlot())})
	}
	if sc.Genesis {
		// a controller started before genesis runs its epoch ticker at genesis
		env.Sched.RunSync("Epoch ticker")
		env.Settle()
	}
	// ---- run, slot by slot ----
	for s := sc.Start; s <= end; s++ {
		env.StepTo(s)
		if os.Getenv("VERIF_DEBUG") != "" {
			fmt.Fprintf(os.Stderr, "slot %d: jobs %v\n", s, env.Sched.ListJobs(context.Background()))
		}
	}
	if os.Getenv("VERIF_DEBUG") != "" {
		for _, cl := range env.Sched.TakeCalls() {
			fmt.Fprintf(os.Stderr, "sched %s %s err=%v\n", cl.Op, cl.Name, cl.Err)
		}
		fmt.Fprintf(os.Stderr, "sync fetches %v ok %v\n", env.Duties.SyncCalls, env.Duties.SyncOK)
	}
	// ---- judge every slot strictly after the start slot (the start slot itself may be excluded) ----
	expectedSlots, gotSlots := 0, 0
	for s := sc.Start + 1; s < end; s++ {
		epoch := s / spe
		if epoch < sc.Altair {
			continue // before the fork there are no sync committees (nor their gossip): the slot before the fork epoch is not demanded
		}
		// which period's committee messages at slot s: the committee of the period containing slot s+1
		p := ((s + 1) / spe) / period
		if firstEpochOf(p, sc.Altair)*spe > s+1 {
			continue
		}
		// last slot of a period belongs to the next period's window (first-1); the window ends at last-1
		mem := members[p]
		var want []uint64
		for v := range mem {
			if !env.SyncMissing[v] && !noSig[v] {
				want = append(want, v)
			}
		}
		sort.Slice(want, func(i, j int) bool { return want[i] < want[j] })
		w.mu.Lock()
		got := w.msgs[s]
		root, haveRoot := w.roots[s]
		w.mu.Unlock()
		gotBy := map[uint64]*altair.SyncCommitteeMessage{}
		for _, m := range got {
			gotBy[uint64(m.ValidatorIndex)] = m
		}
		if w.rootFail[s] {
			// no head root could be had in this slot
			if len(got) > 0 {
				fail("sync-message-without-head-root", fmt.Sprintf("slot %d: the node could not give its head root, yet %d message(s) were submitted (over the root of another slot)", s, len(got)))
			}
			if len(w.contribs[s]) > 0 {
				c.Count("contributions_in_slots_without_root", int64(len(w.contribs[s])))
			}
			continue
		}
		class := "steady"
		switch {
		case s/spe == 0 && sc.Start/spe == 0:
			class = "first-period-from-epoch-0"
		case sc.Altair > 0 && p == sc.Altair/period:
			class = "period-of-unaligned-fork"
		case (s+1)%(period*spe) == 0:
			class = "slot-before-period-start"
		}
		if len(want) > 0 {
			expectedSlots++
		}
		for _, v := range want {
			m := gotBy[v]
			if m == nil {
				key := "sync-message-missing:" + class
				if len(sc.NoAccount) > 0 && len(mem) > len(want) {
					key = "sync-message-missing:another-member-without-account"
				} else if len(sc.NoSig) > 0 && len(mem) > len(want) {
					key = "sync-message-missing:another-member-without-signature"
				}
				fail(key, fmt.Sprintf("no sync committee message from validator %d in slot %d (committee of period %d)", v, s, p))
				break
			}
			gotSlots++
			if uint64(m.Slot) != s {
				fail("sync-message-slot-wrong", fmt.Sprintf("message submitted in slot %d is for slot %d", s, m.Slot))
			}
			if !haveRoot || m.BeaconBlockRoot != root {
				fail("sync-message-root-wrong", fmt.Sprintf("message of validator %d in slot %d is not over the head root obtained in that slot", v, s))
			}
			d := harness.DomainFor(harness.DomainTypes["DOMAIN_SYNC_COMMITTEE"], s/spe, false)
			sr := harness.RefSigningRoot(harness.Chunk(m.BeaconBlockRoot), d[:])
			if !harness.VerifySig(accts[v], sr[:], m.Signature) {
				fail("sync-message-signature-invalid", fmt.Sprintf("message of validator %d in slot %d does not verify under its key over the root and the epoch's sync committee domain", v, s))
			}
			c.Count("sync_messages_verified", 1)
		}
		for v := range gotBy {
			if _, isMember := mem[v]; !isMember {
				fail("sync-message-from-non-member", fmt.Sprintf("validator %d sent a sync committee message in slot %d but is not in the committee of period %d", v, s, p))
			}
		}
		// contributions: per (member with account and signature, subcommittee of a position) selected by the spec rule
		type sel struct{ v, sub uint64 }
		wantC := map[sel]phase0.BLSSignature{}
		for _, v := range want {
			for _, pos := range mem[v] {
				sub := pos / (size / subnets)
				dsel := harness.DomainFor(harness.DomainTypes["DOMAIN_SYNC_COMMITTEE_SELECTION_PROOF"], s/spe, false)
				root := harness.RefSigningRoot(harness.RefSyncSelectionData(s, sub), dsel[:])
				var sig phase0.BLSSignature
				copy(sig[:], harness.Keys.Key(1100+int(v-31)).Sign(root[:]).Marshal())
				h := sha256.Sum256(sig[:])
				if binary.LittleEndian.Uint64(h[:8])%modulo == 0 {
					wantC[sel{v, sub}] = sig
				}
			}
		}
		w.mu.Lock()
		gotC := w.contribs[s]
		w.mu.Unlock()
		seenC := map[sel]bool{}
		for _, cp := range gotC {
			k := sel{uint64(cp.Message.AggregatorIndex), cp.Message.Contribution.SubcommitteeIndex}
			seenC[k] = true
			ws, ok := wantC[k]
			if !ok {
				fail("contribution-from-unselected-aggregator", fmt.Sprintf("slot %d: contribution by validator %d for subcommittee %d, which the selection rule does not select", s, k.v, k.sub))
				continue
			}
			if cp.Message.SelectionProof != ws {
				fail("contribution-selection-proof-wrong", fmt.Sprintf("slot %d: selection proof of validator %d subcommittee %d is not its signature over (slot, subcommittee)", s, k.v, k.sub))
			}
			if haveRoot && cp.Message.Contribution.BeaconBlockRoot != root {
				fail("contribution-root-wrong", fmt.Sprintf("slot %d: contribution is not for the head root the messages of that slot were signed over", s))
			}
			obj := harness.RefContributionAndProof(k.v, harness.RefContribution(uint64(cp.Message.Contribution.Slot), cp.Message.Contribution.BeaconBlockRoot[:], k.sub, cp.Message.Contribution.AggregationBits, cp.Message.Contribution.Signature[:]), cp.Message.SelectionProof[:])
			dcp := harness.DomainFor(harness.DomainTypes["DOMAIN_CONTRIBUTION_AND_PROOF"], s/spe, false)
			sr := harness.RefSigningRoot(obj, dcp[:])
			if !harness.VerifySig(accts[k.v], sr[:], cp.Signature) {
				fail("contribution-signature-invalid", fmt.Sprintf("slot %d: contribution and proof of validator %d does not verify", s, k.v))
			}
			c.Count("contributions_verified", 1)
		}
		for k := range wantC {
			if !seenC[k] && gotBy[k.v] != nil {
				key := "contribution-missing"
				if len(mem) > len(want) {
					key += ":another-member-without-account-or-signature"
				}
				fail(key, fmt.Sprintf("slot %d: validator %d is a selected aggregator for subcommittee %d but submitted no contribution", s, k.v, k.sub))
			}
		}
		if len(want) > 0 {
			c.Distinct(fmt.Sprintf("%s|members:%d|skipped:%d|aggregators:%d", class, len(mem), len(mem)-len(want), len(wantC)))
		}
	}
	c.Count("slots_with_expected_messages", int64(expectedSlots))
	c.Sample(sc)
	_ = strings.Repeat
}

type nopAccts struct{}

func (nopAccts) ValidatingAccountsForEpoch(context.Context, phase0.Epoch) (map[phase0.ValidatorIndex]e2wtypes.Account, error) {
	return nil, nil
}
func (nopAccts) ValidatingAccountsForEpochByIndex(context.Context, phase0.Epoch, []phase0.ValidatorIndex) (map[phase0.ValidatorIndex]e2wtypes.Account, error) {
	return nil, nil
}
func (nopAccts) SyncCommitteeAccountsForEpoch(context.Context, phase0.Epoch) (map[phase0.ValidatorIndex]e2wtypes.Account, error) {
	return nil, nil
}
func (nopAccts) SyncCommitteeAccountsForEpochByIndex(context.Context, phase0.Epoch, []phase0.ValidatorIndex) (map[phase0.ValidatorIndex]e2wtypes.Account, error) {
	return nil, nil
}

func run(c *harness.Ctx) {
	harness.InitBLS()
	for i := 0; i < 6; i++ {
		harness.Keys.Key(1100 + i)
	}
	n := c.N(160, 8000)
	var wg sync.WaitGroup
	sem := make(chan struct{}, 16)
	for i := 0; i < n; i++ {
		id := fmt.Sprintf("hist%d", i)
		c.Case(id, func() {
			wg.Add(1)
			sem <- struct{}{}
			go func() {
				defer wg.Done()
				defer func() { <-sem }()
				history(c, id, c.Rand("hist", i))
			}()
		})
	}
	wg.Wait()
}

func main() {
	harness.Main(&harness.Spec{
		Property:     "C15",
		Level:        "exploration",
		Rule:         "controller histories in virtual time (4 slots per epoch, 8 epochs per sync period, committee size 32, 4 subnets) with the real sync committee messenger, aggregator and signer: start at epoch 0 (with and without waiting for genesis), inside period 0, in the last epochs before a period boundary, inside period 1, around an unaligned fork epoch; 1-4 of 5 validators in each period's committee with 1-2 positions; random members without account or returning no signature; run for more than a whole period, then every slot's submitted messages and contributions are judged. distinct = (window class, members, skipped members, selected aggregators)",
		Batches:      func(string) int { return 2 },
		Parallel:     2,
		Run:          run,
		MinDistinct:  20,
		ChildTimeout: func(string) time.Duration { return 40 * time.Minute },
		Assumptions:  []string{"the start slot itself may or may not carry a message (only later slots are judged)", "'no signature' is a remote signer returning no signature for that account (a hard signing error fails the signer's whole batch by its all-or-none design, judged under C06)", "expected selection proofs are recomputed with the validators' keys (deterministic BLS)"},
	})
}
