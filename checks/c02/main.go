// C02: a scheduled job runs exactly once, whoever starts it.
// Monitors over the real advanced scheduler:
//
//	(a) per-job trace rules over recorded API results, job-function invocations and hook observations
//	    (branch taken, goroutine exit), under boundary stress and under forced orders executed at hook points;
//	(b) periodic jobs: in-flight counter, ticking after early runs;
//	(c) linearizability of the job table (porcupine) over concurrent schedule/run/cancel/exists with name reuse.
package main

import (
	"context"
	"errors"
	"fmt"
	"math/rand"
	"runtime"
	"sort"
	"strings"
	"sync"
	"sync/atomic"
	"time"

	"github.com/anishathalye/porcupine"
	nullmetrics "github.com/attestantio/vouch/services/metrics/null"
	"github.com/attestantio/vouch/services/scheduler"
	"github.com/attestantio/vouch/services/scheduler/advanced"
	"github.com/petermattis/goid"
	"github.com/rs/zerolog"
	"verif/harness"
)

type jobState struct {
	name   string
	mode   string
	at     time.Time
	runs   atomic.Int32
	mu     sync.Mutex
	points []string
	exit   chan struct{}
	exited atomic.Bool
	forced map[string]func(js *jobState)

	runNil        atomic.Int32
	runErr        []string
	cancelNil     atomic.Int32
	cancelErr     []string
	ctxCancel     atomic.Bool
	ctxClearly    bool
	cancelClearly bool
	notes         []string
}

func (js *jobState) note(s string) { js.mu.Lock(); js.notes = append(js.notes, s); js.mu.Unlock() }

var registry sync.Map // name -> *jobState

func hook(point, name string) {
	v, ok := registry.Load(name)
	if !ok {
		return
	}
	js := v.(*jobState)
	js.mu.Lock()
	js.points = append(js.points, point)
	f := js.forced[point]
	js.mu.Unlock()
	if f != nil {
		f(js)
	}
	if point == "exit" || point == "p-exit" {
		if js.exited.CompareAndSwap(false, true) {
			close(js.exit)
		}
	}
}

func newSched() *advanced.Service {
	s, err := advanced.New(context.Background(), advanced.WithLogLevel(zerolog.Disabled), advanced.WithMonitor(nullmetrics.New()))
	if err != nil {
		panic(err)
	}
	return s
}

func errName(err error) string {
	switch {
	case err == nil:
		return "nil"
	case errors.Is(err, scheduler.ErrNoSuchJob):
		return "nosuch"
	case errors.Is(err, scheduler.ErrJobRunning):
		return "running"
	case errors.Is(err, scheduler.ErrJobFinalised):
		return "finalised"
	case errors.Is(err, scheduler.ErrJobAlreadyExists):
		return "exists"
	default:
		return err.Error()
	}
}

func spinUntil(t time.Time) {
	for time.Now().Before(t) {
		if time.Until(t) > 2*time.Millisecond {
			time.Sleep(time.Until(t) - 2*time.Millisecond)
		} else {
			runtime.Gosched()
		}
	}
}

var stressModes = []string{"timer", "run-early", "run-early-ifexists", "run-at-ifexists", "run-at", "multi-run-early", "multi-run-at", "cancel-early", "cancel-at", "ctx-early", "ctx-at", "cancel-vs-run", "run-at-and-cancel-at", "overdue-now", "overdue-past", "run-early-dead-context"}

var forcedModes = []string{"F1-run-at-timer", "F2-run-at-timer-unclaimed", "F3-cancel-at-timer", "F4-run-and-cancel-in-run-branch", "F5-timer-during-runjob", "F7-timer-during-cancel", "F8-double-run-at-timer"}

const far = time.Hour

func doRun(s *advanced.Service, js *jobState) {
	err := s.RunJob(context.Background(), js.name)
	if err == nil {
		js.runNil.Add(1)
	} else {
		js.mu.Lock()
		js.runErr = append(js.runErr, errName(err))
		js.mu.Unlock()
	}
}

func doCancel(s *advanced.Service, js *jobState) {
	err := s.CancelJob(context.Background(), js.name)
	if err == nil {
		js.cancelNil.Add(1)
	} else {
		js.mu.Lock()
		js.cancelErr = append(js.cancelErr, errName(err))
		js.mu.Unlock()
	}
}

// launch schedules one job in the given mode and starts the goroutines that interfere with it.
func launch(s *advanced.Service, r *rand.Rand, name, mode string, wg *sync.WaitGroup) *jobState {
	js := &jobState{name: name, mode: mode, exit: make(chan struct{}), forced: map[string]func(*jobState){}}
	registry.Store(name, js)
	ctx, cancelCtx := context.WithCancel(context.Background())
	near := time.Duration(15+r.Intn(30)) * time.Millisecond
	jitter := time.Duration(r.Intn(400)-200) * time.Microsecond
	fn := func(context.Context) { js.runs.Add(1) }
	sched := func(d time.Duration) {
		js.at = time.Now().Add(d)
		if err := s.ScheduleJob(ctx, "verif", name, js.at, fn); err != nil {
			js.note("schedule failed: " + err.Error())
		}
	}
	bg := func(f func()) {
		wg.Add(1)
		go func() { defer wg.Done(); f() }()
	}
	switch mode {
	case "overdue-now":
		sched(0) // due at the instant it is scheduled
	case "overdue-past":
		sched(-time.Duration(1+r.Intn(5000)) * time.Millisecond) // already overdue (scheduled late, e.g. after a slow duties fetch)
	case "timer":
		sched(near)
	case "run-early":
		sched(far)
		bg(func() { doRun(s, js) })
	case "run-early-dead-context":
		// the caller's context has already ended when it asks for the run (a job that outlived its slot): the request is
		// either carried out or refused, never half done
		sched(far)
		bg(func() {
			dead, cancelDead := context.WithCancel(context.Background())
			cancelDead()
			if err := s.RunJob(dead, js.name); err == nil {
				js.runNil.Add(1)
			} else {
				js.mu.Lock()
				js.runErr = append(js.runErr, errName(err))
				js.mu.Unlock()
				// refused: the job is still there and can be started properly
				doRun(s, js)
			}
		})
	case "run-early-ifexists":
		sched(far)
		bg(func() { s.RunJobIfExists(context.Background(), js.name); js.runNil.Add(1) }) // the job exists, so this must start it
	case "run-at-ifexists":
		sched(near)
		at := js.at.Add(jitter)
		bg(func() { spinUntil(at); s.RunJobIfExists(context.Background(), js.name) })
	case "run-at":
		sched(near)
		at := js.at.Add(jitter)
		bg(func() { spinUntil(at); doRun(s, js) })
	case "multi-run-early":
		sched(far)
		for k := 0; k < 3; k++ {
			bg(func() { doRun(s, js) })
		}
	case "multi-run-at":
		sched(near)
		for k := 0; k < 3; k++ {
			at := js.at.Add(jitter + time.Duration(k*20)*time.Microsecond)
			bg(func() { spinUntil(at); doRun(s, js) })
		}
	case "cancel-early":
		sched(far)
		js.cancelClearly = true
		bg(func() { doCancel(s, js) })
	case "cancel-at":
		sched(near)
		at := js.at.Add(jitter)
		bg(func() { spinUntil(at); doCancel(s, js) })
	case "ctx-early":
		sched(far)
		js.ctxClearly = true
		bg(func() { js.ctxCancel.Store(true); cancelCtx() })
	case "ctx-at":
		sched(near)
		at := js.at.Add(jitter)
		bg(func() { spinUntil(at); js.ctxCancel.Store(true); cancelCtx() })
	case "cancel-vs-run":
		sched(far)
		js.cancelClearly = true
		bg(func() { doRun(s, js) })
		bg(func() { doCancel(s, js) })
	case "run-at-and-cancel-at":
		sched(near)
		at := js.at.Add(jitter)
		bg(func() { spinUntil(at); doRun(s, js) })
		bg(func() { spinUntil(at); doCancel(s, js) })

	// Forced orders: the interfering call is made at a hook point, on the goroutine that reached it.
	case "F1-run-at-timer":
		js.forced["timer"] = func(js *jobState) { doRun(s, js) }
		sched(near)
	case "F8-double-run-at-timer":
		js.forced["timer"] = func(js *jobState) { doRun(s, js); doRun(s, js) }
		sched(near)
	case "F2-run-at-timer-unclaimed":
		js.forced["timer-unclaimed"] = func(js *jobState) { doRun(s, js) }
		sched(near)
	case "F3-cancel-at-timer":
		js.forced["timer"] = func(js *jobState) { doCancel(s, js) }
		sched(near)
	case "F4-run-and-cancel-in-run-branch":
		js.forced["run"] = func(js *jobState) { doRun(s, js); doCancel(s, js) }
		sched(far)
		bg(func() { doRun(s, js) })
	case "F5-timer-during-runjob":
		// RunJob has removed the job from the table but not yet claimed it when the timer fires.
		fired := make(chan struct{})
		var once sync.Once
		js.forced["timer-unclaimed"] = func(*jobState) { once.Do(func() { close(fired) }) }
		js.forced["runjob-claimed"] = func(js *jobState) {
			select {
			case <-fired:
				time.Sleep(200 * time.Microsecond)
			case <-time.After(4 * time.Second):
			}
		}
		sched(near)
		bg(func() { doRun(s, js) })
	case "F7-timer-during-cancel":
		fired := make(chan struct{})
		var once sync.Once
		js.forced["timer-unclaimed"] = func(*jobState) { once.Do(func() { close(fired) }) }
		js.forced["cancel-claimed"] = func(js *jobState) {
			select {
			case <-fired:
				time.Sleep(200 * time.Microsecond)
			case <-time.After(4 * time.Second):
			}
		}
		sched(near)
		bg(func() { doCancel(s, js) })
	}
	_ = cancelCtx
	return js
}

func judge(c *harness.Ctx, s *advanced.Service, js *jobState, id string) {
	// Wait for the goroutine exit (definite observation); generous watchdog.
	wd := 8 * time.Second
	if d := time.Until(js.at); d > 0 && d < time.Minute {
		wd += d
	}
	select {
	case <-js.exit:
	case <-time.After(wd):
	}
	js.mu.Lock()
	points := strings.Join(js.points, ">")
	runErr := append([]string{}, js.runErr...)
	cancelErr := append([]string{}, js.cancelErr...)
	notes := append([]string{}, js.notes...)
	js.mu.Unlock()
	sort.Strings(runErr)
	sort.Strings(cancelErr)
	runs := int(js.runs.Load())
	detail := map[string]any{"job": js.name, "mode": js.mode, "hook_points": points, "runs": runs, "runjob_nil": js.runNil.Load(), "runjob_errors": runErr,
		"cancel_nil": js.cancelNil.Load(), "cancel_errors": cancelErr, "ctx_cancelled": js.ctxCancel.Load(), "notes": notes, "exited": js.exited.Load()}
	class := fmt.Sprintf("%s|%s|run:%d/%v|cancel:%d/%v|runs:%d", js.mode, points, js.runNil.Load(), runErr, js.cancelNil.Load(), cancelErr, runs)
	c.Distinct(class)
	c.Count("mode_"+js.mode, 1)
	if strings.Contains(points, "timer-claimed") {
		c.Count("interleaving_timer_saw_runjob_claim", 1)
	}
	if strings.Contains(points, "timer-unclaimed") && js.runNil.Load() > 0 {
		c.Count("interleaving_timer_ran_job_runjob_also_succeeded", 1)
	}
	if len(notes) > 0 {
		c.Violate("schedule-rejected:"+js.mode, "ScheduleJob of a fresh name failed: "+notes[0], id, detail)
		return
	}
	if !js.exited.Load() {
		mustFinish := js.mode != ""
		if mustFinish {
			c.Violate("job-goroutine-stuck:"+js.mode, "job goroutine did not finish within the watchdog after its time / run / cancel", id, detail)
		}
		return
	}
	if runs > 1 {
		c.Violate("ran-twice:"+js.mode, fmt.Sprintf("job ran %d times", runs), id, detail)
	}
	if js.runNil.Load() > 1 {
		c.Violate("run-now-succeeded-twice:"+js.mode, "more than one run-now request reported success for one one-off job", id, detail)
	}
	if js.runNil.Load() > 0 && js.cancelNil.Load() > 0 && js.mode == "cancel-vs-run" {
		c.Violate("claimed-twice:"+js.mode, "both a run-now and a cancel request reported success long before the job's time", id, detail)
	}
	cancelled := js.cancelNil.Load() > 0 || js.ctxCancel.Load()
	if !cancelled && runs == 0 {
		// not cancelled: timer passed (all near modes) or a run-now succeeded
		key := "dropped:" + js.mode
		if strings.Contains(points, "timer-claimed") {
			key += ":timer-saw-claim"
		}
		what := "job was neither cancelled nor run: its goroutine exited without running it"
		if js.runNil.Load() > 0 {
			what = "run-now reported success but the job never ran: its goroutine exited without running it"
		}
		c.Violate(key, what, id, detail)
	}
	if js.cancelClearly && js.cancelNil.Load() > 0 && runs > 0 {
		c.Violate("ran-after-cancel:"+js.mode, "job cancelled an hour before its time still ran", id, detail)
	}
	if js.ctxClearly && runs > 0 {
		c.Violate("ran-after-context-cancel:"+js.mode, "job whose context was cancelled an hour before its time still ran", id, detail)
	}
	// A finished job is no longer listed, and its name can be scheduled again.
	if s.JobExists(context.Background(), js.name) {
		c.Violate("finished-job-still-listed:"+js.mode, "a job whose goroutine has finished is still reported by JobExists", id, detail)
	}
	err := s.ScheduleJob(context.Background(), "verif", js.name, time.Now().Add(far), func(context.Context) {})
	if err != nil {
		c.Violate("name-not-reusable:"+js.mode, "name of a finished job cannot be scheduled again: "+err.Error(), id, detail)
	} else {
		registry.Delete(js.name)
		_ = s.CancelJob(context.Background(), js.name)
	}
}

func oneOff(c *harness.Ctx, s *advanced.Service) {
	n := c.N(6000, 120000)
	group := 256
	for g := 0; g*group < n; g++ {
		id := fmt.Sprintf("oneoff-group%d", g)
		c.Case(id, func() {
			r := c.Rand("oneoff", g)
			var wg sync.WaitGroup
			var jobs []*jobState
			cnt := group
			if (g+1)*group > n {
				cnt = n - g*group
			}
			for k := 0; k < cnt; k++ {
				modes := stressModes
				if r.Intn(4) == 0 {
					modes = forcedModes
				}
				mode := modes[r.Intn(len(modes))]
				jobs = append(jobs, launch(s, r, fmt.Sprintf("j%d-%d-%d", c.Batch, g, k), mode, &wg))
				if k%16 == 15 {
					time.Sleep(time.Duration(r.Intn(2000)) * time.Microsecond)
				}
			}
			wg.Wait()
			for _, js := range jobs {
				judge(c, s, js, id)
			}
			c.Eval(cnt - 1)
			if g == 0 {
				for _, js := range jobs[:3] {
					js.mu.Lock()
					c.Sample(map[string]any{"mode": js.mode, "hook_points": strings.Join(js.points, ">"), "runs": js.runs.Load(), "runjob_nil": js.runNil.Load(), "cancel_nil": js.cancelNil.Load()})
					js.mu.Unlock()
				}
			}
		})
	}
}

// periodic: a job never overlaps itself and keeps ticking after an early run.
func periodic(c *harness.Ctx, s *advanced.Service) {
	n := c.N(60, 1500)
	var wg sync.WaitGroup
	sem := make(chan struct{}, 30)
	for i := 0; i < n; i++ {
		id := fmt.Sprintf("periodic%d", i)
		c.Case(id, func() {
			wg.Add(1)
			sem <- struct{}{}
			go func() {
				defer wg.Done()
				defer func() { <-sem }()
				r := c.Rand("periodic", i)
				name := fmt.Sprintf("p%d-%d", c.Batch, i)
				js := &jobState{name: name, mode: "periodic", exit: make(chan struct{}), forced: map[string]func(*jobState){}}
				forcedRun := r.Intn(3) == 0
				var forcedOnce atomic.Bool
				if forcedRun {
					js.forced["p-timer"] = func(js *jobState) {
						if forcedOnce.CompareAndSwap(false, true) {
							doRun(s, js)
						}
					}
				}
				registry.Store(name, js)
				defer registry.Delete(name)
				K := 14 + r.Intn(10)
				period := time.Duration(3+r.Intn(5)) * time.Millisecond
				var ticks atomic.Int32
				var inflight, maxInflight atomic.Int32
				var invocations atomic.Int32
				var lastEarly atomic.Int64 // invocation count when the last early run succeeded
				var ticksAtLastEarly atomic.Int32
				work := time.Duration(r.Intn(3)) * time.Millisecond
				err := s.SchedulePeriodicJob(context.Background(), "verif", name,
					func(context.Context) (time.Time, error) {
						if int(ticks.Add(1)) > K {
							return time.Time{}, scheduler.ErrNoMoreInstances
						}
						return time.Now().Add(period), nil
					},
					func(context.Context) {
						v := inflight.Add(1)
						for {
							m := maxInflight.Load()
							if v <= m || maxInflight.CompareAndSwap(m, v) {
								break
							}
						}
						invocations.Add(1)
						time.Sleep(work)
						inflight.Add(-1)
					})
				if err != nil {
					c.Violate("periodic-schedule-rejected", err.Error(), id, nil)
					return
				}
				// early runs from outside
				earlyN := r.Intn(4)
				for e := 0; e < earlyN; e++ {
					time.Sleep(time.Duration(r.Intn(int(period)*4)) * time.Nanosecond)
					if int(ticks.Load()) >= K-4 {
						break
					}
					before := js.runNil.Load()
					doRun(s, js)
					if js.runNil.Load() > before {
						lastEarly.Store(int64(invocations.Load()))
						ticksAtLastEarly.Store(ticks.Load())
					}
				}
				select {
				case <-js.exit:
				case <-time.After(20 * time.Second):
					c.Violate("periodic-stuck", "periodic job goroutine did not stop after its last instance", id, map[string]any{"ticks": ticks.Load(), "invocations": invocations.Load()})
					_ = s.CancelJob(context.Background(), name)
					return
				}
				js.mu.Lock()
				points := strings.Join(js.points, ">")
				js.mu.Unlock()
				detail := map[string]any{"instances": K, "invocations": invocations.Load(), "early_runs_ok": js.runNil.Load(), "early_errors": js.runErr, "max_inflight": maxInflight.Load(), "hook_points": points, "forced_run_at_timer": forcedRun}
				if maxInflight.Load() > 1 {
					c.Violate("periodic-overlap", "periodic job ran concurrently with itself", id, detail)
				}
				early := js.runNil.Load()
				if early > 0 && int(ticksAtLastEarly.Load()) <= K-4 && int64(invocations.Load()) <= lastEarly.Load()+int64(0) {
					// at least 3 further instances were due after the last early run, plus the early run itself
					c.Violate("periodic-stops-after-early-run", "no further invocation after a successful early run although instances remained", id, detail)
				}
				if int(invocations.Load()) < K/2 {
					c.Violate("periodic-too-few-ticks", fmt.Sprintf("%d invocations for %d instances", invocations.Load(), K), id, detail)
				}
				if s.JobExists(context.Background(), name) {
					c.Violate("periodic-left-in-table", "finished periodic job still listed", id, detail)
				}
				c.Count("periodic_invocations", int64(invocations.Load()))
				c.Count("periodic_early_runs_ok", int64(early))
				if strings.Contains(points, "p-timer-claimed") {
					c.Count("interleaving_periodic_timer_saw_claim", 1)
				}
				c.Distinct(fmt.Sprintf("periodic|early:%d|claimed:%v|forced:%v|K%d", early, strings.Contains(points, "p-timer-claimed"), forcedRun, K/4))
				if i < 1 {
					c.Sample(detail)
				}
			}()
		})
	}
	wg.Wait()
}

// periodicCancelInsideRun: a run-now request for a periodic job is overtaken by a complete CancelJob between its table
// lookup and its claim (forced at the hook point). The request must not report success for a job that will never run
// again, and the cancelled job must not run again.
func periodicCancelInsideRun(c *harness.Ctx, s *advanced.Service) {
	n := c.N(24, 600)
	for i := 0; i < n; i++ {
		id := fmt.Sprintf("periodic-cancel-inside-run%d", i)
		c.Case(id, func() {
			r := c.Rand("pcir", i)
			name := fmt.Sprintf("pc%d-%d", c.Batch, i)
			js := &jobState{name: name, mode: "periodic-cancel-inside-run", exit: make(chan struct{}), forced: map[string]func(*jobState){}}
			var once atomic.Bool
			var cancelDone atomic.Int64 // invocation count at the moment CancelJob returned
			var invocations atomic.Int64
			cancelDone.Store(-1)
			js.forced["runjob-claimed"] = func(js *jobState) {
				if once.CompareAndSwap(false, true) {
					doCancel(s, js)
					cancelDone.Store(invocations.Load())
				}
			}
			registry.Store(name, js)
			defer registry.Delete(name)
			period := time.Duration(40+r.Intn(40)) * time.Millisecond
			err := s.SchedulePeriodicJob(context.Background(), "verif", name,
				func(context.Context) (time.Time, error) { return time.Now().Add(period), nil },
				func(context.Context) { invocations.Add(1) })
			if err != nil {
				c.Violate("periodic-schedule-rejected", err.Error(), id, nil)
				return
			}
			time.Sleep(time.Duration(r.Intn(int(period))) * time.Nanosecond)
			doRun(s, js)
			select {
			case <-js.exit:
			case <-time.After(10 * time.Second):
				c.Violate("periodic-stuck:cancel-inside-run", "the cancelled periodic job's goroutine did not stop", id, nil)
				return
			}
			time.Sleep(2 * period)
			detail := map[string]any{"run_now_reported_success": js.runNil.Load() > 0, "run_now_errors": js.runErr, "cancel_reported_success": js.cancelNil.Load() > 0, "invocations_when_cancel_returned": cancelDone.Load(), "invocations_in_the_end": invocations.Load()}
			// (an instance that had already begun when the cancel completed may still finish: one more invocation is allowed)
			if js.cancelNil.Load() > 0 && invocations.Load() > cancelDone.Load()+1 {
				c.Violate("ran-after-cancel:periodic-cancel-inside-run", "a periodic job ran again (more than the one instance that may have been under way) after CancelJob had returned success", id, detail)
			} else if js.cancelNil.Load() > 0 && js.runNil.Load() > 0 {
				c.Violate("dropped:periodic-cancel-inside-run", "a run-now request reported success for a periodic job that had been cancelled before the request claimed it; the run never happened", id, detail)
			}
			c.Count("periodic_cancel_inside_run_cases", 1)
			c.Distinct(fmt.Sprintf("pcir|run:%v|cancel:%v", js.runNil.Load() > 0, js.cancelNil.Load() > 0))
		})
	}
}

// periodicWhileRunning: things that happen while an instance of a periodic job is executing (when the job is marked as
// under way): cancellation by prefix, a run-now request whose context has ended, an attempt to schedule the name again.
func periodicWhileRunning(c *harness.Ctx, s *advanced.Service) {
	n := c.N(30, 900)
	for i := 0; i < n; i++ {
		action := []string{"cancel-by-prefix", "run-now-with-dead-context", "schedule-same-name"}[i%3]
		id := fmt.Sprintf("periodic-while-running%d/%s", i, action)
		c.Case(id, func() {
			r := c.Rand("pwr", i)
			prefix := fmt.Sprintf("pw%d-%d", c.Batch, i)
			name := prefix + "-job"
			js := &jobState{name: name, mode: "periodic-while-running", exit: make(chan struct{}), forced: map[string]func(*jobState){}}
			registry.Store(name, js)
			defer registry.Delete(name)
			period := time.Duration(8+r.Intn(8)) * time.Millisecond
			work := time.Duration(4+r.Intn(4)) * time.Millisecond
			var started, inflight, maxInflight atomic.Int32
			running := make(chan struct{}, 1024)
			fn := func(context.Context) {
				v := inflight.Add(1)
				for {
					m := maxInflight.Load()
					if v <= m || maxInflight.CompareAndSwap(m, v) {
						break
					}
				}
				started.Add(1)
				select {
				case running <- struct{}{}:
				default:
				}
				time.Sleep(work)
				inflight.Add(-1)
			}
			next := func(context.Context) (time.Time, error) { return time.Now().Add(period), nil }
			if err := s.SchedulePeriodicJob(context.Background(), "verif", name, next, fn); err != nil {
				c.Violate("periodic-schedule-rejected", err.Error(), id, nil)
				return
			}
			// wait for the second instance to be executing
			for k := 0; k < 2; k++ {
				select {
				case <-running:
				case <-time.After(10 * time.Second):
					c.Violate("periodic-too-few-ticks:while-running", "a periodic job did not run two instances in 10 s", id, nil)
					_ = s.CancelJob(context.Background(), name)
					return
				}
			}
			detail := map[string]any{"action": action, "period_ms": period.Milliseconds(), "work_ms": work.Milliseconds()}
			switch action {
			case "cancel-by-prefix":
				s.CancelJobs(context.Background(), prefix)
				at := started.Load()
				time.Sleep(6 * period)
				detail["instances_started_when_cancelled"], detail["instances_started_in_the_end"] = at, started.Load()
				if started.Load() > at+1 {
					c.Violate("ran-after-cancel:cancel-by-prefix-while-running", fmt.Sprintf("a periodic job cancelled by prefix while an instance was executing went on to start %d more instances", started.Load()-at), id, detail)
					_ = s.CancelJob(context.Background(), name)
					return
				}
				if s.JobExists(context.Background(), name) {
					c.Violate("cancelled-job-still-listed:cancel-by-prefix-while-running", "a periodic job cancelled by prefix while an instance was executing is still listed", id, detail)
					_ = s.CancelJob(context.Background(), name)
					return
				}
			case "run-now-with-dead-context":
				dead, cancelDead := context.WithCancel(context.Background())
				cancelDead()
				err := s.RunJob(dead, name)
				at := started.Load()
				time.Sleep(8 * period)
				detail["run_now_result"], detail["instances_started_at_the_request"], detail["instances_started_in_the_end"] = fmt.Sprint(err), at, started.Load()
				if started.Load() < at+2 {
					c.Violate("periodic-stops-after-early-run:dead-context", "a periodic job stopped ticking after a run-now request made with a context that had ended", id, detail)
				}
				_ = s.CancelJob(context.Background(), name)
			default:
				err := s.SchedulePeriodicJob(context.Background(), "verif", name, next, fn)
				time.Sleep(6 * period)
				detail["second_schedule_result"], detail["max_instances_at_once"] = fmt.Sprint(err), maxInflight.Load()
				if err == nil {
					c.Violate("duplicate-name-accepted:while-running", "scheduling the name of a periodic job again while one of its instances was executing was accepted", id, detail)
				}
				if maxInflight.Load() > 1 {
					c.Violate("periodic-overlap:while-running", "two instances of one periodic job executed at the same time", id, detail)
				}
				_ = s.CancelJob(context.Background(), name)
				_ = s.CancelJob(context.Background(), name)
			}
			c.Count("periodic_while_running_cases", 1)
			c.Distinct("pwr|" + action)
		})
	}
}

// ---- linearizability of the job table ----

type tblIn struct {
	Op string // sched | run | cancel | exists | claim
}

type tblOp struct {
	porcupine.Operation
}

func tableModel() porcupine.Model {
	return porcupine.Model{
		Init: func() any { return false },
		Step: func(state, input, output any) (bool, any) {
			present := state.(bool)
			in := input.(tblIn)
			out := output.(string)
			switch in.Op {
			case "sched":
				if out == "nil" {
					return !present, true
				}
				return present && out == "exists", present
			case "run":
				if out == "nosuch" {
					return !present, present
				}
				return present, false // nil, running, finalised: the entry was taken from the table
			case "cancel":
				if out == "nosuch" {
					return !present, present
				}
				return present && out == "nil", false
			case "runif": // RunJobIfExists reports nothing: it either took the entry or found none
				return true, false
			case "exists":
				return (out == "true") == present, present
			case "claim": // the timer (or context) branch deletes the name from the table
				return true, false
			}
			return false, state
		},
		DescribeOperation: func(input, output any) string { return fmt.Sprintf("%s->%s", input.(tblIn).Op, output) },
	}
}

func tableLin(c *harness.Ctx, s *advanced.Service) {
	n := c.N(400, 12000)
	model := tableModel()
	base := time.Now()
	var wgAll sync.WaitGroup
	sem := make(chan struct{}, 32)
	for i := 0; i < n; i++ {
		id := fmt.Sprintf("table%d", i)
		c.Case(id, func() {
			wgAll.Add(1)
			sem <- struct{}{}
			go func() {
				defer wgAll.Done()
				defer func() { <-sem }()
				r := c.Rand("table", i)
				name := fmt.Sprintf("t%d-%d", c.Batch, i)
				var mu sync.Mutex
				var ops []porcupine.Operation
				rec := func(client int, op string, call int64, out string) {
					mu.Lock()
					ops = append(ops, porcupine.Operation{ClientId: client, Input: tblIn{op}, Call: call, Output: out, Return: int64(time.Since(base))})
					mu.Unlock()
				}
				// timer claims are recorded from the hook: call at "timer-unclaimed", return when the job function starts.
				js := &jobState{name: name, mode: "table", exit: make(chan struct{}), forced: map[string]func(*jobState){}}
				// keyed by goroutine: the hook and the job function of one incarnation run on the same goroutine
				var claimCalls sync.Map
				js.forced["timer-unclaimed"] = func(*jobState) { claimCalls.Store(goid.Get(), int64(time.Since(base))) }
				registry.Store(name, js)
				defer registry.Delete(name)
				fn := func(context.Context) {
					if cc, ok := claimCalls.LoadAndDelete(goid.Get()); ok {
						rec(99, "claim", cc.(int64), "done")
					}
				}
				nearJobs := r.Intn(3) == 0
				G := 3
				var wg sync.WaitGroup
				seeds := make([]int64, G)
				for g := range seeds {
					seeds[g] = r.Int63()
				}
				for g := 0; g < G; g++ {
					wg.Add(1)
					go func(g int) {
						defer wg.Done()
						rr := rand.New(rand.NewSource(seeds[g]))
						for k := 0; k < 7; k++ {
							call := int64(time.Since(base))
							switch rr.Intn(6) {
							case 0, 1:
								d := far
								if nearJobs && rr.Intn(2) == 0 {
									d = time.Duration(1+rr.Intn(3)) * time.Millisecond
								}
								err := s.ScheduleJob(context.Background(), "verif", name, time.Now().Add(d), fn)
								rec(g, "sched", call, errName(err))
							case 2:
								rec(g, "run", call, errName(s.RunJob(context.Background(), name)))
							case 3:
								if rr.Intn(2) == 0 {
									s.RunJobIfExists(context.Background(), name)
									rec(g, "runif", call, "-")
								} else {
									rec(g, "run", call, errName(s.RunJob(context.Background(), name)))
								}
							case 4:
								rec(g, "cancel", call, errName(s.CancelJob(context.Background(), name)))
							default:
								rec(g, "exists", call, fmt.Sprint(s.JobExists(context.Background(), name)))
							}
							if rr.Intn(3) == 0 {
								time.Sleep(time.Duration(rr.Intn(1500)) * time.Microsecond)
							}
						}
					}(g)
				}
				wg.Wait()
				// let pending near timers fire, then clear the table entry
				if nearJobs {
					time.Sleep(6 * time.Millisecond)
				}
				_ = s.CancelJob(context.Background(), name)
				mu.Lock()
				history := append([]porcupine.Operation{}, ops...)
				mu.Unlock()
				res := porcupine.CheckOperationsTimeout(model, history, 20*time.Second)
				ok := 0
				for _, o := range history {
					if o.Output == "nil" {
						ok++
					}
				}
				switch res {
				case porcupine.Illegal:
					var hs []string
					sort.Slice(history, func(a, b int) bool { return history[a].Call < history[b].Call })
					for _, o := range history {
						hs = append(hs, fmt.Sprintf("c%d %s->%v [%d,%d]", o.ClientId, o.Input.(tblIn).Op, o.Output, o.Call, o.Return))
					}
					c.Violate("job-table-not-linearizable", "concurrent schedule/run/cancel/exists results on one name match no sequential order", id, map[string]any{"history": hs})
				case porcupine.Unknown:
					c.Inconclusive("porcupine timed out on " + id)
				}
				c.Count("table_ops_checked", int64(len(history)))
				if ok >= 3 {
					c.Distinct(fmt.Sprintf("table|ops:%d|ok:%d|near:%v", len(history), ok, nearJobs))
				}
				if i < 1 {
					var hs []string
					for _, o := range history {
						hs = append(hs, fmt.Sprintf("c%d %s->%v", o.ClientId, o.Input.(tblIn).Op, o.Output))
					}
					c.Sample(map[string]any{"table_history": hs})
				}
			}()
		})
	}
	wgAll.Wait()
}

func run(c *harness.Ctx) {
	if !c.Quick() {
		runtime.GOMAXPROCS([]int{16, 4, 2}[c.Batch%3])
	}
	advanced.VerifSetHook(hook)
	s := newSched()
	oneOff(c, s)
	periodic(c, s)
	periodicCancelInsideRun(c, s)
	periodicWhileRunning(c, s)
	tableLin(c, s)
	// Nothing must be left in the table.
	if left := s.ListJobs(context.Background()); len(left) > 0 {
		c.Violate("jobs-left-in-table", fmt.Sprintf("%d jobs still listed after all were run or cancelled, e.g. %s", len(left), left[0]), "end", nil)
	}
}

func main() {
	harness.Main(&harness.Spec{
		Property: "C02",
		Level:    "exploration",
		Rule:     "one-off jobs in 11 stress modes (timer, run-now/cancel/context-cancel long before or spun to the scheduled instant with +-200us jitter, several run-nows, cancel vs run) and 7 forced orders executed at hook points inside the scheduler (run-now at the moment the timer branch is taken, between its claim check and table removal, timer firing inside RunJob/CancelJob, ...); periodic jobs with early runs; concurrent table histories with name reuse checked by porcupine. distinct = (mode, sequence of hook points reached, API results, runs) i.e. the interleaving class actually observed",
		Batches: func(tier string) int {
			if tier == "thorough" {
				return 6
			}
			return 2
		},
		Parallel:    2,
		Run:         run,
		MinDistinct: 30,
		ChildTimeout: func(tier string) time.Duration {
			if tier == "thorough" {
				return 40 * time.Minute
			}
			return 8 * time.Minute
		},
		Assumptions: []string{"job functions are instantaneous (one-off) or 0-2 ms (periodic)", "a cancel or context cancel at the scheduled instant may or may not prevent the run (only cancels an hour ahead are 'clearly before')", "timer-branch table removal is by name (model mirrors that)"},
	})
}
