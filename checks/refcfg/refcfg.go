// Package refcfg is the reference model of proposer settings (DESIGN.md Appendix A.1): a generated document
// model for version 2 and legacy execution configurations, their JSON rendering, and an independent resolver
// written from the documentation. Shared by C10, C11 and C12.
package refcfg

import (
	"encoding/json"
	"fmt"
	"math/rand"
	"regexp"
	"sort"
	"strings"
	"time"

	"github.com/attestantio/go-eth2-client/spec/bellatrix"
	"github.com/attestantio/go-eth2-client/spec/phase0"
	"github.com/attestantio/vouch/services/beaconblockproposer"
	"github.com/shopspring/decimal"
	e2wtypes "github.com/wealdtech/go-eth2-wallet-types/v2"
	"verif/harness"
)

// ---- generated document model (version 2) ----

type Opts struct {
	FR    *int    // fee recipient id
	GL    *uint64 // gas limit
	Grace *int64  // ms
	Min   *string // ETH decimal string
}

type Relay struct {
	Opts
	Pub      *int
	Disabled bool
}

type Proposer struct {
	Proposer string // as written in the document
	KeyNo    int    // >=0: public key entry
	Opts
	Reset  bool
	Relays map[string]*Relay
}

type Doc2 struct {
	Opts
	Relays    map[string]*Relay
	Proposers []*Proposer
}

// ZeroFR is the fee recipient id that stands for the all-zero address.
const ZeroFR = 4095

func FRHex(id int) string {
	var a bellatrix.ExecutionAddress
	if id == ZeroFR {
		return fmt.Sprintf("%#x", a)
	}
	for i := range a {
		a[i] = byte(id)
	}
	a[0] = 0xf0 | byte(id>>8)
	return fmt.Sprintf("%#x", a)
}

func FRAddr(id int) bellatrix.ExecutionAddress {
	var a bellatrix.ExecutionAddress
	if id == ZeroFR {
		return a
	}
	for i := range a {
		a[i] = byte(id)
	}
	a[0] = 0xf0 | byte(id>>8)
	return a
}

func PubOf(n int) phase0.BLSPubKey {
	var p phase0.BLSPubKey
	for i := range p {
		p[i] = byte(n + 1)
	}
	p[0] = 0x80 | byte(n)
	return p
}

func (o *Opts) Fields() []string {
	var f []string
	if o.FR != nil {
		f = append(f, fmt.Sprintf(`"fee_recipient":"%s"`, FRHex(*o.FR)))
	}
	if o.GL != nil {
		f = append(f, fmt.Sprintf(`"gas_limit":"%d"`, *o.GL))
	}
	if o.Grace != nil {
		f = append(f, fmt.Sprintf(`"grace":"%d"`, *o.Grace))
	}
	if o.Min != nil {
		f = append(f, fmt.Sprintf(`"min_value":"%s"`, *o.Min))
	}
	return f
}

func RelaysJSON(rs map[string]*Relay, proposerLevel bool) string {
	addrs := make([]string, 0, len(rs))
	for a := range rs {
		addrs = append(addrs, a)
	}
	sort.Strings(addrs)
	var parts []string
	for _, a := range addrs {
		r := rs[a]
		f := r.Opts.Fields()
		if r.Pub != nil {
			f = append(f, fmt.Sprintf(`"public_key":"%#x"`, PubOf(*r.Pub)))
		}
		if proposerLevel && r.Disabled {
			f = append(f, `"disabled":true`)
		}
		parts = append(parts, fmt.Sprintf(`%q:{%s}`, a, strings.Join(f, ",")))
	}
	return "{" + strings.Join(parts, ",") + "}"
}

func (d *Doc2) JSON() string {
	f := []string{`"version":2`}
	f = append(f, d.Opts.Fields()...)
	if d.Relays != nil {
		f = append(f, `"relays":`+RelaysJSON(d.Relays, false))
	}
	if d.Proposers != nil {
		var ps []string
		for _, p := range d.Proposers {
			pf := []string{fmt.Sprintf(`"proposer":%q`, p.Proposer)}
			pf = append(pf, p.Opts.Fields()...)
			if p.Reset {
				pf = append(pf, `"reset_relays":true`)
			}
			if p.Relays != nil {
				pf = append(pf, `"relays":`+RelaysJSON(p.Relays, true))
			}
			ps = append(ps, "{"+strings.Join(pf, ",")+"}")
		}
		f = append(f, `"proposers":[`+strings.Join(ps, ",")+"]")
	}
	return "{" + strings.Join(f, ",") + "}"
}

// ---- reference resolver ----

type RRelay struct {
	FR    bellatrix.ExecutionAddress
	GL    uint64
	Grace time.Duration
	Min   decimal.Decimal // wei
	Pub   *phase0.BLSPubKey
}

type Resolved struct {
	FR     bellatrix.ExecutionAddress
	Relays map[string]*RRelay
}

var WeiPerETH = decimal.New(1, 18)

func MinWei(s string) decimal.Decimal {
	d, err := decimal.NewFromString(s)
	if err != nil {
		panic(err)
	}
	return d.Mul(WeiPerETH)
}

func ApplyOpts(r *RRelay, o *Opts) {
	if o.FR != nil {
		r.FR = FRAddr(*o.FR)
	}
	if o.GL != nil {
		r.GL = *o.GL
	}
	if o.Grace != nil {
		r.Grace = time.Duration(*o.Grace) * time.Millisecond
	}
	if o.Min != nil {
		r.Min = MinWei(*o.Min)
	}
}

// FullMatch: the account expression, anchored at both ends as a whole.
func FullMatch(expr string, name string) bool {
	e := strings.TrimSuffix(strings.TrimPrefix(expr, "^"), "$")
	re := regexp.MustCompile("^(?:" + e + ")$")
	return re.MatchString(name)
}

func (d *Doc2) Resolve(pubkey phase0.BLSPubKey, name string, fFR bellatrix.ExecutionAddress, fGL uint64) *Resolved {
	return d.ResolveWith(pubkey, name, fFR, fGL, nil).Resolved
}

// ResolveResult also says whether a proposer entry matched.
type ResolveResult struct {
	Resolved *Resolved
	Matched  bool
}

// ResolveWith resolves with a custom matcher for proposer entries given by key (nil: the entry's key number).
func (d *Doc2) ResolveWith(pubkey phase0.BLSPubKey, name string, fFR bellatrix.ExecutionAddress, fGL uint64, keyMatch func(*Proposer) bool) ResolveResult {
	r := d.resolveWith(pubkey, name, fFR, fGL, keyMatch)
	return r
}

func (d *Doc2) resolveWith(pubkey phase0.BLSPubKey, name string, fFR bellatrix.ExecutionAddress, fGL uint64, keyMatch func(*Proposer) bool) ResolveResult {
	res := &Resolved{FR: fFR, Relays: map[string]*RRelay{}}
	if d.FR != nil {
		res.FR = FRAddr(*d.FR)
	}
	base := &RRelay{FR: res.FR, GL: fGL}
	ApplyOpts(base, &Opts{GL: d.GL, Grace: d.Grace, Min: d.Min})
	for addr, b := range d.Relays {
		r := *base
		ApplyOpts(&r, &b.Opts)
		if b.Pub != nil {
			p := PubOf(*b.Pub)
			r.Pub = &p
		}
		res.Relays[addr] = &r
	}
	var P *Proposer
	for _, p := range d.Proposers {
		if p.KeyNo >= 0 {
			if (keyMatch == nil && PubOf(p.KeyNo) == pubkey) || (keyMatch != nil && keyMatch(p)) {
				P = p
				break
			}
		} else if FullMatch(p.Proposer, name) {
			P = p
			break
		}
	}
	if P == nil {
		return ResolveResult{res, false}
	}
	if P.FR != nil {
		res.FR = FRAddr(*P.FR)
	}
	for _, r := range res.Relays {
		ApplyOpts(r, &P.Opts)
	}
	if P.Reset {
		res.Relays = map[string]*RRelay{}
	}
	for addr, pr := range P.Relays {
		if pr.Disabled {
			delete(res.Relays, addr)
			continue
		}
		if r, ok := res.Relays[addr]; ok {
			ApplyOpts(r, &pr.Opts)
			if pr.Pub != nil {
				p := PubOf(*pr.Pub)
				r.Pub = &p
			}
			continue
		}
		// new Relay: r.X ?? P.X ?? D.X ?? fallback
		r := &RRelay{FR: fFR, GL: fGL}
		ApplyOpts(r, &d.Opts)
		ApplyOpts(r, &P.Opts)
		ApplyOpts(r, &pr.Opts)
		if pr.Pub != nil {
			p := PubOf(*pr.Pub)
			r.Pub = &p
		}
		res.Relays[addr] = r
	}
	return ResolveResult{res, true}
}

func Diff(want *Resolved, got *beaconblockproposer.ProposerConfig) string {
	if got == nil {
		return "nil config"
	}
	if got.FeeRecipient != want.FR {
		return fmt.Sprintf("fee recipient %#x, want %#x", got.FeeRecipient, want.FR)
	}
	seen := map[string]bool{}
	for _, r := range got.Relays {
		if seen[r.Address] {
			return "relay listed twice: " + r.Address
		}
		seen[r.Address] = true
		w, ok := want.Relays[r.Address]
		if !ok {
			return "unexpected Relay " + r.Address
		}
		if r.FeeRecipient != w.FR {
			return fmt.Sprintf("relay %s fee recipient %#x, want %#x", r.Address, r.FeeRecipient, w.FR)
		}
		if r.GasLimit != w.GL {
			return fmt.Sprintf("relay %s gas limit %d, want %d", r.Address, r.GasLimit, w.GL)
		}
		if r.Grace != w.Grace {
			return fmt.Sprintf("relay %s grace %v, want %v", r.Address, r.Grace, w.Grace)
		}
		if !r.MinValue.Equal(w.Min) {
			return fmt.Sprintf("relay %s min value %s wei, want %s wei", r.Address, r.MinValue.String(), w.Min.String())
		}
		switch {
		case (r.PublicKey == nil) != (w.Pub == nil):
			return fmt.Sprintf("relay %s public key presence differs", r.Address)
		case r.PublicKey != nil && *r.PublicKey != *w.Pub:
			return fmt.Sprintf("relay %s public key differs", r.Address)
		}
	}
	for a := range want.Relays {
		if !seen[a] {
			return "missing Relay " + a
		}
	}
	return ""
}

// ---- generators ----

var RelayAddrs = []string{"https://relay1.com/", "https://relay2.com/", "https://relay3.com/", "https://relay4.com/"}

var MinValues = []string{"0", "0.1", "0.2", "1", "0.000000000000000001", "0.00000000000000005", "0.000000000000000123", "12.5", "0.4", "0.000001"}

func GenOpts(r *rand.Rand, p int) Opts {
	var o Opts
	if r.Intn(100) < p {
		v := 1 + r.Intn(60)
		if r.Intn(30) == 0 {
			v = ZeroFR // an explicitly configured zero address
		}
		o.FR = &v
	}
	if r.Intn(100) < p {
		v := uint64(1000000 * (1 + r.Intn(60)))
		if r.Intn(8) == 0 {
			v = 0 // explicit zero is a value
		}
		o.GL = &v
	}
	if r.Intn(100) < p {
		v := int64(r.Intn(5) * 250)
		o.Grace = &v
	}
	if r.Intn(100) < p {
		v := MinValues[r.Intn(len(MinValues))]
		o.Min = &v
	}
	return o
}

func GenRelays(r *rand.Rand, proposerLevel bool) map[string]*Relay {
	if r.Intn(4) == 0 {
		return nil
	}
	rs := map[string]*Relay{}
	for _, a := range RelayAddrs {
		if r.Intn(2) == 0 {
			continue
		}
		rl := &Relay{Opts: GenOpts(r, 35)}
		if r.Intn(3) == 0 {
			v := r.Intn(4)
			rl.Pub = &v
		}
		if proposerLevel && r.Intn(4) == 0 {
			rl.Disabled = true
		}
		rs[a] = rl
	}
	return rs
}

type Validator struct {
	KeyNo            int
	Wallet           string // "" => no account (nil)
	Acct             string
	NoWalletProvider bool
}

var Wallets = []string{"Wallet 1", "Wallet 2", "Wallet 11", "XWallet 1"}
var AcctNames = []string{"Account 1", "Account 2", "Account 3", "Account 22", "Account 1x"}

var Exprs = []string{
	"Wallet 1/Account 1", "Wallet 1/.*", "Wallet [12]/Account [123]", "(Wallet 1|Wallet 2)/Account 1", ".*", "Wallet 2/Account (1|2)",
	"Wallet 1/Account .", "Wallet 1.*", ".*/Account 2", "Wallet 1/Account 2?", "<unknown>/Account 1", "<unknown>/.*",
}

func GenDoc(r *rand.Rand) *Doc2 {
	d := &Doc2{Opts: GenOpts(r, 50), Relays: GenRelays(r, false)}
	n := r.Intn(5)
	if n > 0 || r.Intn(2) == 0 {
		d.Proposers = []*Proposer{}
	}
	for i := 0; i < n; i++ {
		p := &Proposer{KeyNo: -1, Opts: GenOpts(r, 40), Reset: r.Intn(4) == 0, Relays: GenRelays(r, true)}
		if r.Intn(2) == 0 {
			p.KeyNo = r.Intn(4)
			p.Proposer = fmt.Sprintf("%#x", PubOf(p.KeyNo))
		} else {
			e := Exprs[r.Intn(len(Exprs))]
			switch r.Intn(4) {
			case 1:
				e = "^" + e
			case 2:
				e = e + "$"
			case 3:
				e = "^" + e + "$"
			}
			p.Proposer = e
		}
		d.Proposers = append(d.Proposers, p)
	}
	return d
}

type acctWrap struct {
	e2wtypes.Account
}

func MkAccount(v Validator) e2wtypes.Account {
	if v.Wallet == "" {
		return nil
	}
	a := harness.NewAcct(harness.KindPlain, v.Wallet, v.Acct, v.KeyNo, 0, nil)
	if v.NoWalletProvider {
		return acctWrap{a} // hides Wallet()
	}
	return a
}

func AccountName(v Validator) string {
	switch {
	case v.Wallet == "":
		return "<unknown>/<unknown>"
	case v.NoWalletProvider:
		return "<unknown>/" + v.Acct
	default:
		return v.Wallet + "/" + v.Acct
	}
}

func GenValidators(r *rand.Rand) []Validator {
	var vs []Validator
	for i := 0; i < 6; i++ {
		v := Validator{KeyNo: r.Intn(5), Wallet: Wallets[r.Intn(len(Wallets))], Acct: AcctNames[r.Intn(len(AcctNames))]}
		switch r.Intn(10) {
		case 0:
			v.Wallet = ""
		case 1:
			v.NoWalletProvider = true
		}
		vs = append(vs, v)
	}
	return vs
}

// ---- legacy (v1) ----

type V1Entry struct {
	FR      int
	GL      *uint64
	Builder *struct {
		Enabled bool
		Grace   *int64
		Relays  []string
	}
}

type Doc1 struct {
	Default  V1Entry
	Proposer map[int]*V1Entry
}

func (e *V1Entry) JSON() string {
	f := []string{fmt.Sprintf(`"fee_recipient":"%s"`, FRHex(e.FR))}
	if e.GL != nil {
		f = append(f, fmt.Sprintf(`"gas_limit":"%d"`, *e.GL))
	}
	if e.Builder != nil {
		bf := []string{fmt.Sprintf(`"enabled":%v`, e.Builder.Enabled)}
		if e.Builder.Grace != nil {
			bf = append(bf, fmt.Sprintf(`"grace":"%d"`, *e.Builder.Grace))
		}
		if e.Builder.Relays != nil {
			b, _ := json.Marshal(e.Builder.Relays)
			bf = append(bf, `"relays":`+string(b))
		}
		f = append(f, `"builder":{`+strings.Join(bf, ",")+"}")
	}
	return "{" + strings.Join(f, ",") + "}"
}

func (d *Doc1) JSON() string {
	var ps []string
	keys := make([]int, 0)
	for k := range d.Proposer {
		keys = append(keys, k)
	}
	sort.Ints(keys)
	for _, k := range keys {
		ps = append(ps, fmt.Sprintf(`"%#x":%s`, PubOf(k), d.Proposer[k].JSON()))
	}
	s := `{"default_config":` + d.Default.JSON()
	if d.Proposer != nil {
		s += `,"proposer_config":{` + strings.Join(ps, ",") + "}"
	}
	return s + "}"
}

func GenV1Entry(r *rand.Rand) V1Entry {
	e := V1Entry{FR: 1 + r.Intn(60)}
	if r.Intn(2) == 0 {
		v := uint64(1000000 * (1 + r.Intn(60)))
		e.GL = &v
	}
	if r.Intn(4) != 0 {
		b := &struct {
			Enabled bool
			Grace   *int64
			Relays  []string
		}{Enabled: r.Intn(3) != 0}
		if r.Intn(2) == 0 {
			v := int64(r.Intn(5) * 250)
			b.Grace = &v
		}
		n := r.Intn(4)
		if b.Enabled && n == 0 {
			n = 1
		}
		for i := 0; i < n; i++ {
			b.Relays = append(b.Relays, RelayAddrs[(i+r.Intn(2))%len(RelayAddrs)])
		}
		// de-duplicate
		seen := map[string]bool{}
		var rs []string
		for _, a := range b.Relays {
			if !seen[a] {
				seen[a] = true
				rs = append(rs, a)
			}
		}
		b.Relays = rs
		e.Builder = b
	}
	return e
}

func (d *Doc1) Resolve(pubkey phase0.BLSPubKey, fGL uint64) *Resolved {
	e := &d.Default
	for k, pe := range d.Proposer {
		if PubOf(k) == pubkey {
			e = pe
		}
	}
	res := &Resolved{FR: FRAddr(e.FR), Relays: map[string]*RRelay{}}
	gl := fGL
	if e.GL != nil && *e.GL != 0 {
		gl = *e.GL
	}
	if e.Builder != nil && e.Builder.Enabled {
		for _, a := range e.Builder.Relays {
			r := &RRelay{FR: res.FR, GL: gl}
			if e.Builder.Grace != nil {
				r.Grace = time.Duration(*e.Builder.Grace) * time.Millisecond
			}
			res.Relays[a] = r
		}
	}
	return res
}
