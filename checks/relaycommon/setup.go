// Package relaycommon builds the real blockrelay/standard service (and proposal preparer) over fakes:
// scripted config source (majordomo), job-capturing scheduler, harness accounts with real BLS keys behind the real
// signer, scripted relays injected through the builder-client hook, recording beacon nodes.
package relaycommon

import (
	"context"
	"errors"
	"fmt"
	"github.com/wealdtech/go-majordomo"
	"sync"
	"sync/atomic"
	"time"

	"github.com/attestantio/go-block-relay/services/blockauctioneer"
	eth2client "github.com/attestantio/go-eth2-client"
	consensusapi "github.com/attestantio/go-eth2-client/api"
	apiv1 "github.com/attestantio/go-eth2-client/api/v1"
	"github.com/attestantio/go-eth2-client/spec/bellatrix"
	"github.com/attestantio/go-eth2-client/spec/phase0"
	"github.com/attestantio/vouch/mock"
	"github.com/attestantio/vouch/services/beaconblockproposer"
	"github.com/attestantio/vouch/services/blockrelay"
	relaystd "github.com/attestantio/vouch/services/blockrelay/standard"
	nullmetrics "github.com/attestantio/vouch/services/metrics/null"
	prepstd "github.com/attestantio/vouch/services/proposalpreparer/standard"
	signerstd "github.com/attestantio/vouch/services/signer/standard"
	"github.com/attestantio/vouch/util"
	"github.com/rs/zerolog"
	e2wtypes "github.com/wealdtech/go-eth2-wallet-types/v2"
	"verif/checks/refcfg"
	"verif/harness"
)

const (
	FetchJob    = "Fetch execution configuration"
	RegisterJob = "Submit validator registrations"
)

// Fetch outcomes of the config source.
type Outcome struct {
	Kind string // valid | error | malformed | empty | nil
	Doc  string
}

// Majordomo is the scripted config source: every Fetch returns the current outcome.
type Majordomo struct {
	mu      sync.Mutex
	cur     Outcome
	Fetches atomic.Int64
	Hold    func(ctx context.Context) // when set, every fetch first waits here
}

// SetHold installs (or with nil removes) the hold on fetches.
func (m *Majordomo) SetHold(f func(ctx context.Context)) { m.mu.Lock(); m.Hold = f; m.mu.Unlock() }

func (m *Majordomo) Set(o Outcome) { m.mu.Lock(); m.cur = o; m.mu.Unlock() }

func (m *Majordomo) Fetch(ctx context.Context, _ string) ([]byte, error) {
	m.Fetches.Add(1)
	m.mu.Lock()
	o := m.cur
	hold := m.Hold
	m.mu.Unlock()
	if hold != nil {
		hold(ctx) // a slow or hung source
	}
	switch o.Kind {
	case "not-found":
		return nil, majordomo.ErrNotFound // what the file and HTTP sources report for an absent document or a failing server
	case "valid":
		return []byte(o.Doc), nil
	case "error":
		return nil, errors.New("scripted fetch failure")
	case "malformed":
		return []byte(`{"version":2,"relays":{"x":`), nil
	case "empty":
		return []byte{}, nil
	case "json-null":
		return []byte("null"), nil
	case "json-array":
		return []byte("[]"), nil
	case "json-string":
		return []byte(`"config"`), nil
	case "json-empty-object":
		return []byte("{}"), nil
	case "json-version-only":
		return []byte(`{"version":3}`), nil
	default:
		return nil, nil
	}
}

// Node is a recording beacon node (secondary registration submitter and preparation submitter).
type Node struct {
	mu    sync.Mutex
	Fail  bool
	Kind  string // how it fails: "" an ordinary error, "timeout" an error wrapping context.DeadlineExceeded (the client's own per-call timeout)
	Regs  [][]*consensusapi.VersionedSignedValidatorRegistration
	Preps [][]*apiv1.ProposalPreparation
}

func (n *Node) Name() string    { return "fake node" }
func (n *Node) Address() string { return "node.example.com:5052" }
func (n *Node) IsActive() bool  { return true }
func (n *Node) IsSynced() bool  { return true }

func (n *Node) SubmitValidatorRegistrations(_ context.Context, regs []*consensusapi.VersionedSignedValidatorRegistration) error {
	n.mu.Lock()
	defer n.mu.Unlock()
	for _, r := range regs {
		if r == nil {
			return errors.New("POST failed with status 400: null entry in the request body")
		}
	}
	n.Regs = append(n.Regs, regs)
	if n.Fail {
		return n.failure()
	}
	return nil
}

func (n *Node) SubmitProposalPreparations(_ context.Context, preps []*apiv1.ProposalPreparation) error {
	n.mu.Lock()
	defer n.mu.Unlock()
	for _, p := range preps {
		if p == nil {
			return errors.New("POST failed with status 400: null entry in the request body") // what a node answers to [..., null, ...]
		}
	}
	n.Preps = append(n.Preps, preps)
	if n.Fail {
		return n.failure()
	}
	return nil
}

func (n *Node) failure() error {
	if n.Kind == "timeout" {
		return fmt.Errorf("failed to call POST endpoint: %w", context.DeadlineExceeded)
	}
	return errors.New("scripted node failure")
}

func (n *Node) Snapshot() ([][]*consensusapi.VersionedSignedValidatorRegistration, [][]*apiv1.ProposalPreparation) {
	n.mu.Lock()
	defer n.mu.Unlock()
	return append([][]*consensusapi.VersionedSignedValidatorRegistration{}, n.Regs...), append([][]*apiv1.ProposalPreparation{}, n.Preps...)
}

// Accounts is the accounts / validating accounts provider.
type Accounts struct {
	mu         sync.Mutex
	List       []harness.Acct                         // validator index = harness.AcctIndex
	ActiveFrom map[phase0.ValidatorIndex]phase0.Epoch // validators not yet active: validating from this epoch on
	Err        bool
	Calls      atomic.Int64
}

// SetErr switches the scripted failure.
func (a *Accounts) SetErr(v bool) { a.mu.Lock(); a.Err = v; a.mu.Unlock() }

// SetList replaces the accounts.
func (a *Accounts) SetList(l []harness.Acct) { a.mu.Lock(); a.List = l; a.mu.Unlock() }

func (a *Accounts) ValidatingAccountsForEpoch(_ context.Context, epoch phase0.Epoch) (map[phase0.ValidatorIndex]e2wtypes.Account, error) {
	defer a.Calls.Add(1)
	a.mu.Lock()
	defer a.mu.Unlock()
	if a.Err {
		return nil, errors.New("scripted accounts failure")
	}
	out := map[phase0.ValidatorIndex]e2wtypes.Account{}
	for _, x := range a.List {
		if from, ok := a.ActiveFrom[harness.AcctIndex(x)]; ok && epoch < from {
			continue
		}
		out[harness.AcctIndex(x)] = x
	}
	return out, nil
}

// SetActiveFrom marks a validator as active only from the given epoch on.
func (a *Accounts) SetActiveFrom(i phase0.ValidatorIndex, e phase0.Epoch) {
	a.mu.Lock()
	if a.ActiveFrom == nil {
		a.ActiveFrom = map[phase0.ValidatorIndex]phase0.Epoch{}
	}
	a.ActiveFrom[i] = e
	a.mu.Unlock()
}

func (a *Accounts) ValidatingAccountsForEpochByIndex(ctx context.Context, e phase0.Epoch, idx []phase0.ValidatorIndex) (map[phase0.ValidatorIndex]e2wtypes.Account, error) {
	all, err := a.ValidatingAccountsForEpoch(ctx, e)
	if err != nil {
		return nil, err
	}
	out := map[phase0.ValidatorIndex]e2wtypes.Account{}
	for _, i := range idx {
		if x, ok := all[i]; ok {
			out[i] = x
		}
	}
	return out, nil
}

func (a *Accounts) SyncCommitteeAccountsForEpoch(ctx context.Context, e phase0.Epoch) (map[phase0.ValidatorIndex]e2wtypes.Account, error) {
	return a.ValidatingAccountsForEpoch(ctx, e)
}

func (a *Accounts) SyncCommitteeAccountsForEpochByIndex(ctx context.Context, e phase0.Epoch, idx []phase0.ValidatorIndex) (map[phase0.ValidatorIndex]e2wtypes.Account, error) {
	return a.ValidatingAccountsForEpochByIndex(ctx, e, idx)
}

func (a *Accounts) AccountByPublicKey(_ context.Context, pk phase0.BLSPubKey) (e2wtypes.Account, error) {
	a.mu.Lock()
	defer a.mu.Unlock()
	for _, x := range a.List {
		if x.Pub48() == pk {
			return x, nil
		}
	}
	return nil, errors.New("not found")
}

// Bidder wraps a bid strategy so that auctions can be counted / replaced.
type Bidder struct {
	Inner interface {
		BuilderBid(ctx context.Context, slot phase0.Slot, parentHash phase0.Hash32, pubkey phase0.BLSPubKey, proposerConfig *beaconblockproposer.ProposerConfig,
			builderConfigs map[phase0.BLSPubKey]*blockrelay.BuilderConfig) (*blockauctioneer.Results, error)
	}
	Calls atomic.Int64
}

func (b *Bidder) BuilderBid(ctx context.Context, slot phase0.Slot, parentHash phase0.Hash32, pubkey phase0.BLSPubKey, proposerConfig *beaconblockproposer.ProposerConfig,
	builderConfigs map[phase0.BLSPubKey]*blockrelay.BuilderConfig) (*blockauctioneer.Results, error) {
	b.Calls.Add(1)
	if b.Inner == nil {
		return &blockauctioneer.Results{Participation: map[string]*blockauctioneer.Participation{}}, nil
	}
	return b.Inner.BuilderBid(ctx, slot, parentHash, pubkey, proposerConfig, builderConfigs)
}

// Env is one block relay service with its surroundings.
type Env struct {
	Svc        *relaystd.Service
	Prep       *prepstd.Service
	Config     *Majordomo
	Sched      *harness.CapSched
	Clock      *harness.VClock
	Accounts   *Accounts
	Relays     map[string]*harness.Relay
	Nodes      []*Node
	Bidder     *Bidder
	FallbackFR bellatrix.ExecutionAddress
	FallbackGL uint64
	Tag        string
}

// LogLevel is the log level of the block relay service (raised by checks that inject delays through a log hook).
var LogLevel = zerolog.Disabled

var envNo atomic.Int64

// RelayAddr makes the relay addresses of an env unique (the builder-client cache is process wide).
func (e *Env) RelayAddr(i int) string {
	return fmt.Sprintf("https://relay%d-%s.example.com/", i, e.Tag)
}

// NewEnv builds the services. initial is the config source's first outcome (fetched during construction).
func NewEnv(accts []harness.Acct, nNodes int, initial Outcome, bidder *Bidder) (*Env, error) {
	return NewEnvWith(accts, nNodes, initial, bidder, map[phase0.BLSPubKey]*blockrelay.BuilderConfig{})
}

// NewEnvWith is NewEnv with per-builder configurations.
func NewEnvWith(accts []harness.Acct, nNodes int, initial Outcome, bidder *Bidder, builderConfigs map[phase0.BLSPubKey]*blockrelay.BuilderConfig) (*Env, error) {
	ctx := context.Background()
	e := &Env{Config: &Majordomo{}, Sched: harness.NewCapSched(), Clock: harness.NewVClock(12*time.Second, 32), Accounts: &Accounts{List: accts, Err: true},
		Relays: map[string]*harness.Relay{}, FallbackFR: refcfg.FRAddr(999), FallbackGL: 30000000, Tag: fmt.Sprintf("e%d", envNo.Add(1)), Bidder: bidder}
	if e.Bidder == nil {
		e.Bidder = &Bidder{}
	}
	e.Clock.SetSlot(32 * 100)
	e.Config.Set(initial)
	for i := 0; i < 4; i++ {
		rl := &harness.Relay{Addr: e.RelayAddr(i), KeyNo: i, Start: time.Now()}
		e.Relays[rl.Addr] = rl
		util.VerifSetBuilderClient(rl.Addr, rl)
	}
	var secondaries []eth2client.ValidatorRegistrationsSubmitter
	var preparers []eth2client.ProposalPreparationsSubmitter
	for i := 0; i < nNodes; i++ {
		n := &Node{}
		e.Nodes = append(e.Nodes, n)
		secondaries = append(secondaries, n)
		preparers = append(preparers, n)
	}
	specP := harness.NewSpec(32, nil)
	sg, err := signerstd.New(ctx, signerstd.WithLogLevel(zerolog.Disabled), signerstd.WithMonitor(nullmetrics.New()), signerstd.WithClientMonitor(nullmetrics.New()),
		signerstd.WithSpecProvider(specP), signerstd.WithDomainProvider(harness.RecDomains{}))
	if err != nil {
		return nil, err
	}
	e.Svc, err = relaystd.New(ctx, relaystd.WithLogLevel(LogLevel), relaystd.WithMonitor(nullmetrics.New()), relaystd.WithMajordomo(e.Config), relaystd.WithScheduler(e.Sched),
		relaystd.WithListenAddress("127.0.0.1:0"), relaystd.WithChainTime(e.Clock), relaystd.WithConfigURL("file:///config.json"), relaystd.WithFallbackFeeRecipient(e.FallbackFR),
		relaystd.WithFallbackGasLimit(e.FallbackGL), relaystd.WithAccountsProvider(e.Accounts), relaystd.WithValidatorsProvider(mock.NewValidatorsProvider()),
		relaystd.WithValidatingAccountsProvider(e.Accounts), relaystd.WithValidatorRegistrationSigner(sg), relaystd.WithSecondaryValidatorRegistrationsSubmitters(secondaries),
		relaystd.WithReleaseVersion("verif"), relaystd.WithBuilderBidProvider(e.Bidder), relaystd.WithBuilderConfigs(builderConfigs))
	if err != nil {
		return nil, err
	}
	// The service starts a registration round of its own at construction; it fails at our accounts provider.
	// Wait for it to be over so that it cannot overlap (and thereby suppress) the rounds the driver runs.
	for i := 0; e.Accounts.Calls.Load() < 2 && i < 2000; i++ {
		time.Sleep(time.Millisecond)
	}
	time.Sleep(2 * time.Millisecond)
	e.Accounts.SetErr(false)
	if nNodes > 0 {
		e.Prep, err = prepstd.New(ctx, prepstd.WithLogLevel(zerolog.Disabled), prepstd.WithChainTimeService(e.Clock), prepstd.WithMonitor(nullmetrics.New()),
			prepstd.WithValidatingAccountsProvider(e.Accounts), prepstd.WithProposalPreparationsSubmitters(preparers), prepstd.WithExecutionConfigProvider(e.Svc))
		if err != nil {
			return nil, err
		}
	}
	return e, nil
}

// UseRelayAddrs rewrites the generic relay addresses of a generated document to this env's unique ones.
func (e *Env) UseRelayAddrs(d *refcfg.Doc2) {
	ren := func(m map[string]*refcfg.Relay) map[string]*refcfg.Relay {
		if m == nil {
			return nil
		}
		out := map[string]*refcfg.Relay{}
		for a, r := range m {
			for i, g := range refcfg.RelayAddrs {
				if a == g {
					out[e.RelayAddr(i)] = r
				}
			}
		}
		return out
	}
	d.Relays = ren(d.Relays)
	for _, p := range d.Proposers {
		p.Relays = ren(p.Relays)
	}
}

// Refresh runs the captured config fetch job.
func (e *Env) Refresh() bool { return e.Sched.RunSync(FetchJob) }

// Register runs the captured registration job.
func (e *Env) Register() bool { return e.Sched.RunSync(RegisterJob) }
