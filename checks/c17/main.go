// C17: Vouch's own concurrency never corrupts its state.
// Monitor: the Go race detector over scenario programs that reproduce the production goroutine structure
// (duty jobs, one head-event stream, one block-event stream, periodic refreshers, registration rounds, REST
// requests). One scenario per child process (service construction touches package-level state, so instances
// must not overlap), each repeated several times. Every distinct pair of racing functions is a violation.
package main

import (
	"context"
	"encoding/binary"
	"fmt"
	syncaggstd "github.com/attestantio/vouch/services/synccommitteeaggregator/standard"
	keystorev4 "github.com/wealdtech/go-eth2-wallet-encryptor-keystorev4"
	nd "github.com/wealdtech/go-eth2-wallet-nd/v2"
	filesystem "github.com/wealdtech/go-eth2-wallet-store-filesystem"
	"math/big"
	"os"
	"runtime"
	"sort"
	"sync"
	"sync/atomic"
	"testing"
	"time"

	relaytypes "github.com/attestantio/go-block-relay/types"
	eth2client "github.com/attestantio/go-eth2-client"
	"github.com/attestantio/go-eth2-client/api"
	apiv1 "github.com/attestantio/go-eth2-client/api/v1"
	"github.com/attestantio/go-eth2-client/spec"
	"github.com/attestantio/go-eth2-client/spec/altair"
	"github.com/attestantio/go-eth2-client/spec/capella"
	"github.com/attestantio/go-eth2-client/spec/phase0"
	"github.com/attestantio/vouch/mock"
	"github.com/attestantio/vouch/services/accountmanager"
	"github.com/attestantio/vouch/services/accountmanager/dirk"
	"github.com/attestantio/vouch/services/accountmanager/wallet"
	"github.com/attestantio/vouch/services/beaconblockproposer"
	"github.com/attestantio/vouch/services/blockrelay"
	cachestd "github.com/attestantio/vouch/services/cache/standard"
	nullmetrics "github.com/attestantio/vouch/services/metrics/null"
	signerstd "github.com/attestantio/vouch/services/signer/standard"
	"github.com/attestantio/vouch/services/submitter/multinode"
	"github.com/attestantio/vouch/services/synccommitteeaggregator"
	"github.com/attestantio/vouch/services/synccommitteemessenger"
	msgstd "github.com/attestantio/vouch/services/synccommitteemessenger/standard"
	vmstd "github.com/attestantio/vouch/services/validatorsmanager/standard"
	adbest "github.com/attestantio/vouch/strategies/attestationdata/best"
	bidbest "github.com/attestantio/vouch/strategies/builderbid/best"
	"github.com/attestantio/vouch/testing/resources"
	"github.com/attestantio/vouch/util"
	"github.com/rs/zerolog"
	"github.com/shopspring/decimal"
	e2wtypes "github.com/wealdtech/go-eth2-wallet-types/v2"
	"verif/checks/attcommon"
	"verif/checks/ctlsim"
	"verif/checks/refcfg"
	"verif/checks/relaycommon"
	"verif/harness"
)

var bg = context.Background()

func par(fs ...func()) {
	var wg sync.WaitGroup
	for _, f := range fs {
		wg.Add(1)
		go func(f func()) { defer wg.Done(); f() }(f)
	}
	wg.Wait()
}

// ---- block relay: config refresh || registration round || lookups || auctions || REST ----

func scenarioRelay(c *harness.Ctx, rep int) {
	var accts []harness.Acct
	for i := 0; i < 3; i++ {
		accts = append(accts, harness.NewAcct(harness.KindPlain, "W", fmt.Sprintf("a%d", i), 700+i, phase0.ValidatorIndex(9000+i), nil))
	}
	env, err := relaycommon.NewEnv(accts, 1, relaycommon.Outcome{Kind: "error"}, nil)
	if err != nil {
		c.Inconclusive(err.Error())
		return
	}
	one, two := 7, 9
	v2 := (&refcfg.Doc2{Opts: refcfg.Opts{FR: &one}, Relays: map[string]*refcfg.Relay{env.RelayAddr(0): {}, env.RelayAddr(1): {Opts: refcfg.Opts{FR: &two}}},
		Proposers: []*refcfg.Proposer{{Proposer: "W/a1", KeyNo: -1, Opts: refcfg.Opts{FR: &two}}}}).JSON()
	// legacy document: default entry without gas limit and without builder section, and a proposer entry
	v1 := fmt.Sprintf(`{"default_config":{"fee_recipient":"%s"},"proposer_config":{"%#x":{"fee_recipient":"%s","builder":{"enabled":true,"relays":[%q]}}}}`,
		refcfg.FRHex(3), accts[0].Pub48(), refcfg.FRHex(4), env.RelayAddr(0))
	var stop, loaded atomic.Bool
	reader := func(k int) func() {
		return func() {
			for i := 0; !stop.Load(); i++ {
				a := accts[(i+k)%3]
				was := loaded.Load()
				pc, err := env.Svc.ProposerConfig(bg, a, a.Pub48())
				// once a configuration has been obtained every lookup is answered from one (the old or the new one), whatever
				// a refresh is doing at that moment: never with the fallback settings
				if was && err == nil && pc != nil {
					c.Count("proposer_lookups_judged", 1)
					if pc.FeeRecipient == env.FallbackFR {
						c.Violate("non-sequential-result:proposer-settings-fallback", "a proposer-settings lookup made while configurations were being refreshed was answered with the fallback settings although a configuration had been obtained before and every refresh obtained one", c.CaseID(fmt.Sprintf("block-relay#%d", rep)), nil)
						return
					}
				}
			}
		}
	}
	par(
		func() { // the single periodic config fetch
			for i := 0; i < 80; i++ {
				doc := v2
				if i%2 == 1 {
					doc = v1
				}
				env.Config.Set(relaycommon.Outcome{Kind: "valid", Doc: doc})
				env.Refresh()
				loaded.Store(true)
				time.Sleep(200 * time.Microsecond)
			}
			stop.Store(true)
		},
		reader(0), reader(1), reader(2),
		func() { // the periodic registration round
			for !stop.Load() {
				env.Register()
			}
		},
		func() { // auctions (proposal jobs)
			for i := 0; !stop.Load(); i++ {
				_, _ = env.Svc.AuctionBlock(bg, phase0.Slot(3200+i%4), phase0.Hash32{1}, accts[i%3].Pub48())
			}
		},
		func() { // REST: registrations and bid requests from beacon nodes
			foreign := harness.NewAcct(harness.KindPlain, "X", "f", 790, 0, nil)
			for i := 0; !stop.Load(); i++ {
				_, _ = env.Svc.ValidatorRegistrations(bg, []*relaytypes.SignedValidatorRegistration{{Message: &relaytypes.ValidatorRegistration{Pubkey: foreign.Pub48(), Timestamp: time.Unix(1, 0)}}})
				_, _ = env.Svc.BuilderBid(bg, phase0.Slot(3200+i%4), phase0.Hash32{1}, accts[i%3].Pub48())
			}
		},
		func() { // registrations asked for explicitly through the service's interface (e.g. for newly loaded accounts)
			m := map[phase0.ValidatorIndex]e2wtypes.Account{}
			for _, a := range accts {
				m[harness.AcctIndex(a)] = a
			}
			for !stop.Load() {
				_ = env.Svc.SubmitValidatorRegistrations(bg, m)
			}
		},
		func() { // the proposal preparer's periodic job
			for !stop.Load() {
				_ = env.Prep.UpdatePreparations(bg)
			}
		},
	)
}

// ---- sync committee messenger: message job || head-event handler ----

type rootNode struct{ n atomic.Uint64 }

func (r *rootNode) BeaconBlockRoot(context.Context, *api.BeaconBlockRootOpts) (*api.Response[*phase0.Root], error) {
	var root phase0.Root
	binary.BigEndian.PutUint64(root[:8], r.n.Add(1))
	return &api.Response[*phase0.Root]{Data: &root, Metadata: map[string]any{}}, nil
}

func scenarioMessenger(c *harness.Ctx, rep int) {
	env, err := ctlsim.New(ctlsim.Options{SlotsPerEpoch: 4, EpochsPerPeriod: 8, StartSlot: 40, Validators: []uint64{31, 32}})
	if err != nil {
		c.Inconclusive(err.Error())
		return
	}
	specP := harness.NewSpec(4, map[string]any{"SYNC_COMMITTEE_SIZE": uint64(32), "SYNC_COMMITTEE_SUBNET_COUNT": uint64(4), "TARGET_AGGREGATORS_PER_SYNC_SUBCOMMITTEE": uint64(2)})
	sg, _ := signerstd.New(bg, signerstd.WithLogLevel(zerolog.Disabled), signerstd.WithMonitor(nullmetrics.New()), signerstd.WithClientMonitor(nullmetrics.New()), signerstd.WithSpecProvider(specP), signerstd.WithDomainProvider(harness.RecDomains{}))
	// the real sync committee aggregator behind the messenger: the message job hands it the slot's head root, the
	// aggregation job of the slot takes it out again later in the slot - or, when late, during the next slot's message job
	agg, err := syncaggstd.New(bg, syncaggstd.WithLogLevel(zerolog.Disabled), syncaggstd.WithMonitor(nullmetrics.New()), syncaggstd.WithSpecProvider(specP), syncaggstd.WithBeaconBlockRootProvider(&rootNode{}),
		syncaggstd.WithContributionAndProofSigner(sg), syncaggstd.WithValidatingAccountsProvider(nil2{}), syncaggstd.WithSyncCommitteeContributionProvider(mock.NewSyncCommitteeContributionProvider()),
		syncaggstd.WithSyncCommitteeContributionsSubmitter(mock.NewSyncCommitteeContributionsSubmitter()), syncaggstd.WithChainTime(env.Clock))
	if err != nil {
		c.Inconclusive("sync aggregator: " + err.Error())
		return
	}
	msgr, err := msgstd.New(bg, msgstd.WithLogLevel(zerolog.Disabled), msgstd.WithProcessConcurrency(2), msgstd.WithMonitor(nullmetrics.New()), msgstd.WithChainTimeService(env.Clock),
		msgstd.WithSyncCommitteeAggregator(agg), msgstd.WithSpecProvider(specP), msgstd.WithBeaconBlockRootProvider(&rootNode{}), msgstd.WithSyncCommitteeMessagesSubmitter(mock.NewSyncCommitteeMessagesSubmitter()),
		msgstd.WithValidatingAccountsProvider(nil2{}), msgstd.WithSyncCommitteeRootSigner(sg), msgstd.WithSyncCommitteeSelectionSigner(sg), msgstd.WithSyncCommitteeSubscriptionsSubmitter(mock.NewSyncCommitteeSubscriptionsSubmitter()))
	if err != nil {
		c.Inconclusive("messenger: " + err.Error())
		return
	}
	var slot atomic.Uint64
	slot.Store(40)
	var stop atomic.Bool
	par(
		func() { // the per-slot message job
			for s := uint64(40); s < 300; s++ {
				slot.Store(s)
				d := synccommitteemessenger.NewDuty(phase0.Slot(s), map[phase0.ValidatorIndex][]phase0.CommitteeIndex{31: {1}, 32: {9}})
				d.SetAccount(31, env.Accts[31])
				d.SetAccount(32, env.Accts[32])
				_, _ = msgr.Message(bg, d)
			}
			stop.Store(true)
		},
		func() { // what the head-event handler does with inclusion verification enabled
			for !stop.Load() {
				s := slot.Load()
				_, _ = msgr.GetDataUsedForSlot(phase0.Slot(s - 1))
				msgr.RemoveHistoricDataUsedForSlotVerification(phase0.Slot(s))
			}
		},
		func() { // aggregation jobs: of the slot itself, and late ones of the slot before
			for i := 0; !stop.Load(); i++ {
				s := slot.Load()
				agg.Aggregate(bg, &synccommitteeaggregator.Duty{Slot: phase0.Slot(s - uint64(i%2)), ValidatorIndices: []phase0.ValidatorIndex{31},
					SelectionProofs: map[phase0.ValidatorIndex]map[uint64]phase0.BLSSignature{31: {1: {}}}, Accounts: map[phase0.ValidatorIndex]e2wtypes.Account{31: env.Accts[31]}})
				c.Count("sync_aggregation_jobs", 1)
			}
		},
	)
}

type mockSyncAgg struct{}

func (mockSyncAgg) SetBeaconBlockRoot(phase0.Slot, phase0.Root)              {}
func (mockSyncAgg) Aggregate(context.Context, *synccommitteeaggregator.Duty) {}

type nil2 struct{}

func (nil2) ValidatingAccountsForEpoch(context.Context, phase0.Epoch) (map[phase0.ValidatorIndex]e2wtypes.Account, error) {
	return nil, nil
}
func (nil2) ValidatingAccountsForEpochByIndex(context.Context, phase0.Epoch, []phase0.ValidatorIndex) (map[phase0.ValidatorIndex]e2wtypes.Account, error) {
	return nil, nil
}
func (nil2) SyncCommitteeAccountsForEpoch(context.Context, phase0.Epoch) (map[phase0.ValidatorIndex]e2wtypes.Account, error) {
	return nil, nil
}
func (nil2) SyncCommitteeAccountsForEpochByIndex(context.Context, phase0.Epoch, []phase0.ValidatorIndex) (map[phase0.ValidatorIndex]e2wtypes.Account, error) {
	return nil, nil
}

// ---- controller: head events || block events || epoch ticker || jobs || refreshers || shutdown poll ----

func scenarioController(c *harness.Ctx, rep int) {
	vals := []uint64{11, 12, 13, 14}
	env, err := ctlsim.New(ctlsim.Options{SlotsPerEpoch: 4, EpochsPerPeriod: 8, StartSlot: 9, Validators: vals, MaxProposalDelay: time.Second})
	if err != nil {
		c.Inconclusive(err.Error())
		return
	}
	for e := uint64(0); e < 40; e++ {
		for i, v := range vals {
			env.Duties.Attester[e] = append(env.Duties.Attester[e], &apiv1.AttesterDuty{Slot: phase0.Slot(e*4 + uint64(i)%4), ValidatorIndex: phase0.ValidatorIndex(v), CommitteeIndex: 1, CommitteeLength: 64, CommitteesAtSlot: 2, ValidatorCommitteeIndex: uint64(i)})
		}
		env.Duties.Proposer[e] = []*apiv1.ProposerDuty{{Slot: phase0.Slot(e*4 + 2), ValidatorIndex: 12}}
		env.Duties.Sync[e/8] = []*apiv1.SyncCommitteeDuty{{ValidatorIndex: 11, ValidatorSyncCommitteeIndices: []phase0.CommitteeIndex{3}}}
	}
	if err := env.Start(); err != nil {
		c.Inconclusive("controller.New: " + err.Error())
		return
	}
	var stop atomic.Bool
	par(
		func() { // time passes; every due job runs
			for s := uint64(10); s <= 9+4*10; s++ {
				env.Clock.SetSlot(phase0.Slot(s))
				if s%4 == 0 {
					env.Sched.RunSync("Epoch ticker")
				}
				limit := env.Clock.StartOfSlot(phase0.Slot(s + 1))
				for n := 0; n < 100; n++ {
					var next *harness.CapJob
					for _, j := range env.Sched.Jobs() {
						if !j.Periodic && j.At.Before(limit) {
							next = j
							break
						}
					}
					if next == nil {
						break
					}
					env.Sched.RunSync(next.Name)
					c.Count("controller_jobs_run", 1)
				}
				time.Sleep(3 * time.Millisecond)
			}
			stop.Store(true)
		},
		func() { // the head event stream (one goroutine, as the client library delivers it)
			root := byte(1)
			for i := 0; !stop.Load(); i++ {
				s := uint64(env.Clock.CurrentSlot())
				ev := &apiv1.HeadEvent{Slot: phase0.Slot(s)}
				if i%7 == 0 {
					root++
				}
				ev.Block[0], ev.PreviousDutyDependentRoot[0], ev.CurrentDutyDependentRoot[0] = byte(i), root, root+1
				env.Bus.Emit("head", ev)
				time.Sleep(300 * time.Microsecond)
			}
		},
		func() { // the block event stream
			for i := 0; !stop.Load(); i++ {
				ev := &apiv1.BlockEvent{Slot: env.Clock.CurrentSlot()}
				ev.Block[0] = byte(i)
				env.Bus.Emit("block", ev)
				time.Sleep(200 * time.Microsecond)
			}
		},
		func() { // the shutdown loop's poll and the periodic refreshers
			for i := 0; !stop.Load(); i++ {
				_ = env.Ctl.HasPendingAttestations(bg, env.Clock.CurrentSlot())
				if i%50 == 0 {
					env.Sched.RunSync("Account refresh ticker")
					env.Sched.RunSync("Prepare proposals ticker")
				}
			}
		},
	)
}

// ---- cache ----

type hdrNode struct{}

func (hdrNode) BeaconBlockHeader(_ context.Context, opts *api.BeaconBlockHeaderOpts) (*api.Response[*apiv1.BeaconBlockHeader], error) {
	return &api.Response[*apiv1.BeaconBlockHeader]{Data: &apiv1.BeaconBlockHeader{Header: &phase0.SignedBeaconBlockHeader{Message: &phase0.BeaconBlockHeader{Slot: phase0.Slot(len(opts.Block))}}}, Metadata: map[string]any{}}, nil
}
func (hdrNode) SignedBeaconBlock(context.Context, *api.SignedBeaconBlockOpts) (*api.Response[*spec.VersionedSignedBeaconBlock], error) {
	p := harness.NewProposal(spec.DataVersionCapella, false, 5, 1, 9, [32]byte{})
	return &api.Response[*spec.VersionedSignedBeaconBlock]{Data: &spec.VersionedSignedBeaconBlock{Version: spec.DataVersionCapella, Capella: &capella.SignedBeaconBlock{Message: p.Capella}}, Metadata: map[string]any{}}, nil
}

func scenarioCache(c *harness.Ctx, rep int) {
	clock := harness.NewVClock(12*time.Second, 8)
	sched := harness.NewCapSched()
	ev := harness.NewCapEvents()
	s, err := cachestd.New(bg, cachestd.WithLogLevel(zerolog.Disabled), cachestd.WithMonitor(nullmetrics.New()), cachestd.WithChainTime(clock), cachestd.WithScheduler(sched),
		cachestd.WithEventsProvider(ev), cachestd.WithSignedBeaconBlockProvider(hdrNode{}), cachestd.WithBeaconBlockHeadersProvider(hdrNode{}))
	if err != nil {
		c.Inconclusive(err.Error())
		return
	}
	var stop atomic.Bool
	root := func(i int) (r phase0.Root) { r[0], r[1] = byte(i), byte(i>>8); return }
	par(
		func() {
			for i := 0; i < 3000; i++ {
				ev.Emit("block", &apiv1.BlockEvent{Slot: phase0.Slot(i), Block: root(i % 50)})
			}
			stop.Store(true)
		},
		func() {
			for i := 0; !stop.Load(); i++ {
				ev.Emit("head", &apiv1.HeadEvent{Slot: phase0.Slot(i), Block: root(i % 50)})
			}
		},
		func() {
			for i := 0; !stop.Load(); i++ {
				_, _ = s.BlockRootToSlot(bg, root(i%60))
				_, _ = s.ExecutionChainHead(bg)
			}
		},
		func() {
			for i := 0; !stop.Load(); i++ {
				clock.SetSlot(phase0.Slot(i % 5000))
				sched.RunSync("Clean block root to slot cache")
			}
		},
	)
	// Second part: block events of the current slots while the cleaner runs over a cache holding many old
	// entries.  Every root a block event reported inside the retention window must afterwards be answered
	// from the cache with the event's slot (the fake node would answer 66): what the handler stored may not
	// be undone by a cleaning pass that overlapped it.
	const base = 8 * 400
	clock.SetSlot(base)
	for i := 0; i < 20000; i++ {
		ev.Emit("block", &apiv1.BlockEvent{Slot: phase0.Slot(base - 100 + i%100), Block: root(30000 + i)}) // kept by the cleaner: its passes stay long
	}
	stop.Store(false)
	const fresh = 2000
	par(
		func() {
			for i := 0; i < fresh; i++ {
				ev.Emit("block", &apiv1.BlockEvent{Slot: phase0.Slot(base + i), Block: root(100 + i)})
				if i%8 == 0 {
					time.Sleep(50 * time.Microsecond)
				}
			}
			stop.Store(true)
		},
		func() {
			for !stop.Load() {
				sched.RunSync("Clean block root to slot cache")
			}
		},
	)
	for i := 0; i < fresh; i++ {
		got, err := s.BlockRootToSlot(bg, root(100+i))
		c.Count("cache_fresh_entries_judged", 1)
		if err != nil || got != phase0.Slot(base+i) {
			c.Violate("non-sequential-result:cache-entry-lost-to-cleaning", fmt.Sprintf("a block event stored root #%d at slot %d (current slot %d, inside the 64-epoch retention) while the cleaner ran; afterwards the cache answers slot %d err %v: the stored entry was lost", i, base+i, base, got, err), c.CaseID(fmt.Sprintf("cache#%d", rep)), nil)
			return
		}
	}
}

// ---- account managers and validators manager ----

const farFuture = phase0.Epoch(0xffffffffffffffff)

type beacon struct {
	mu      sync.Mutex
	records map[phase0.BLSPubKey]*apiv1.Validator
}

func (b *beacon) Validators(_ context.Context, opts *api.ValidatorsOpts) (*api.Response[map[phase0.ValidatorIndex]*apiv1.Validator], error) {
	b.mu.Lock()
	defer b.mu.Unlock()
	out := map[phase0.ValidatorIndex]*apiv1.Validator{}
	for _, pk := range opts.PubKeys {
		if v, ok := b.records[pk]; ok {
			out[v.Index] = v
		}
	}
	return &api.Response[map[phase0.ValidatorIndex]*apiv1.Validator]{Data: out, Metadata: map[string]any{}}, nil
}

type manager interface {
	accountmanager.ValidatingAccountsProvider
	accountmanager.AccountsProvider
}

func scenarioAccounts(c *harness.Ctx, rep int) {
	kind := []string{"dirk", "wallet"}[rep%2]
	walletNames := []string{"W", "X", "Y"}
	lists := make([][]e2wtypes.Account, 3)
	var pubs []phase0.BLSPubKey
	dir, _ := os.MkdirTemp("", "verif-c17-")
	defer os.RemoveAll(dir)
	if kind == "dirk" {
		for k := 0; k < 16; k++ {
			// the accounts sit in three wallets, as they do for an operator with several
			a := harness.NewAcct(harness.KindMulti, walletNames[k%3], fmt.Sprintf("c%d", k), 2400+k, 0, nil)
			pubs = append(pubs, a.Pub48())
			lists[k%3] = append(lists[k%3], a)
		}
	} else {
		// real wallets in a real filesystem store, so that the manager's own refresh opens and reads them
		store := filesystem.New(filesystem.WithLocation(dir))
		enc := keystorev4.New(keystorev4.WithCost(&testing.T{}, 4))
		for i, n := range walletNames {
			w, err := nd.CreateWallet(bg, n, store, enc)
			if err != nil {
				c.Inconclusive(err.Error())
				return
			}
			if err := w.(e2wtypes.WalletLocker).Unlock(bg, nil); err != nil {
				c.Inconclusive(err.Error())
				return
			}
			for k := i; k < 16; k += 3 {
				a, err := w.(e2wtypes.WalletAccountCreator).CreateAccount(bg, fmt.Sprintf("c%d", k), []byte("p"))
				if err != nil {
					c.Inconclusive(err.Error())
					return
				}
				for len(pubs) <= k {
					pubs = append(pubs, phase0.BLSPubKey{})
				}
				copy(pubs[k][:], a.PublicKey().Marshal())
			}
		}
	}
	b := &beacon{records: map[phase0.BLSPubKey]*apiv1.Validator{}}
	mk := func(lo, hi int) map[phase0.BLSPubKey]*apiv1.Validator {
		out := map[phase0.BLSPubKey]*apiv1.Validator{}
		for k := lo; k < hi; k++ {
			out[pubs[k]] = &apiv1.Validator{Index: phase0.ValidatorIndex(5000 + k), Validator: &phase0.Validator{PublicKey: pubs[k], EffectiveBalance: 32e9, ExitEpoch: farFuture, WithdrawableEpoch: farFuture}}
		}
		return out
	}
	vm, err := vmstd.New(bg, vmstd.WithLogLevel(zerolog.Disabled), vmstd.WithMonitor(nullmetrics.New()), vmstd.WithClientMonitor(nullmetrics.New()), vmstd.WithValidatorsProvider(b), vmstd.WithFarFutureEpoch(farFuture))
	if err != nil {
		c.Inconclusive(err.Error())
		return
	}
	clock := harness.NewVClock(12*time.Second, 32)
	var mgr manager
	var refresh func()
	rounds := 150
	if kind == "dirk" {
		s, err := dirk.New(bg, dirk.WithLogLevel(zerolog.Disabled), dirk.WithMonitor(nullmetrics.New()), dirk.WithClientMonitor(nullmetrics.New()), dirk.WithProcessConcurrency(2),
			dirk.WithEndpoints([]string{"localhost:1"}), dirk.WithAccountPaths(walletNames), dirk.WithClientCert([]byte(resources.ClientTest01Crt)), dirk.WithClientKey([]byte(resources.ClientTest01Key)),
			dirk.WithCACert([]byte(resources.CACrt)), dirk.WithValidatorsManager(vm), dirk.WithDomainProvider(harness.RecDomains{}), dirk.WithFarFutureEpochProvider(mock.NewFarFutureEpochProvider(farFuture)), dirk.WithCurrentEpochProvider(clock))
		if err != nil {
			c.Inconclusive(err.Error())
			return
		}
		for i, n := range walletNames {
			s.VerifSetWallet(n, harness.NewFWallet(n, lists[i]))
		}
		mgr, refresh = s, func() { s.Refresh(bg) }
	} else {
		s, err := wallet.New(bg, wallet.WithLogLevel(zerolog.Disabled), wallet.WithMonitor(nullmetrics.New()), wallet.WithProcessConcurrency(2), wallet.WithLocations([]string{dir}), wallet.WithAccountPaths(walletNames),
			wallet.WithPassphrases([][]byte{[]byte("p")}), wallet.WithValidatorsManager(vm), wallet.WithSpecProvider(harness.NewSpec(32, nil)), wallet.WithFarFutureEpochProvider(mock.NewFarFutureEpochProvider(farFuture)),
			wallet.WithDomainProvider(harness.RecDomains{}), wallet.WithCurrentEpochProvider(clock))
		if err != nil {
			c.Inconclusive(err.Error())
			return
		}
		mgr, refresh = s, func() { s.Refresh(bg) }
		rounds = 60
	}
	var stop atomic.Bool
	par(
		func() { // the periodic accounts refresher
			for i := 0; i < rounds; i++ {
				b.mu.Lock()
				if i%2 == 0 {
					b.records = mk(0, 12)
				} else {
					b.records = mk(4, 16)
				}
				b.mu.Unlock()
				refresh()
			}
			stop.Store(true)
		},
		func() { // duty jobs; what they are given must be what one of the refreshes published, whole
			for i := 0; !stop.Load(); i++ {
				got, err := mgr.ValidatingAccountsForEpoch(bg, 5)
				_, _ = mgr.ValidatingAccountsForEpochByIndex(bg, 5, []phase0.ValidatorIndex{5001, 5010})
				if err != nil || len(got) == 0 {
					continue // before the first refresh
				}
				var idx []int
				for v := range got {
					idx = append(idx, int(v)-5000)
				}
				sort.Ints(idx)
				lo := idx[0]
				ok := len(idx) == 12 && (lo == 0 || lo == 4)
				for k, x := range idx {
					if x != lo+k {
						ok = false
					}
				}
				c.Count("account_lookups_judged_"+kind, 1)
				if !ok {
					c.Violate("non-sequential-result:"+kind+"-validating-accounts", fmt.Sprintf("ValidatingAccountsForEpoch during refreshes that alternate between validators 0-11 and 4-15 returned %v: the set no refresh ever published", idx), c.CaseID(fmt.Sprintf("account-managers#%d", rep)), nil)
					return
				}
			}
		},
		func() {
			for i := 0; !stop.Load(); i++ {
				_, _ = mgr.SyncCommitteeAccountsForEpoch(bg, 5)
				_, _ = mgr.AccountByPublicKey(bg, pubs[i%16])
			}
		},
	)
}

// ---- strategies and submitters under concurrent callers ----

type adNode struct{}

func (adNode) AttestationData(_ context.Context, opts *api.AttestationDataOpts) (*api.Response[*phase0.AttestationData], error) {
	return &api.Response[*phase0.AttestationData]{Data: &phase0.AttestationData{Slot: opts.Slot, Source: &phase0.Checkpoint{}, Target: &phase0.Checkpoint{Epoch: phase0.Epoch(uint64(opts.Slot) / 32)}}, Metadata: map[string]any{}}, nil
}

type slotCache struct{}

func (slotCache) BlockRootToSlot(context.Context, phase0.Root) (phase0.Slot, error) { return 1, nil }

func scenarioStrategies(c *harness.Ctx, rep int) {
	clock := harness.NewVClock(12*time.Second, 32)
	clock.Genesis = time.Unix(0, 0)
	specP := harness.NewSpec(32, nil)
	bs, err := bidbest.New(bg, bidbest.WithLogLevel(zerolog.Disabled), bidbest.WithMonitor(nullmetrics.New()), bidbest.WithSpecProvider(specP), bidbest.WithDomainProvider(harness.RecDomains{}),
		bidbest.WithChainTime(clock), bidbest.WithTimeout(200*time.Millisecond), bidbest.WithReleaseVersion("verif"))
	if err != nil {
		c.Inconclusive(err.Error())
		return
	}
	pc := &beaconblockproposer.ProposerConfig{}
	for i := 0; i < 3; i++ {
		rl := &harness.Relay{Addr: fmt.Sprintf("http://c17relay%d-%d.example.com/", rep, i), KeyNo: i, Start: time.Now(), Parent: phase0.Hash32{7}, HasPubkey: true}
		rl.Steps = append(rl.Steps, struct {
			At  time.Duration
			Bid *harness.BidSpec
			Err bool
		}{0, &harness.BidSpec{Value: uint64(1000 * (i + 1)), Builder: i, Header: i}, false})
		util.VerifSetBuilderClient(rl.Addr, rl)
		pk := harness.RelayPub(i)
		rc := &beaconblockproposer.RelayConfig{Address: rl.Addr, PublicKey: &pk, MinValue: decimal.Zero}
		if i > 0 {
			rc.PublicKey = nil // the strategy learns (and caches) the key the relay announces
		}
		pc.Relays = append(pc.Relays, rc)
	}
	ad, err := adbest.New(bg, adbest.WithLogLevel(zerolog.Disabled), adbest.WithClientMonitor(nullmetrics.New()), adbest.WithProcessConcurrency(4),
		adbest.WithAttestationDataProviders(map[string]eth2client.AttestationDataProvider{"a": adNode{}, "b": adNode{}}), adbest.WithTimeout(200*time.Millisecond), adbest.WithChainTime(clock), adbest.WithBlockRootToSlotCache(slotCache{}))
	if err != nil {
		c.Inconclusive(err.Error())
		return
	}
	sub, err := multinode.New(bg, multinode.WithLogLevel(zerolog.Disabled), multinode.WithTimeout(200*time.Millisecond), multinode.WithClientMonitor(nullmetrics.New()), multinode.WithProcessConcurrency(4),
		multinode.WithProposalSubmitters(map[string]eth2client.ProposalSubmitter{"x": mock.NewProposalSubmitter()}), multinode.WithAttestationsSubmitters(map[string]eth2client.AttestationsSubmitter{"x": mock.NewAttestationsSubmitter(), "y": mock.NewAttestationsSubmitter()}),
		multinode.WithAggregateAttestationsSubmitters(map[string]eth2client.AggregateAttestationsSubmitter{"x": mock.NewAggregateAttestationsSubmitter()}),
		multinode.WithProposalPreparationsSubmitters(map[string]eth2client.ProposalPreparationsSubmitter{"x": mock.NewProposalPreparationsSubmitter()}),
		multinode.WithBeaconCommitteeSubscriptionsSubmitters(map[string]eth2client.BeaconCommitteeSubscriptionsSubmitter{"x": mock.NewBeaconCommitteeSubscriptionsSubmitter()}),
		multinode.WithSyncCommitteeMessagesSubmitters(map[string]eth2client.SyncCommitteeMessagesSubmitter{"x": mock.NewSyncCommitteeMessagesSubmitter()}),
		multinode.WithSyncCommitteeSubscriptionsSubmitters(map[string]eth2client.SyncCommitteeSubscriptionsSubmitter{"x": mock.NewSyncCommitteeSubscriptionsSubmitter()}),
		multinode.WithSyncCommitteeContributionsSubmitters(map[string]eth2client.SyncCommitteeContributionsSubmitter{"x": mock.NewSyncCommitteeContributionsSubmitter()}))
	if err != nil {
		c.Inconclusive(err.Error())
		return
	}
	cfgs := map[phase0.BLSPubKey]*blockrelay.BuilderConfig{harness.BuilderPub(1): {Factor: big.NewInt(90)}}
	var fs []func()
	for g := 0; g < 4; g++ {
		fs = append(fs, func() {
			for i := 0; i < 30; i++ {
				_, _ = bs.BuilderBid(bg, 0, phase0.Hash32{7}, phase0.BLSPubKey{1}, pc, cfgs)
			}
		}, func() {
			for i := 0; i < 100; i++ {
				_, _ = ad.AttestationData(bg, &api.AttestationDataOpts{Slot: phase0.Slot(64 + i)})
				atts := []*phase0.Attestation{{Data: &phase0.AttestationData{Slot: 5, Source: &phase0.Checkpoint{}, Target: &phase0.Checkpoint{}}}, {Data: &phase0.AttestationData{Slot: 5, Source: &phase0.Checkpoint{}, Target: &phase0.Checkpoint{}}}}
				_ = sub.SubmitAttestations(bg, atts)
				_ = sub.SubmitSyncCommitteeMessages(bg, []*altair.SyncCommitteeMessage{{Slot: 5}})
			}
		})
	}
	par(fs...)
}

// ---- attester: attestation jobs of one epoch released together ----

func scenarioAttester(c *harness.Ctx, rep int) {
	findings, requests := attcommon.Storm(c.Rand("attester-overlap", rep), 400)
	c.Count("attester_sign_requests", int64(requests))
	for _, f := range findings {
		c.Violate("non-sequential-result:attester:"+f.Key, "overlapping attestation jobs of one epoch: "+f.What+" (no sequential order of the jobs does that)", c.CaseID(fmt.Sprintf("attester-overlap#%d", rep)), nil)
	}
}

type scenario struct {
	name string
	f    func(c *harness.Ctx, rep int)
}

var scenarios = []scenario{
	{"block-relay", scenarioRelay},
	{"sync-messenger", scenarioMessenger},
	{"controller", scenarioController},
	{"cache", scenarioCache},
	{"account-managers", scenarioAccounts},
	{"strategies-submitters", scenarioStrategies},
	{"attester-overlap", scenarioAttester},
}

func run(c *harness.Ctx) {
	harness.InitBLS()
	for i := 0; i < 8; i++ {
		harness.Keys.Key(700 + i)
		harness.RelayPub(i)
		harness.BuilderPub(i)
	}
	sc := scenarios[c.Batch%len(scenarios)]
	reps := 3
	if !c.Quick() {
		reps = 20
		runtime.GOMAXPROCS([]int{16, 4, 2}[(c.Batch/len(scenarios))%3])
	}
	for rep := 0; rep < reps; rep++ {
		id := fmt.Sprintf("%s#%d", sc.name, rep)
		c.Case(id, func() {
			before := runtime.NumGoroutine()
			sc.f(c, rep)
			c.Count("scenario_runs_"+sc.name, 1)
			c.Distinct(fmt.Sprintf("%s|%d", sc.name, rep))
			_ = before
		})
	}
}

func main() {
	harness.Main(&harness.Spec{
		Property: "C17",
		Level:    "exploration",
		Rule:     "seven scenario programs under the Go race detector, one per child process, each repeated (quick 3x, thorough 20x at GOMAXPROCS 16/4/2): block relay (one config fetcher alternating legacy and v2 documents || three lookup goroutines || registration rounds || auctions || REST registrations and bid requests || proposal preparer), sync committee messenger (message job || head-event handler's reads and pruning), controller in virtual time (all due jobs and epoch ticker || one head-event stream with changing dependent roots || one block-event stream || shutdown poll and periodic refreshers), cache (block events || head events || lookups || cleaning), dirk / wallet account managers with the validators manager (refresh with changing validator sets || lookups), strategies and submitters under four concurrent callers, attestation jobs of one epoch released together. The account-manager lookups must return a validator set one of the refreshes published and the overlapping attestation jobs must sign once per validator (results of some sequential order). distinct = (scenario, repetition); every distinct racing function pair is a violation",
		Batches: func(tier string) int {
			if tier == "thorough" {
				return 21
			}
			return 7
		},
		Parallel:     7,
		Run:          run,
		MinDistinct:  12,
		ChildTimeout: func(string) time.Duration { return 30 * time.Minute },
		Assumptions:  []string{"only overlaps production can create are driven: one head-event goroutine, one block-event goroutine, one config fetcher, one epoch ticker", "a silent race detector means no race on the interleavings that occurred", "attester and scheduler concurrency run under -race in C01 and C02, the signer in C06"},
	})
}
