// C04: see checks/attcommon (shared driver; this binary reports the C04 oracle's findings).
package main

import (
	"fmt"

	"verif/checks/attcommon"
	"verif/harness"
)

func run(c *harness.Ctx) {
	n := c.N(3000, 100000)
	for i := 0; i < n; i++ {
		id := fmt.Sprintf("hist%d", i)
		c.Case(id, func() {
			r := c.Rand("hist", i)
			h := attcommon.Generate(r)
			tr, err := attcommon.Execute(h, r)
			if err != nil {
				c.Inconclusive("setup failed: " + err.Error())
				return
			}
			for _, f := range attcommon.Judge(h, tr) {
				if f.Prop != "C04" {
					continue
				}
				c.Violate(f.Key, f.What, id, map[string]any{"history": h, "trace": tr})
			}
			c.Count("sign_requests", int64(len(tr.Signs)))
			c.Count("submissions", int64(len(tr.Submits)))
			for _, sub := range tr.Submits {
				c.Count("attestations_verified", int64(len(sub)))
			}
			if fp := attcommon.Fingerprint(h, tr); fp != "" {
				c.Distinct(fp)
			}
			if i < 2 {
				c.Sample(map[string]any{"history": h, "trace": tr})
			}
		})
	}
}

func main() {
	harness.Main(&harness.Spec{
		Property:    "C04",
		Level:       "exploration",
		Rule:        "the same histories as C01; every submitted attestation is attributed to a validator by BLS-verifying its signature over the reference signing root of its own contents against each account, then compared with that validator's duty entry (committee, position bit, committee size) and with the attestation data reply identified by its unique block root; validators already attested, without account or without signature must yield nothing. distinct = as C01; non-trivial = some validator skipped or repeated",
		Batches:     func(string) int { return 8 },
		Parallel:    8,
		Run:         run,
		MinDistinct: 100,
		Assumptions: []string{"a duty for epoch e is never started after an attestation for epoch e+2 has completed (slot-timed jobs; the service deliberately forgets e-2)", "BLS verification (herumi) and the reference SSZ merkleisation are trusted", "when a beacon node lists one validator twice in a duty either of its entries is accepted"},
	})
}
