// Package ctlsim runs the real controller (services/controller/standard) in virtual time: the clock is a slot the
// driver sets, the scheduler captures jobs and the driver runs those that are due, the beacon node is a scripted
// duty source, and every collaborator is a recording fake unless a real service is plugged in.
package ctlsim

import (
	"context"
	"errors"
	"fmt"
	"sort"
	"strings"
	"sync"
	"sync/atomic"
	"time"

	"github.com/attestantio/go-eth2-client/api"
	apiv1 "github.com/attestantio/go-eth2-client/api/v1"
	"github.com/attestantio/go-eth2-client/spec"
	"github.com/attestantio/go-eth2-client/spec/altair"
	"github.com/attestantio/go-eth2-client/spec/phase0"
	"github.com/attestantio/vouch/services/attestationaggregator"
	"github.com/attestantio/vouch/services/attester"
	"github.com/attestantio/vouch/services/beaconblockproposer"
	"github.com/attestantio/vouch/services/beaconcommitteesubscriber"
	controller "github.com/attestantio/vouch/services/controller/standard"
	nullmetrics "github.com/attestantio/vouch/services/metrics/null"
	"github.com/attestantio/vouch/services/synccommitteeaggregator"
	"github.com/attestantio/vouch/services/synccommitteemessenger"
	"github.com/rs/zerolog"
	e2wtypes "github.com/wealdtech/go-eth2-wallet-types/v2"
	"verif/harness"
)

// Event is one recorded invocation of a duty service.
type Event struct {
	Kind       string // attest | prepare | propose | sync-prepare | sync-message | aggregate | sync-aggregate | subscribe | sync-subscribe
	Slot       uint64
	Epoch      uint64
	Validators []uint64
	Tuples     []string // attest: (validator,committee,position)
	Clock      uint64   // clock slot at the time
}

// Options configure an environment.
type Options struct {
	SlotsPerEpoch    uint64
	EpochsPerPeriod  uint64 // 0: no sync committees
	AltairForkEpoch  uint64
	StartSlot        uint64
	Validators       []uint64
	MaxProposalDelay time.Duration
	WaitedForGenesis bool
	// Real services (nil: recording fakes).
	Attester            attester.Service
	Messenger           synccommitteemessenger.Service
	SyncAggregator      synccommitteeaggregator.Service
	Subscriber          func(e *Env) beaconcommitteesubscriber.Service
	Aggregator          attestationaggregator.Service
	Accounts            map[uint64]harness.Acct // default: plain accounts
	VerifySyncInclusion bool
}

// Duties is the scripted beacon node's view.
type Duties struct {
	mu                                      sync.Mutex
	Attester                                map[uint64][]*apiv1.AttesterDuty      // by requested epoch
	Proposer                                map[uint64][]*apiv1.ProposerDuty      // by requested epoch
	Sync                                    map[uint64][]*apiv1.SyncCommitteeDuty // by period
	FailAttester, FailProposer, FailSync    bool
	AttesterCalls, ProposerCalls, SyncCalls []uint64        // requested epochs
	AttesterOK, ProposerOK, SyncOK          []uint64        // epochs of the requests that were answered
	AttLast, PropLast, SyncLast             map[uint64]bool // epoch -> whether the latest request for it was answered
	Altair                                  uint64
	Period                                  uint64
	OnAttesterFetch                         func(epoch uint64) // the same for an attester duties request
	OnProposerFetch                         func(epoch uint64) // called (outside the lock) while a proposer duties request is under way
	inflight                                atomic.Int64
}

// Env is a running controller with its surroundings.
type Env struct {
	Opts          Options
	Clock         *harness.VClock
	Sched         *harness.CapSched
	Bus           *harness.CapEvents
	Duties        *Duties
	Ctl           *controller.Service
	Accts         map[uint64]harness.Acct
	mu            sync.Mutex
	Events        []Event
	AttestReturn  func(d *attester.Duty) []*phase0.Attestation // what the fake attester returns
	AttestGate    chan struct{}                                // when set, the fake attester blocks on it after recording the call
	SyncMissing   map[uint64]bool                              // validators for which the account manager has no account (sync committee lookups by index)
	NotValidating map[uint64]bool                              // validators that have exited: no longer in the validating accounts, still in the sync committee accounts
	inflight      atomic.Int64
	activity      atomic.Int64
	// SyncSubscribeFail makes the (fake) sync committee subscriber refuse.
	SyncSubscribeFail atomic.Bool
}

const (
	AttDelay     = 4 * time.Second
	AggDelay     = 8 * time.Second
	SyncMsgDelay = 4 * time.Second
	SyncAggDelay = 8 * time.Second
	SlotDuration = 12 * time.Second
)

func (e *Env) rec(ev Event) {
	ev.Clock = uint64(e.Clock.CurrentSlot())
	e.mu.Lock()
	e.Events = append(e.Events, ev)
	e.mu.Unlock()
	e.activity.Add(1)
}

// FetchedOK returns the epochs for which attester / proposer duties were answered.
func (d *Duties) FetchedOK() (att []uint64, prop []uint64, sync []uint64) {
	d.mu.Lock()
	defer d.mu.Unlock()
	return append([]uint64{}, d.AttesterOK...), append([]uint64{}, d.ProposerOK...), append([]uint64{}, d.SyncOK...)
}

// LastFetch returns, per epoch, whether the latest attester / proposer duty request was answered.
func (d *Duties) LastFetch() (map[uint64]bool, map[uint64]bool) {
	d.mu.Lock()
	defer d.mu.Unlock()
	a, p := map[uint64]bool{}, map[uint64]bool{}
	for k, v := range d.AttLast {
		a[k] = v
	}
	for k, v := range d.PropLast {
		p[k] = v
	}
	return a, p
}

// Busy marks (delta +1) and unmarks (delta -1) work in progress in a plugged-in service, so that Settle waits for it.
func (e *Env) Busy(delta int64) {
	e.inflight.Add(delta)
	e.activity.Add(1)
}

// Recorded returns a copy of the events.
func (e *Env) Recorded() []Event {
	e.mu.Lock()
	defer e.mu.Unlock()
	return append([]Event{}, e.Events...)
}

// ---- duty provider ----

func (d *Duties) AttesterDuties(_ context.Context, opts *api.AttesterDutiesOpts) (*api.Response[[]*apiv1.AttesterDuty], error) {
	d.inflight.Add(1)
	defer d.inflight.Add(-1)
	d.mu.Lock()
	ahook := d.OnAttesterFetch
	d.mu.Unlock()
	if ahook != nil {
		ahook(uint64(opts.Epoch)) // e.g. time passing while the request is under way
	}
	d.mu.Lock()
	defer d.mu.Unlock()
	d.AttesterCalls = append(d.AttesterCalls, uint64(opts.Epoch))
	if d.AttLast == nil {
		d.AttLast = map[uint64]bool{}
	}
	d.AttLast[uint64(opts.Epoch)] = !d.FailAttester
	if d.FailAttester {
		return nil, errors.New("scripted duties failure")
	}
	want := map[phase0.ValidatorIndex]bool{}
	for _, i := range opts.Indices {
		want[i] = true
	}
	d.AttesterOK = append(d.AttesterOK, uint64(opts.Epoch))
	var out []*apiv1.AttesterDuty
	for _, x := range d.Attester[uint64(opts.Epoch)] {
		if want[x.ValidatorIndex] {
			cp := *x
			out = append(out, &cp)
		}
	}
	return &api.Response[[]*apiv1.AttesterDuty]{Data: out, Metadata: map[string]any{}}, nil
}

func (d *Duties) ProposerDuties(_ context.Context, opts *api.ProposerDutiesOpts) (*api.Response[[]*apiv1.ProposerDuty], error) {
	d.inflight.Add(1)
	defer d.inflight.Add(-1)
	d.mu.Lock()
	hook := d.OnProposerFetch
	d.mu.Unlock()
	if hook != nil {
		hook(uint64(opts.Epoch)) // e.g. time passing while the request is under way
	}
	d.mu.Lock()
	defer d.mu.Unlock()
	d.ProposerCalls = append(d.ProposerCalls, uint64(opts.Epoch))
	if d.PropLast == nil {
		d.PropLast = map[uint64]bool{}
	}
	d.PropLast[uint64(opts.Epoch)] = !d.FailProposer
	if d.FailProposer {
		return nil, errors.New("scripted duties failure")
	}
	want := map[phase0.ValidatorIndex]bool{}
	for _, i := range opts.Indices {
		want[i] = true
	}
	d.ProposerOK = append(d.ProposerOK, uint64(opts.Epoch))
	var out []*apiv1.ProposerDuty
	for _, x := range d.Proposer[uint64(opts.Epoch)] {
		if want[x.ValidatorIndex] {
			cp := *x
			out = append(out, &cp)
		}
	}
	return &api.Response[[]*apiv1.ProposerDuty]{Data: out, Metadata: map[string]any{}}, nil
}

func (d *Duties) SyncCommitteeDuties(_ context.Context, opts *api.SyncCommitteeDutiesOpts) (*api.Response[[]*apiv1.SyncCommitteeDuty], error) {
	d.inflight.Add(1)
	defer d.inflight.Add(-1)
	d.mu.Lock()
	defer d.mu.Unlock()
	d.SyncCalls = append(d.SyncCalls, uint64(opts.Epoch))
	if d.FailSync {
		return nil, errors.New("scripted duties failure")
	}
	if uint64(opts.Epoch) < d.Altair {
		return nil, errors.New("400: epoch is before the altair fork") // as a real node answers
	}
	want := map[phase0.ValidatorIndex]bool{}
	for _, i := range opts.Indices {
		want[i] = true
	}
	d.SyncOK = append(d.SyncOK, uint64(opts.Epoch))
	var out []*apiv1.SyncCommitteeDuty
	for _, x := range d.Sync[uint64(opts.Epoch)/d.Period] {
		if want[x.ValidatorIndex] {
			cp := *x
			out = append(out, &cp)
		}
	}
	return &api.Response[[]*apiv1.SyncCommitteeDuty]{Data: out, Metadata: map[string]any{}}, nil
}

// ---- accounts ----

type acctProv struct{ e *Env }

func (a acctProv) all(idx []phase0.ValidatorIndex) map[phase0.ValidatorIndex]e2wtypes.Account {
	out := map[phase0.ValidatorIndex]e2wtypes.Account{}
	if idx == nil {
		for v, x := range a.e.Accts {
			out[phase0.ValidatorIndex(v)] = x
		}
		return out
	}
	for _, i := range idx {
		if x, ok := a.e.Accts[uint64(i)]; ok {
			out[i] = x
		}
	}
	return out
}

// validating removes the validators that no longer validate (exited) but are still eligible for sync committee duty.
func (a acctProv) validating(m map[phase0.ValidatorIndex]e2wtypes.Account) map[phase0.ValidatorIndex]e2wtypes.Account {
	a.e.mu.Lock()
	defer a.e.mu.Unlock()
	for v := range a.e.NotValidating {
		delete(m, phase0.ValidatorIndex(v))
	}
	return m
}
func (a acctProv) ValidatingAccountsForEpoch(context.Context, phase0.Epoch) (map[phase0.ValidatorIndex]e2wtypes.Account, error) {
	return a.validating(a.all(nil)), nil
}
func (a acctProv) ValidatingAccountsForEpochByIndex(_ context.Context, _ phase0.Epoch, idx []phase0.ValidatorIndex) (map[phase0.ValidatorIndex]e2wtypes.Account, error) {
	if idx == nil {
		idx = []phase0.ValidatorIndex{}
	}
	return a.validating(a.all(idx)), nil
}
func (a acctProv) SyncCommitteeAccountsForEpoch(context.Context, phase0.Epoch) (map[phase0.ValidatorIndex]e2wtypes.Account, error) {
	return a.all(nil), nil
}
func (a acctProv) SyncCommitteeAccountsForEpochByIndex(_ context.Context, _ phase0.Epoch, idx []phase0.ValidatorIndex) (map[phase0.ValidatorIndex]e2wtypes.Account, error) {
	if idx == nil {
		idx = []phase0.ValidatorIndex{}
	}
	out := a.all(idx)
	for v := range a.e.SyncMissing {
		delete(out, phase0.ValidatorIndex(v))
	}
	return out, nil
}

// ---- recording duty services ----

type fakeAttester struct{ e *Env }

func (f fakeAttester) Attest(_ context.Context, d *attester.Duty) ([]*phase0.Attestation, error) {
	f.e.inflight.Add(1)
	defer f.e.inflight.Add(-1)
	var vs []uint64
	for _, v := range d.ValidatorIndices() {
		vs = append(vs, uint64(v))
	}
	tp := d.Tuples()
	sort.Strings(tp)
	f.e.rec(Event{Kind: "attest", Slot: uint64(d.Slot()), Validators: vs, Tuples: tp})
	f.e.mu.Lock()
	gate := f.e.AttestGate
	f.e.mu.Unlock()
	if gate != nil {
		<-gate
	}
	if f.e.AttestReturn != nil {
		return f.e.AttestReturn(d), nil
	}
	// one attestation per validator, as the real attester returns
	var out []*phase0.Attestation
	for i := range d.ValidatorIndices() {
		out = append(out, &phase0.Attestation{Data: &phase0.AttestationData{Slot: d.Slot(), Index: d.CommitteeIndices()[i], Source: &phase0.Checkpoint{}, Target: &phase0.Checkpoint{}}})
	}
	return out, nil
}

type fakeProposer struct{ e *Env }

func (f fakeProposer) Prepare(_ context.Context, d *beaconblockproposer.Duty) error {
	f.e.rec(Event{Kind: "prepare", Slot: uint64(d.Slot()), Validators: []uint64{uint64(d.ValidatorIndex())}})
	return nil
}
func (f fakeProposer) Propose(_ context.Context, d *beaconblockproposer.Duty) {
	f.e.rec(Event{Kind: "propose", Slot: uint64(d.Slot()), Validators: []uint64{uint64(d.ValidatorIndex())}})
}

type fakeMessenger struct{ e *Env }

func vals(m map[phase0.ValidatorIndex][]phase0.CommitteeIndex) []uint64 {
	var out []uint64
	for v := range m {
		out = append(out, uint64(v))
	}
	sort.Slice(out, func(i, j int) bool { return out[i] < out[j] })
	return out
}
func (f fakeMessenger) Prepare(_ context.Context, d *synccommitteemessenger.Duty) error {
	f.e.rec(Event{Kind: "sync-prepare", Slot: uint64(d.Slot()), Validators: vals(d.ContributionIndices())})
	return nil
}
func (f fakeMessenger) Message(_ context.Context, d *synccommitteemessenger.Duty) ([]*altair.SyncCommitteeMessage, error) {
	f.e.rec(Event{Kind: "sync-message", Slot: uint64(d.Slot()), Validators: vals(d.ContributionIndices())})
	return nil, nil
}
func (f fakeMessenger) GetDataUsedForSlot(phase0.Slot) (synccommitteemessenger.SlotData, bool) {
	return synccommitteemessenger.SlotData{}, false
}
func (f fakeMessenger) RemoveHistoricDataUsedForSlotVerification(phase0.Slot) {}

type fakeSyncAgg struct{ e *Env }

func (f fakeSyncAgg) SetBeaconBlockRoot(phase0.Slot, phase0.Root) {}
func (f fakeSyncAgg) Aggregate(_ context.Context, d *synccommitteeaggregator.Duty) {
	f.e.rec(Event{Kind: "sync-aggregate", Slot: uint64(d.Slot)})
}

type fakeAgg struct{ e *Env }

func (f fakeAgg) Aggregate(_ context.Context, d *attestationaggregator.Duty) {
	f.e.rec(Event{Kind: "aggregate", Slot: uint64(d.Slot), Validators: []uint64{uint64(d.ValidatorIndex)}})
}
func (f fakeAgg) AggregatorsAndSignatures(_ context.Context, accounts []e2wtypes.Account, _ phase0.Slot, _ []uint64) ([]phase0.BLSSignature, []bool, error) {
	return make([]phase0.BLSSignature, len(accounts)), make([]bool, len(accounts)), nil
}

type fakeSubscriber struct{ e *Env }

func (f fakeSubscriber) Subscribe(_ context.Context, epoch phase0.Epoch, _ map[phase0.ValidatorIndex]e2wtypes.Account) (map[phase0.Slot]map[phase0.CommitteeIndex]*beaconcommitteesubscriber.Subscription, error) {
	f.e.rec(Event{Kind: "subscribe", Epoch: uint64(epoch)})
	return map[phase0.Slot]map[phase0.CommitteeIndex]*beaconcommitteesubscriber.Subscription{}, nil
}

type fakeSyncSubscriber struct{ e *Env }

func (f fakeSyncSubscriber) Subscribe(_ context.Context, end phase0.Epoch, _ []*apiv1.SyncCommitteeDuty) error {
	f.e.rec(Event{Kind: "sync-subscribe", Epoch: uint64(end)})
	if f.e.SyncSubscribeFail.Load() {
		return errors.New("scripted sync committee subscription failure")
	}
	return nil
}

type misc struct{ e *Env }

func (misc) UpdatePreparations(context.Context) error    { return nil }
func (misc) Refresh(context.Context)                     {}
func (misc) SetBlockRootToSlot(phase0.Root, phase0.Slot) {}
func (m misc) BeaconBlockHeader(context.Context, *api.BeaconBlockHeaderOpts) (*api.Response[*apiv1.BeaconBlockHeader], error) {
	s := m.e.Clock.CurrentSlot()
	if s > 0 {
		s--
	}
	return &api.Response[*apiv1.BeaconBlockHeader]{Data: &apiv1.BeaconBlockHeader{Header: &phase0.SignedBeaconBlockHeader{Message: &phase0.BeaconBlockHeader{Slot: s}}}, Metadata: map[string]any{}}, nil
}
func (misc) SignedBeaconBlock(context.Context, *api.SignedBeaconBlockOpts) (*api.Response[*spec.VersionedSignedBeaconBlock], error) {
	return nil, errors.New("no block")
}

// New starts a controller at Opts.StartSlot.
func New(o Options) (*Env, error) {
	if o.SlotsPerEpoch == 0 {
		o.SlotsPerEpoch = 8
	}
	e := &Env{Opts: o, Clock: harness.NewVClock(SlotDuration, o.SlotsPerEpoch), Sched: harness.NewCapSched(), Bus: harness.NewCapEvents(), Accts: map[uint64]harness.Acct{},
		Duties: &Duties{Attester: map[uint64][]*apiv1.AttesterDuty{}, Proposer: map[uint64][]*apiv1.ProposerDuty{}, Sync: map[uint64][]*apiv1.SyncCommitteeDuty{}, Altair: o.AltairForkEpoch, Period: o.EpochsPerPeriod}}
	if e.Duties.Period == 0 {
		e.Duties.Period = 1
	}
	e.Clock.SetSlot(phase0.Slot(o.StartSlot))
	for i, v := range o.Validators {
		if a, ok := o.Accounts[v]; ok {
			e.Accts[v] = a
		} else {
			e.Accts[v] = harness.NewAcct(harness.KindPlain, "W", fmt.Sprintf("v%d", v), 900+i, phase0.ValidatorIndex(v), nil)
		}
	}
	return e, nil
}

// Start constructs the controller (duties must have been scripted before, as it schedules at once).
func (e *Env) Start() error {
	o := e.Opts
	extra := map[string]any{"SECONDS_PER_SLOT": SlotDuration, "ALTAIR_FORK_EPOCH": o.AltairForkEpoch, "BELLATRIX_FORK_EPOCH": uint64(0), "CAPELLA_FORK_EPOCH": uint64(0)}
	if o.EpochsPerPeriod > 0 {
		extra["EPOCHS_PER_SYNC_COMMITTEE_PERIOD"] = o.EpochsPerPeriod
	} else {
		extra["EPOCHS_PER_SYNC_COMMITTEE_PERIOD"] = uint64(0)
	}
	specP := harness.NewSpec(o.SlotsPerEpoch, extra)
	var att attester.Service = fakeAttester{e}
	if o.Attester != nil {
		att = o.Attester
	}
	var msg synccommitteemessenger.Service = fakeMessenger{e}
	if o.Messenger != nil {
		msg = o.Messenger
	}
	var sagg synccommitteeaggregator.Service = fakeSyncAgg{e}
	if o.SyncAggregator != nil {
		sagg = o.SyncAggregator
	}
	var sub beaconcommitteesubscriber.Service = fakeSubscriber{e}
	if o.Subscriber != nil {
		sub = o.Subscriber(e)
	}
	var agg attestationaggregator.Service = fakeAgg{e}
	if o.Aggregator != nil {
		agg = o.Aggregator
	}
	m := misc{e}
	params := []controller.Parameter{controller.WithLogLevel(zerolog.Disabled), controller.WithMonitor(nullmetrics.New()), controller.WithSpecProvider(specP), controller.WithChainTimeService(e.Clock),
		controller.WithWaitedForGenesis(o.WaitedForGenesis), controller.WithProposerDutiesProvider(e.Duties), controller.WithAttesterDutiesProvider(e.Duties),
		controller.WithEventsProvider(e.Bus), controller.WithValidatingAccountsProvider(acctProv{e}), controller.WithProposalsPreparer(m), controller.WithScheduler(e.Sched),
		controller.WithAttester(att), controller.WithBeaconBlockHeadersProvider(m), controller.WithSignedBeaconBlockProvider(m), controller.WithBeaconBlockProposer(fakeProposer{e}),
		controller.WithAttestationAggregator(agg), controller.WithBeaconCommitteeSubscriber(sub), controller.WithAccountsRefresher(m), controller.WithBlockToSlotSetter(m),
		controller.WithMaxProposalDelay(o.MaxProposalDelay), controller.WithMaxAttestationDelay(AttDelay), controller.WithAttestationAggregationDelay(AggDelay),
		controller.WithMaxSyncCommitteeMessageDelay(SyncMsgDelay), controller.WithSyncCommitteeAggregationDelay(SyncAggDelay), controller.WithVerifySyncCommitteeInclusion(o.VerifySyncInclusion),
		controller.WithFastTrackAttestations(false), controller.WithFastTrackSyncCommittees(false), controller.WithFastTrackGrace(0)}
	if o.EpochsPerPeriod > 0 {
		params = append(params, controller.WithSyncCommitteeDutiesProvider(e.Duties), controller.WithSyncCommitteeSubscriber(fakeSyncSubscriber{e}),
			controller.WithSyncCommitteeMessenger(msg), controller.WithSyncCommitteeAggregator(sagg))
	}
	var err error
	e.Ctl, err = controller.New(context.Background(), params...)
	if err != nil {
		return err
	}
	e.Settle()
	return nil
}

// fingerprint of everything observable, to detect quiescence.
func (e *Env) fingerprint() string {
	e.mu.Lock()
	n := len(e.Events)
	e.mu.Unlock()
	e.Duties.mu.Lock()
	dc := len(e.Duties.AttesterCalls) + len(e.Duties.ProposerCalls) + len(e.Duties.SyncCalls)
	e.Duties.mu.Unlock()
	return fmt.Sprintf("%d|%d|%d|%s|%d|%d", n, dc, e.activity.Load(), strings.Join(e.Sched.ListJobs(context.Background()), ";"), len(e.Sched.Running()), e.Duties.inflight.Load()+e.inflight.Load())
}

// Settle waits until nothing observable has changed for a while.
func (e *Env) Settle() {
	last := ""
	stable := 0
	for i := 0; i < 20000 && stable < 12; i++ {
		fp := e.fingerprint()
		if fp == last && e.Duties.inflight.Load() == 0 && e.inflight.Load() == 0 && len(e.Sched.Running()) == 0 {
			stable++
		} else {
			stable = 0
			last = fp
		}
		time.Sleep(250 * time.Microsecond)
	}
}

// SetAttestGate installs (or with nil removes) the gate of the fake attester.
func (e *Env) SetAttestGate(g chan struct{}) { e.mu.Lock(); e.AttestGate = g; e.mu.Unlock() }

// SettleBusy waits until nothing observable has changed for a while, tolerating calls that are blocked in flight.
func (e *Env) SettleBusy() {
	last := ""
	stable := 0
	for i := 0; i < 8000 && stable < 12; i++ {
		fp := e.fingerprint()
		if fp == last {
			stable++
		} else {
			stable = 0
			last = fp
		}
		time.Sleep(250 * time.Microsecond)
	}
}

// Eventually polls cond (settling in between) for up to 8 s.
func (e *Env) Eventually(cond func() bool) bool {
	deadline := time.Now().Add(8 * time.Second)
	for {
		e.Settle()
		if cond() {
			return true
		}
		if time.Now().After(deadline) {
			return false
		}
		time.Sleep(20 * time.Millisecond)
	}
}

// Now is the virtual instant "start of the clock's slot".
func (e *Env) Now() time.Time { return e.Clock.StartOfSlot(e.Clock.CurrentSlot()) }

// RunDueJobs runs (synchronously, in time order) every captured one-off job scheduled before limit.
func (e *Env) RunDueJobs(limit time.Time) int {
	n := 0
	for {
		var next *harness.CapJob
		for _, j := range e.Sched.Jobs() {
			if j.Periodic {
				continue
			}
			if j.At.Before(limit) {
				next = j
				break
			}
		}
		if next == nil {
			return n
		}
		e.Sched.RunSync(next.Name)
		n++
		e.Settle()
	}
}

// StepTo advances the clock slot by slot, running the epoch ticker at epoch starts and all jobs due within each slot.
func (e *Env) StepTo(slot uint64) {
	for s := uint64(e.Clock.CurrentSlot()); s <= slot; s++ {
		if s > uint64(e.Clock.CurrentSlot()) {
			e.Clock.SetSlot(phase0.Slot(s))
			if s%e.Opts.SlotsPerEpoch == 0 {
				e.Sched.RunSync("Epoch ticker")
				e.Settle()
			}
		}
		e.RunDueJobs(e.Clock.StartOfSlot(phase0.Slot(s + 1)))
	}
}

// HeadEvent delivers a head event for the clock's slot (or the given one).
func (e *Env) HeadEvent(slot uint64, prev, cur byte) {
	ev := &apiv1.HeadEvent{Slot: phase0.Slot(slot)}
	ev.Block[0], ev.Block[1] = byte(slot), 0xb1
	ev.PreviousDutyDependentRoot[0] = prev
	ev.CurrentDutyDependentRoot[0] = cur
	e.Bus.Emit("head", ev)
	e.Settle()
}

// PendingOneOff lists captured one-off jobs as name -> time.
func (e *Env) PendingOneOff() map[string]time.Time {
	out := map[string]time.Time{}
	for _, j := range e.Sched.Jobs() {
		if !j.Periodic {
			out[j.Name] = j.At
		}
	}
	return out
}

// SetOnAttesterFetch installs (or with nil removes) the attester-fetch hook.
func (d *Duties) SetOnAttesterFetch(f func(epoch uint64)) {
	d.mu.Lock()
	d.OnAttesterFetch = f
	d.mu.Unlock()
}

// SetOnProposerFetch installs (or with nil removes) the proposer-fetch hook.
func (d *Duties) SetOnProposerFetch(f func(epoch uint64)) {
	d.mu.Lock()
	d.OnProposerFetch = f
	d.mu.Unlock()
}
