// C20: memory and goroutines stay bounded; shutdown accounting is exact.
// Monitors:
//
//	A. integrated long run in virtual time (real controller + real attester + real sync committee messenger and
//	   aggregator): after every slot HasPendingAttestations(x) must equal "an attestation job for x is scheduled or
//	   running" for every x in a window round the clock, inside every attestation job it must be true for the job's
//	   slot, and the sizes of the bookkeeping maps (read through accessors taking the structures' own locks) must stay
//	   within a fixed window however long the run is, through reorgs that withdraw duties, epochs without head events
//	   and epochs whose duties could not be fetched.
//	B. block relay: the bid cache over a long series of auctions.
//	C. goroutines: every strategy service over nodes answering all at once / late / never / failing, and both
//	   unblinding implementations over relays succeeding all at once / all failing: after the nodes have answered
//	   and a settle period, a goroutine dump must not contain any goroutine inside a vouch strategy, proposer or
//	   block relay frame, and every call must have returned.
package main

import (
	"bytes"
	"context"
	"encoding/binary"
	"errors"
	"fmt"
	"io"
	"math/rand"
	"runtime"
	"sort"
	"strings"
	"sync"
	"sync/atomic"
	"time"

	"github.com/attestantio/go-block-relay/services/blockauctioneer"
	builderapi "github.com/attestantio/go-builder-client/api"
	"github.com/attestantio/go-eth2-client/api"
	apiv1 "github.com/attestantio/go-eth2-client/api/v1"
	"github.com/attestantio/go-eth2-client/spec"
	"github.com/attestantio/go-eth2-client/spec/altair"
	"github.com/attestantio/go-eth2-client/spec/phase0"
	"github.com/attestantio/vouch/mock"
	"github.com/attestantio/vouch/services/attester"
	attstd "github.com/attestantio/vouch/services/attester/standard"
	"github.com/attestantio/vouch/services/beaconblockproposer"
	propstd "github.com/attestantio/vouch/services/beaconblockproposer/standard"
	nullmetrics "github.com/attestantio/vouch/services/metrics/null"
	signerstd "github.com/attestantio/vouch/services/signer/standard"
	"github.com/attestantio/vouch/services/synccommitteeaggregator"
	aggstd "github.com/attestantio/vouch/services/synccommitteeaggregator/standard"
	"github.com/attestantio/vouch/services/synccommitteemessenger"
	msgstd "github.com/attestantio/vouch/services/synccommitteemessenger/standard"
	"github.com/rs/zerolog"
	zerologger "github.com/rs/zerolog/log"
	e2wtypes "github.com/wealdtech/go-eth2-wallet-types/v2"
	"verif/checks/ctlsim"
	"verif/checks/refcfg"
	"verif/checks/relaycommon"
	"verif/harness"
)

var bg = context.Background()

// Fixed windows (DESIGN.md A.6). They do not depend on the length of the run.
const (
	maxEpochEntries = 4   // attested validators, subscription information: epochs held
	maxSlotEntries  = 140 // head roots for sync aggregation, messenger slot records, relay bid cache: slots held
	maxJobs         = 600 // one-off jobs pending in the scheduler
)

// ---------------------------------------------------------------- A. integrated long run

type lworld struct {
	env      *ctlsim.Env
	head     atomic.Uint64
	accts    map[phase0.ValidatorIndex]e2wtypes.Account
	rootFail func(slot uint64) bool // the node cannot give its head root in these slots
	refuse   atomic.Bool            // the node refuses sync committee messages
}

func (w *lworld) BeaconBlockRoot(context.Context, *api.BeaconBlockRootOpts) (*api.Response[*phase0.Root], error) {
	if w.rootFail != nil && w.rootFail(uint64(w.env.Clock.CurrentSlot())) {
		return nil, errors.New("scripted head root failure")
	}
	var root phase0.Root
	binary.BigEndian.PutUint64(root[:8], w.head.Add(1))
	return &api.Response[*phase0.Root]{Data: &root, Metadata: map[string]any{}}, nil
}
func (w *lworld) SubmitSyncCommitteeMessages(context.Context, []*altair.SyncCommitteeMessage) error {
	if w.refuse.Load() {
		return errors.New("scripted refusal of sync committee messages")
	}
	return nil
}
func (w *lworld) SubmitSyncCommitteeSubscriptions(context.Context, []*apiv1.SyncCommitteeSubscription) error {
	return nil
}
func (w *lworld) SyncCommitteeContribution(_ context.Context, opts *api.SyncCommitteeContributionOpts) (*api.Response[*altair.SyncCommitteeContribution], error) {
	return &api.Response[*altair.SyncCommitteeContribution]{Data: &altair.SyncCommitteeContribution{Slot: opts.Slot, BeaconBlockRoot: opts.BeaconBlockRoot, SubcommitteeIndex: opts.SubcommitteeIndex, AggregationBits: make([]byte, 1)}, Metadata: map[string]any{}}, nil
}
func (w *lworld) SubmitSyncCommitteeContributions(context.Context, []*altair.SignedContributionAndProof) error {
	return nil
}
func (w *lworld) AttestationData(_ context.Context, opts *api.AttestationDataOpts) (*api.Response[*phase0.AttestationData], error) {
	e := uint64(opts.Slot) / w.env.Opts.SlotsPerEpoch
	src := uint64(0)
	if e > 0 {
		src = e - 1
	}
	return &api.Response[*phase0.AttestationData]{Data: &phase0.AttestationData{Slot: opts.Slot, Index: opts.CommitteeIndex, Source: &phase0.Checkpoint{Epoch: phase0.Epoch(src)}, Target: &phase0.Checkpoint{Epoch: phase0.Epoch(e)}}, Metadata: map[string]any{}}, nil
}
func (w *lworld) ValidatingAccountsForEpoch(context.Context, phase0.Epoch) (map[phase0.ValidatorIndex]e2wtypes.Account, error) {
	return w.accts, nil
}
func (w *lworld) ValidatingAccountsForEpochByIndex(_ context.Context, _ phase0.Epoch, idx []phase0.ValidatorIndex) (map[phase0.ValidatorIndex]e2wtypes.Account, error) {
	out := map[phase0.ValidatorIndex]e2wtypes.Account{}
	for _, i := range idx {
		if a, ok := w.accts[i]; ok {
			out[i] = a
		}
	}
	return out, nil
}
func (w *lworld) SyncCommitteeAccountsForEpoch(ctx context.Context, e phase0.Epoch) (map[phase0.ValidatorIndex]e2wtypes.Account, error) {
	return w.accts, nil
}
func (w *lworld) SyncCommitteeAccountsForEpochByIndex(ctx context.Context, e phase0.Epoch, idx []phase0.ValidatorIndex) (map[phase0.ValidatorIndex]e2wtypes.Account, error) {
	return w.ValidatingAccountsForEpochByIndex(ctx, e, idx)
}

// probeAttester is the real attester, observed from inside the attestation job.
type probeAttester struct {
	inner    attester.Service
	w        *lworld
	inflight func(slot phase0.Slot, pending bool)
	gate     *atomic.Pointer[chan struct{}] // when set, the job is held here (in flight) until the channel is closed
}

func (p probeAttester) Attest(ctx context.Context, d *attester.Duty) ([]*phase0.Attestation, error) {
	p.inflight(d.Slot(), p.w.env.Ctl.HasPendingAttestations(ctx, d.Slot()))
	if g := p.gate.Load(); g != nil {
		p.w.env.Busy(1)
		<-*g
		p.w.env.Busy(-1)
	}
	return p.inner.Attest(ctx, d)
}

type runDesc struct {
	SlotsPerEpoch uint64            `json:"slots_per_epoch"`
	Start         uint64            `json:"start_slot"`
	Epochs        int               `json:"epochs"`
	Verify        bool              `json:"verify_sync_committee_inclusion"`
	Kinds         map[uint64]string `json:"epoch_kinds"` // only the non-normal ones
}

func longRun(c *harness.Ctx, id string, r *rand.Rand, epochs int) {
	const size, subnets, targetAggs = 32, 4, 2
	spe := uint64(4)
	period := uint64(8)
	desc := &runDesc{SlotsPerEpoch: spe, Start: spe*uint64(2+r.Intn(8)) + uint64(r.Intn(int(spe))), Epochs: epochs, Verify: r.Intn(3) == 0, Kinds: map[uint64]string{}}
	vals := []uint64{21, 22, 23, 24, 25, 26}
	accts := map[uint64]harness.Acct{}
	w := &lworld{accts: map[phase0.ValidatorIndex]e2wtypes.Account{}}
	for i, v := range vals {
		accts[v] = harness.NewAcct(harness.KindMulti, "W", fmt.Sprintf("long%d", v), 1300+i, phase0.ValidatorIndex(v), nil)
		w.accts[phase0.ValidatorIndex(v)] = accts[v]
	}
	env, err := ctlsim.New(ctlsim.Options{SlotsPerEpoch: spe, EpochsPerPeriod: period, StartSlot: desc.Start, Validators: vals, Accounts: accts, VerifySyncInclusion: desc.Verify})
	if err != nil {
		c.Inconclusive(err.Error())
		return
	}
	w.env = env
	specP := harness.NewSpec(spe, map[string]any{"SYNC_COMMITTEE_SIZE": uint64(size), "SYNC_COMMITTEE_SUBNET_COUNT": uint64(subnets), "TARGET_AGGREGATORS_PER_SYNC_SUBCOMMITTEE": uint64(targetAggs)})
	sg, err := signerstd.New(bg, signerstd.WithLogLevel(zerolog.Disabled), signerstd.WithMonitor(nullmetrics.New()), signerstd.WithClientMonitor(nullmetrics.New()), signerstd.WithSpecProvider(specP), signerstd.WithDomainProvider(harness.RecDomains{}))
	if err != nil {
		c.Inconclusive(err.Error())
		return
	}
	att, err := attstd.New(bg, attstd.WithLogLevel(zerolog.Disabled), attstd.WithProcessConcurrency(2), attstd.WithChainTime(env.Clock), attstd.WithSpecProvider(specP), attstd.WithAttestationDataProvider(w),
		attstd.WithAttestationsSubmitter(mock.NewAttestationsSubmitter()), attstd.WithMonitor(nullmetrics.New()), attstd.WithValidatingAccountsProvider(w), attstd.WithBeaconAttestationsSigner(sg))
	if err != nil {
		c.Inconclusive("attester: " + err.Error())
		return
	}
	agg, err := aggstd.New(bg, aggstd.WithLogLevel(zerolog.Disabled), aggstd.WithMonitor(nullmetrics.New()), aggstd.WithSpecProvider(specP), aggstd.WithBeaconBlockRootProvider(w), aggstd.WithContributionAndProofSigner(sg),
		aggstd.WithValidatingAccountsProvider(w), aggstd.WithSyncCommitteeContributionProvider(w), aggstd.WithSyncCommitteeContributionsSubmitter(w), aggstd.WithChainTime(env.Clock))
	if err != nil {
		c.Inconclusive("sync aggregator: " + err.Error())
		return
	}
	msgr, err := msgstd.New(bg, msgstd.WithLogLevel(zerolog.Disabled), msgstd.WithProcessConcurrency(2), msgstd.WithMonitor(nullmetrics.New()), msgstd.WithChainTimeService(env.Clock), msgstd.WithSyncCommitteeAggregator(agg),
		msgstd.WithSpecProvider(specP), msgstd.WithBeaconBlockRootProvider(w), msgstd.WithSyncCommitteeMessagesSubmitter(w), msgstd.WithValidatingAccountsProvider(w), msgstd.WithSyncCommitteeRootSigner(sg),
		msgstd.WithSyncCommitteeSelectionSigner(sg), msgstd.WithSyncCommitteeSubscriptionsSubmitter(w))
	if err != nil {
		c.Inconclusive("sync messenger: " + err.Error())
		return
	}
	fail := func(key, what string, extra map[string]any) {
		d := map[string]any{"run": desc, "clock_slot": uint64(env.Clock.CurrentSlot())}
		for k, v := range extra {
			d[k] = v
		}
		c.Violate(key, what, id, d)
	}
	var inflightChecked atomic.Int64
	var attGate atomic.Pointer[chan struct{}]
	env.Opts.Attester = probeAttester{inner: att, w: w, gate: &attGate, inflight: func(slot phase0.Slot, pending bool) {
		inflightChecked.Add(1)
		if !pending {
			fail("in-flight-attestation-not-pending", fmt.Sprintf("inside the attestation job of slot %d HasPendingAttestations(%d) is false: a shutdown would not wait for it", slot, slot), nil)
		}
	}}
	env.Opts.Messenger, env.Opts.SyncAggregator = msgr, agg

	// duties: every validator attests once per epoch; two validators sit in every sync committee
	lastEpoch := desc.Start/spe + uint64(epochs) + 3
	genDuties := func(e uint64, onlyBefore uint64, movedFrom uint64) []*apiv1.AttesterDuty {
		var out []*apiv1.AttesterDuty
		for i, v := range vals {
			s := e*spe + uint64(r.Intn(int(spe)))
			if onlyBefore > 0 && s >= onlyBefore { // a reorg moved this validator's duty to a slot that is already over
				s = e*spe + uint64(r.Intn(int(onlyBefore-e*spe)))
			}
			out = append(out, &apiv1.AttesterDuty{Slot: phase0.Slot(s), ValidatorIndex: phase0.ValidatorIndex(v), CommitteeIndex: phase0.CommitteeIndex(i % 2), CommitteeLength: 16, CommitteesAtSlot: 2, ValidatorCommitteeIndex: uint64(i)})
		}
		return out
	}
	for e := uint64(0); e <= lastEpoch; e++ {
		env.Duties.Attester[e] = genDuties(e, 0, 0)
		if r.Intn(3) == 0 {
			env.Duties.Proposer[e] = []*apiv1.ProposerDuty{{Slot: phase0.Slot(e*spe + uint64(r.Intn(int(spe)))), ValidatorIndex: phase0.ValidatorIndex(vals[r.Intn(len(vals))])}}
		}
	}
	rootFails := map[uint64]bool{}
	for x := desc.Start; x <= lastEpoch*spe; x++ {
		if r.Intn(20) < 9 {
			rootFails[x] = true
		}
	}
	w.rootFail = func(slot uint64) bool { return rootFails[slot] }
	for p := uint64(0); p <= lastEpoch/period+1; p++ {
		if p > desc.Start/spe/period && r.Intn(4) == 0 {
			desc.Kinds[p*period] = "period-without-membership"
			continue // none of our validators is in this period's committee
		}
		env.Duties.Sync[p] = []*apiv1.SyncCommitteeDuty{
			{ValidatorIndex: 21, ValidatorSyncCommitteeIndices: []phase0.CommitteeIndex{phase0.CommitteeIndex(r.Intn(size))}},
			{ValidatorIndex: 24, ValidatorSyncCommitteeIndices: []phase0.CommitteeIndex{phase0.CommitteeIndex(r.Intn(size)), phase0.CommitteeIndex(r.Intn(size))}},
		}
	}
	if err := env.Start(); err != nil {
		c.Inconclusive("controller.New: " + err.Error())
		return
	}
	// dependent roots: dep[e] identifies the duties of epoch e; an event in epoch E carries previous=dep[E], current=dep[E+1]
	dep := map[uint64]uint32{}
	depOf := func(e uint64) uint32 {
		if dep[e] == 0 {
			dep[e] = uint32(e)*1000 + 1
		}
		return dep[e]
	}
	sendHead := func(s uint64) {
		ev := &apiv1.HeadEvent{Slot: phase0.Slot(s)}
		binary.BigEndian.PutUint64(ev.Block[:8], s+1)
		binary.BigEndian.PutUint32(ev.PreviousDutyDependentRoot[:4], depOf(s/spe))
		binary.BigEndian.PutUint32(ev.CurrentDutyDependentRoot[:4], depOf(s/spe+1))
		env.Bus.Emit("head", ev)
		env.Settle()
	}
	sendHeadBusy := func(s uint64) { // as sendHead, while a job is held in flight
		ev := &apiv1.HeadEvent{Slot: phase0.Slot(s)}
		binary.BigEndian.PutUint64(ev.Block[:8], s+1)
		binary.BigEndian.PutUint32(ev.PreviousDutyDependentRoot[:4], depOf(s/spe))
		binary.BigEndian.PutUint32(ev.CurrentDutyDependentRoot[:4], depOf(s/spe+1))
		env.Bus.Emit("head", ev)
		env.SettleBusy()
	}
	attJob := func(x uint64) string { return fmt.Sprintf("Attestations for slot %d", x) }
	check := func(s uint64) {
		live := map[uint64]bool{}
		for _, j := range env.Sched.Jobs() {
			var x uint64
			if n, _ := fmt.Sscanf(j.Name, "Attestations for slot %d", &x); n == 1 {
				live[x] = true
			}
		}
		for _, name := range env.Sched.Running() {
			var x uint64
			if n, _ := fmt.Sscanf(name, "Attestations for slot %d", &x); n == 1 {
				live[x] = true
			}
		}
		lo := uint64(0)
		if s > 3*spe {
			lo = s - 3*spe
		}
		for x := lo; x <= s+3*spe; x++ {
			has := env.Ctl.HasPendingAttestations(bg, phase0.Slot(x))
			c.Eval(1)
			if has && !live[x] {
				what := "its job has finished"
				if x > s {
					what = "its job was withdrawn"
				}
				fail("pending-without-job:"+map[bool]string{true: "withdrawn", false: "finished"}[x > s], fmt.Sprintf("clock slot %d: HasPendingAttestations(%d) is true but no attestation job for slot %d is scheduled or running (%s): a shutdown requested in that slot waits for ever", s, x, x, what), map[string]any{"job": attJob(x)})
			}
			if !has && live[x] {
				fail("job-without-pending", fmt.Sprintf("clock slot %d: an attestation job for slot %d is scheduled but HasPendingAttestations(%d) is false", s, x, x), nil)
			}
		}
		// every marked slot must be a live one, wherever it is
		for _, x := range env.Ctl.VerifPendingAttestationSlots() {
			if !live[uint64(x)] {
				fail("pending-mark-stale", fmt.Sprintf("clock slot %d: slot %d is marked as having pending attestations but has no job", s, x), nil)
			}
		}
		sizes := map[string]int{
			"attester.attested (epochs)":               len(att.VerifAttestedEpochs()),
			"controller.subscriptionInfos (epochs)":    len(env.Ctl.VerifSubscriptionInfoEpochs()),
			"synccommitteeaggregator.beaconBlockRoots": len(agg.VerifBeaconBlockRootSlots()),
			"synccommitteemessenger.slotDataRecords":   len(msgr.VerifSlotDataRecordSlots()),
			"controller.pendingAttestations":           len(env.Ctl.VerifPendingAttestationSlots()),
			"scheduler one-off jobs pending":           0,
		}
		for _, j := range env.Sched.Jobs() {
			if !j.Periodic {
				sizes["scheduler one-off jobs pending"]++
				if j.At.Before(env.Clock.StartOfSlot(phase0.Slot(s)).Add(-time.Duration(spe) * ctlsim.SlotDuration)) {
					fail("stale-scheduler-job", fmt.Sprintf("clock slot %d: job %q scheduled for %v is still in the scheduler an epoch later", s, j.Name, j.At.Sub(env.Clock.GenesisTime())), nil)
				}
			}
		}
		bound := map[string]int{"attester.attested (epochs)": maxEpochEntries, "controller.subscriptionInfos (epochs)": maxEpochEntries, "synccommitteeaggregator.beaconBlockRoots": maxSlotEntries,
			"synccommitteemessenger.slotDataRecords": maxSlotEntries, "controller.pendingAttestations": int(3 * spe), "scheduler one-off jobs pending": maxJobs}
		for name, n := range sizes {
			if n > bound[name] {
				fail("unbounded:"+strings.Fields(name)[0], fmt.Sprintf("clock slot %d (%d slots into the run): %s holds %d entries, more than the fixed window of %d", s, s-desc.Start, name, n, bound[name]), map[string]any{"sizes": sizes})
			}
			c.Max("max_entries_"+strings.Fields(name)[0], int64(n))
		}
		if s%spe == spe-1 {
			c.Count("epoch_ends_checked", 1)
		}
	}
	end := desc.Start + uint64(epochs)*spe
	reorgDone := map[uint64]bool{}
	var heldSlot atomic.Uint64
	var heldRelease chan struct{}
	defer func() {
		if heldRelease != nil {
			close(heldRelease)
		}
	}()
	kind := "normal"
	reorgPos := uint64(0)
	for s := desc.Start + 1; s <= end; s++ {
		E := s / spe
		if s%spe == 0 {
			env.Duties.FailAttester = false
			kind, reorgPos = "normal", uint64(1+r.Intn(int(spe)-2))
			switch r.Intn(9) {
			case 7:
				kind = "scheduling-held" // a reorg of this epoch; one goroutine that sets up a later slot's job is descheduled as the scheduler takes it, until the job has run
			case 0:
				kind = "reorg-current" // the duties of this epoch change; validators with a later slot move to one that is over
			case 1:
				kind = "reorg-next"
			case 2:
				kind = "silent" // the node delivers no head event in this epoch
			case 3:
				kind = "fetch-fails" // attester duties cannot be fetched during this epoch
				env.Duties.FailAttester = true
			case 4:
				kind = "reorg-before-attestation" // the reorg arrives before the slot's attestation job has run
			case 5:
				kind = "reorg-during-attestation" // the reorg arrives while an attestation job of the epoch is in flight
			case 6:
				kind = "reorg-twice" // two reorg events in quick succession: their duty refreshes overlap
			}
			if kind != "normal" {
				desc.Kinds[E] = kind
			}
			c.Count("epochs_"+kind, 1)
		}
		env.Clock.SetSlot(phase0.Slot(s))
		if s%spe == 0 {
			env.Sched.RunSync("Epoch ticker")
			env.Settle()
		}
		reorgNow := (kind == "reorg-current" || kind == "reorg-next" || kind == "reorg-before-attestation") && s%spe == reorgPos
		if reorgNow && kind == "reorg-before-attestation" {
			env.Duties.Attester[E] = genDuties(E, s, 0)
			dep[E] = depOf(E) + 1
			sendHead(s)
			c.Count("reorgs_withdrawing_duties", 1)
		}
		if kind == "reorg-during-attestation" && env.Sched.Job(attJob(s)) != nil && !reorgDone[E] {
			// hold the slot's attestation job in flight, deliver the reorg, and look at the slot's mark before the job is let go
			reorgDone[E] = true
			gate := make(chan struct{})
			attGate.Store(&gate)
			_ = env.Sched.RunJob(bg, attJob(s))
			env.SettleBusy()
			if !env.Ctl.HasPendingAttestations(bg, phase0.Slot(s)) {
				fail("in-flight-attestation-not-pending", fmt.Sprintf("the attestation job of slot %d is running but HasPendingAttestations(%d) is false", s, s), nil)
			}
			env.Duties.Attester[E] = genDuties(E, 0, 0)
			dep[E] = depOf(E) + 1
			sendHeadBusy(s)
			if !env.Ctl.HasPendingAttestations(bg, phase0.Slot(s)) {
				fail("in-flight-attestation-not-pending:after-reorg", fmt.Sprintf("a reorg refreshed the duties of epoch %d while the attestation job of slot %d was in flight; the job is still running but HasPendingAttestations(%d) is now false: a shutdown would not wait for it", E, s, s), nil)
			}
			attGate.Store(nil)
			close(gate)
			env.Sched.Wait()
			env.Settle()
			c.Count("reorgs_during_attestation", 1)
		}
		env.RunDueJobs(env.Clock.StartOfSlot(phase0.Slot(s + 1)))
		if kind != "silent" {
			sendHead(s)
		}
		if kind == "scheduling-held" && s%spe == reorgPos {
			env.Duties.Attester[E] = genDuties(E, 0, 0)
			dep[E] = depOf(E) + 1
			hold := make(chan struct{})
			var once sync.Once
			env.Sched.SetAfterSchedule(func(name string) {
				var x uint64
				if n, _ := fmt.Sscanf(name, "Attestations for slot %d", &x); n == 1 && x > s && x/spe == E {
					held := false
					once.Do(func() { held = true; heldSlot.Store(x) })
					if held {
						<-hold
					}
				}
			})
			heldSlot.Store(0)
			heldRelease = hold
			sendHead(s)
			env.Sched.SetAfterSchedule(nil)
			if heldSlot.Load() == 0 {
				close(hold)
				heldRelease = nil
			} else {
				c.Count("scheduling_goroutines_held", 1)
			}
		}
		if heldRelease != nil && s > heldSlot.Load() {
			// the held slot's job has run and ended; its scheduling goroutine now gets to continue
			close(heldRelease)
			heldRelease = nil
			env.Settle()
		}
		if reorgNow && kind == "reorg-current" {
			env.Duties.Attester[E] = genDuties(E, s+1, 0)
			dep[E] = depOf(E) + 1
			sendHead(s)
			c.Count("reorgs_withdrawing_duties", 1)
		}
		if kind == "reorg-twice" && s%spe == reorgPos {
			env.Duties.Attester[E] = genDuties(E, 0, 0)
			for k := 0; k < 2; k++ {
				dep[E] = depOf(E) + 1
				ev := &apiv1.HeadEvent{Slot: phase0.Slot(s)}
				binary.BigEndian.PutUint64(ev.Block[:8], s+1+uint64(k)<<32)
				binary.BigEndian.PutUint32(ev.PreviousDutyDependentRoot[:4], depOf(E))
				binary.BigEndian.PutUint32(ev.CurrentDutyDependentRoot[:4], depOf(E+1))
				env.Bus.Emit("head", ev) // no settling in between: the second refresh starts while the first is under way
			}
			env.Settle()
			c.Count("overlapping_duty_refreshes", 1)
		}
		if reorgNow && kind == "reorg-next" {
			env.Duties.Attester[E+1] = genDuties(E+1, 0, 0)
			dep[E+1] = depOf(E+1) + 1
			sendHead(s)
			c.Count("reorgs_of_next_epoch", 1)
		}
		check(s)
	}
	if inflightChecked.Load() == 0 {
		c.Inconclusive("no attestation job ran in " + id)
	}
	c.Count("inflight_probes", inflightChecked.Load())
	c.Count("slots_simulated", int64(end-desc.Start))
	var ks []string
	for _, k := range desc.Kinds {
		ks = append(ks, k)
	}
	sort.Strings(ks)
	c.Distinct(fmt.Sprintf("long|%v|%d|%s", desc.Verify, desc.Start%spe, strings.Join(uniq(ks), ",")))
}

func uniq(s []string) []string {
	var out []string
	for i, x := range s {
		if i == 0 || x != s[i-1] {
			out = append(out, x)
		}
	}
	return out
}

// ---------------------------------------------------------------- A2. very long histories of the sync committee services and the attester alone

// directLong drives the real sync committee messenger + aggregator and the real attester slot by slot for thousands of
// slots, the way the controller's jobs do, with the gap patterns a long run meets: head roots that cannot be fetched,
// outages, periods without committee membership, epochs without attestations.
func directLong(c *harness.Ctx, id string, r *rand.Rand, slots int) {
	const size, subnets, targetAggs = 32, 4, 2
	spe := uint64(8)
	clock := harness.NewVClock(12*time.Second, spe)
	vals := []uint64{41, 42, 43}
	w := &lworld{accts: map[phase0.ValidatorIndex]e2wtypes.Account{}, env: &ctlsim.Env{Clock: clock}}
	w.env.Opts.SlotsPerEpoch = spe
	for i, v := range vals {
		w.accts[phase0.ValidatorIndex(v)] = harness.NewAcct(harness.KindMulti, "W", fmt.Sprintf("direct%d", v), 1380+i, phase0.ValidatorIndex(v), nil)
	}
	specP := harness.NewSpec(spe, map[string]any{"SYNC_COMMITTEE_SIZE": uint64(size), "SYNC_COMMITTEE_SUBNET_COUNT": uint64(subnets), "TARGET_AGGREGATORS_PER_SYNC_SUBCOMMITTEE": uint64(targetAggs)})
	sg, err := signerstd.New(bg, signerstd.WithLogLevel(zerolog.Disabled), signerstd.WithMonitor(nullmetrics.New()), signerstd.WithClientMonitor(nullmetrics.New()), signerstd.WithSpecProvider(specP), signerstd.WithDomainProvider(harness.RecDomains{}))
	if err != nil {
		c.Inconclusive(err.Error())
		return
	}
	att, err := attstd.New(bg, attstd.WithLogLevel(zerolog.Disabled), attstd.WithProcessConcurrency(2), attstd.WithChainTime(clock), attstd.WithSpecProvider(specP), attstd.WithAttestationDataProvider(w),
		attstd.WithAttestationsSubmitter(mock.NewAttestationsSubmitter()), attstd.WithMonitor(nullmetrics.New()), attstd.WithValidatingAccountsProvider(w), attstd.WithBeaconAttestationsSigner(sg))
	if err != nil {
		c.Inconclusive("attester: " + err.Error())
		return
	}
	agg, err := aggstd.New(bg, aggstd.WithLogLevel(zerolog.Disabled), aggstd.WithMonitor(nullmetrics.New()), aggstd.WithSpecProvider(specP), aggstd.WithBeaconBlockRootProvider(w), aggstd.WithContributionAndProofSigner(sg),
		aggstd.WithValidatingAccountsProvider(w), aggstd.WithSyncCommitteeContributionProvider(w), aggstd.WithSyncCommitteeContributionsSubmitter(w), aggstd.WithChainTime(clock))
	if err != nil {
		c.Inconclusive("sync aggregator: " + err.Error())
		return
	}
	msgr, err := msgstd.New(bg, msgstd.WithLogLevel(zerolog.Disabled), msgstd.WithProcessConcurrency(2), msgstd.WithMonitor(nullmetrics.New()), msgstd.WithChainTimeService(clock), msgstd.WithSyncCommitteeAggregator(agg),
		msgstd.WithSpecProvider(specP), msgstd.WithBeaconBlockRootProvider(w), msgstd.WithSyncCommitteeMessagesSubmitter(w), msgstd.WithValidatingAccountsProvider(w), msgstd.WithSyncCommitteeRootSigner(sg),
		msgstd.WithSyncCommitteeSelectionSigner(sg), msgstd.WithSyncCommitteeSubscriptionsSubmitter(w))
	if err != nil {
		c.Inconclusive("sync messenger: " + err.Error())
		return
	}
	// the pattern of this run
	patterns := []string{"random-gaps", "every-other-slot", "outages", "membership-gaps", "all", "messages-refused"}
	pattern := patterns[r.Intn(len(patterns))]
	var n int
	if k, _ := fmt.Sscanf(id, "direct%d", &n); k == 1 && n < len(patterns) {
		pattern = patterns[n] // the first histories of a run cover every pattern
	}
	failing := false
	member := true
	var aggregations, messages, attestations, gaps int
	maxRoots, maxRecords, maxAttested := 0, 0, 0
	base := uint64(64)
	for i := 0; i < slots; i++ {
		s := base + uint64(i)
		clock.SetSlot(phase0.Slot(s))
		switch pattern {
		case "random-gaps":
			failing = r.Intn(3) == 0
		case "every-other-slot":
			failing = s%2 == 1
		case "outages":
			if r.Intn(60) == 0 {
				failing = !failing
			}
		case "membership-gaps":
			if s%64 == 0 {
				member = r.Intn(2) == 0
			}
		case "messages-refused":
			// the node refuses the messages for long stretches (it is syncing): the slot's record is written, the message is not out
			w.refuse.Store(i%600 < 450)
		default:
			w.refuse.Store(i%900 >= 500 && i%900 < 800)
			if r.Intn(40) == 0 {
				failing = !failing
			}
			if s%64 == 0 {
				member = r.Intn(3) > 0
			}
			if r.Intn(5) == 0 {
				failing = !failing
			}
		}
		w.rootFail = func(uint64) bool { return failing }
		if member {
			d := synccommitteemessenger.NewDuty(phase0.Slot(s), map[phase0.ValidatorIndex][]phase0.CommitteeIndex{41: {3}, 43: {17, 30}})
			d.SetAccount(41, w.accts[41])
			d.SetAccount(43, w.accts[43])
			_ = msgr.Prepare(bg, d)
			if _, err := msgr.Message(bg, d); err == nil {
				messages++
				sel := map[phase0.ValidatorIndex]map[uint64]phase0.BLSSignature{}
				var idx []phase0.ValidatorIndex
				for _, v := range d.ValidatorIndices() {
					if m := d.AggregatorSubcommittees(v); len(m) > 0 {
						sel[v] = m
						idx = append(idx, v)
					}
				}
				if len(idx) > 0 {
					agg.Aggregate(bg, &synccommitteeaggregator.Duty{Slot: phase0.Slot(s), ValidatorIndices: idx, SelectionProofs: sel, Accounts: d.Accounts()})
					aggregations++
				}
			} else {
				gaps++
			}
		} else {
			gaps++
		}
		// one attestation duty per epoch, in its third slot; some epochs have none
		if s%spe == 2 && r.Intn(4) > 0 {
			duty, err := attester.NewDuty(bg, phase0.Slot(s), 2, []phase0.ValidatorIndex{41, 42, 43}, []phase0.CommitteeIndex{0, 1, 0}, []uint64{1, 2, 3}, map[phase0.CommitteeIndex]uint64{0: 16, 1: 16})
			if err == nil {
				failing2 := failing
				failing = false
				_, _ = att.Attest(bg, duty)
				failing = failing2
				attestations++
			}
		}
		nr, nd, na := len(agg.VerifBeaconBlockRootSlots()), len(msgr.VerifSlotDataRecordSlots()), len(att.VerifAttestedEpochs())
		if nr > maxRoots {
			maxRoots = nr
		}
		if nd > maxRecords {
			maxRecords = nd
		}
		if na > maxAttested {
			maxAttested = na
		}
		c.Eval(1)
		detail := map[string]any{"pattern": pattern, "slots_run": i + 1, "messages": messages, "slots_without_message": gaps, "aggregations": aggregations, "attestations": attestations}
		if nr > maxSlotEntries {
			c.Violate("unbounded:synccommitteeaggregator.beaconBlockRoots:"+pattern, fmt.Sprintf("after %d slots (%s) the sync committee aggregator holds head roots for %d slots, more than the fixed window of %d", i+1, pattern, nr, maxSlotEntries), id, detail)
			return
		}
		if nd > maxSlotEntries {
			c.Violate("unbounded:synccommitteemessenger.slotDataRecords:"+pattern, fmt.Sprintf("after %d slots (%s) the sync committee messenger holds records for %d slots, more than the fixed window of %d", i+1, pattern, nd, maxSlotEntries), id, detail)
			return
		}
		if na > maxEpochEntries {
			c.Violate("unbounded:attester.attested:"+pattern, fmt.Sprintf("after %d slots (%s) the attester's attested map holds %d epochs, more than the fixed window of %d", i+1, pattern, na, maxEpochEntries), id, detail)
			return
		}
	}
	if messages == 0 || attestations == 0 {
		c.Inconclusive(id + ": no message or no attestation was made")
	}
	c.Count("direct_slots", int64(slots))
	c.Count("direct_sync_messages", int64(messages))
	c.Count("direct_slots_without_message", int64(gaps))
	c.Count("direct_aggregations", int64(aggregations))
	c.Max("max_entries_direct_beaconBlockRoots", int64(maxRoots))
	c.Max("max_entries_direct_slotDataRecords", int64(maxRecords))
	c.Max("max_entries_direct_attested", int64(maxAttested))
	c.Distinct("direct|" + pattern)
}

// ---------------------------------------------------------------- B. relay bid cache

func relayCache(c *harness.Ctx, id string, r *rand.Rand, slots int) {
	var accts []harness.Acct
	for i := 0; i < 2; i++ {
		accts = append(accts, harness.NewAcct(harness.KindPlain, "W", fmt.Sprintf("rc%d", i), 1340+i, phase0.ValidatorIndex(9100+i), nil))
	}
	env, err := relaycommon.NewEnv(accts, 0, relaycommon.Outcome{Kind: "error"}, nil)
	if err != nil {
		c.Inconclusive(err.Error())
		return
	}
	one := 5
	doc := (&refcfg.Doc2{Opts: refcfg.Opts{FR: &one}, Relays: map[string]*refcfg.Relay{env.RelayAddr(0): {}}}).JSON()
	env.Config.Set(relaycommon.Outcome{Kind: "valid", Doc: doc})
	env.Refresh()
	base := uint64(32 * 100)
	for i := 0; i < slots; i++ {
		s := base + uint64(i)
		env.Clock.SetSlot(phase0.Slot(s))
		if r.Intn(3) == 0 {
			continue // not every slot is ours
		}
		if _, err := env.Svc.AuctionBlock(bg, phase0.Slot(s), phase0.Hash32{byte(i)}, accts[i%2].Pub48()); err != nil {
			c.Inconclusive("auction: " + err.Error())
			return
		}
		c.Eval(1)
		if n := len(env.Svc.VerifBuilderBidSlots()); n > maxSlotEntries {
			c.Violate("unbounded:blockrelay.builderBidsCache", fmt.Sprintf("after auctions over %d slots the block relay's bid cache holds entries for %d slots, more than the fixed window of %d", i+1, n, maxSlotEntries), id, map[string]any{"slots": slots})
			return
		}
	}
	c.Count("auctions_run", int64(slots))
	c.Distinct("relay-cache")
}

// ---------------------------------------------------------------- C. goroutines

// delayHook injects delays at the log statements inside the unblinding goroutines (existing suspension-free points
// between their checks of the shared semaphore), so that relays that answer together really are inside the hand-over
// at the same time. It is installed on the global logger the services derive theirs from.
type delayHook struct{}

func (delayHook) Run(_ *zerolog.Event, _ zerolog.Level, msg string) {
	switch msg {
	case "Unblinded block":
		time.Sleep(3 * time.Millisecond)
	case "Unblinding block with provider", "Another relay has already responded":
		time.Sleep(200 * time.Microsecond)
	}
}

func installDelayHook() {
	zerologger.Logger = zerolog.New(io.Discard).Hook(delayHook{})
	relaycommon.LogLevel = zerolog.TraceLevel
}

// vouchFrames are the packages whose goroutines must be gone at quiescence.
var vouchFrames = []string{"github.com/attestantio/vouch/strategies/", "github.com/attestantio/vouch/services/beaconblockproposer/", "github.com/attestantio/vouch/services/blockrelay/standard.(*Service).unblind", "github.com/attestantio/vouch/util.Scatter"}

// census returns the goroutines (by id) that have a frame in one of the watched packages.
func census() map[string]string {
	buf := make([]byte, 16<<20)
	n := runtime.Stack(buf, true)
	out := map[string]string{}
	for _, g := range bytes.Split(buf[:n], []byte("\n\n")) {
		s := string(g)
		for _, f := range vouchFrames {
			if strings.Contains(s, f) {
				lines := strings.Split(s, "\n")
				desc := lines[0]
				for _, l := range lines[1:] {
					if strings.Contains(l, "attestantio/vouch/") && !strings.HasPrefix(l, "\t") {
						desc += " " + strings.TrimSpace(l)
						break
					}
				}
				out[strings.Fields(lines[0] + " x x")[1]] = desc
				break
			}
		}
	}
	return out
}

// quiesce waits (bounded) for the watched goroutines that are not in the baseline to disappear and returns those that remain.
func quiesce(baseline map[string]string, limit time.Duration) []string {
	var left []string
	for waited := time.Duration(0); waited <= limit; waited += 50 * time.Millisecond {
		left = left[:0]
		for id, d := range census() {
			if _, old := baseline[id]; !old {
				left = append(left, d)
			}
		}
		if len(left) == 0 {
			return nil
		}
		time.Sleep(50 * time.Millisecond)
	}
	sort.Strings(left)
	return left
}

func strip(s string) string { // goroutine state and function, without id, wait time and arguments
	if i := strings.Index(s, "["); i >= 0 {
		s = s[i:]
	}
	if i := strings.Index(s, ","); i >= 0 && i < strings.Index(s, "]") {
		s = s[:i] + s[strings.Index(s, "]"):]
	}
	if i := strings.Index(s, "(0x"); i > 0 {
		s = s[:i]
	}
	return s
}

func strategyGoroutines(c *harness.Ctx, r *rand.Rand, rounds int, part, parts int) {
	sts := strategies()
	shapes := []struct {
		name string
		gen  func(k int) []nb
	}{
		{"all-at-once", func(k int) []nb {
			var out []nb
			for i := 0; i < k; i++ {
				out = append(out, nb{Kind: "valid", Lat: "zero", Rank: i % 2, Val: 0})
			}
			return out
		}},
		{"all-late", func(k int) []nb {
			var out []nb
			for i := 0; i < k; i++ {
				out = append(out, nb{Kind: "valid", Lat: "late", Rank: i, Val: 0})
			}
			return out
		}},
		{"all-after-the-timeout-deaf-to-cancellation", func(k int) []nb {
			var out []nb
			for i := 0; i < k; i++ {
				out = append(out, nb{Kind: "deaf", Lat: "late", Rank: i % 2, Val: 0})
			}
			return out
		}},
		{"never", func(k int) []nb {
			var out []nb
			for i := 0; i < k; i++ {
				out = append(out, nb{Kind: "silent", Lat: "fast"})
			}
			return out
		}},
		{"all-failing", func(k int) []nb {
			var out []nb
			for i := 0; i < k; i++ {
				out = append(out, nb{Kind: "error", Lat: "fast"})
			}
			return out
		}},
		{"mixed", func(k int) []nb {
			kinds := []string{"valid", "valid", "error", "silent", "hang", "valid"}
			lats := []string{"zero", "fast", "mid", "late"}
			var out []nb
			for i := 0; i < k; i++ {
				out = append(out, nb{Kind: kinds[r.Intn(len(kinds))], Lat: lats[r.Intn(len(lats))], Rank: r.Intn(3), Val: r.Intn(2)})
			}
			return out
		}},
	}
	for sti, st := range sts {
		if sti%parts != part {
			continue
		}
		for _, sh := range shapes {
			id := fmt.Sprintf("goroutines/%s/%s", st.Name, sh.name)
			c.Case(id, func() {
				baseline := census() // goroutines leaked by earlier cases were reported there
				var wg sync.WaitGroup
				var notReturned atomic.Int64
				for k := 0; k < rounds; k++ {
					bs := sh.gen(3 + (k % 3))
					nodes := make([]*fnode, len(bs))
					for i, b := range bs {
						lat := time.Duration(0)
						if b.Lat != "zero" {
							lat = b.latency(r)
						}
						nodes[i] = &fnode{name: fmt.Sprintf("node%d", i), b: b, lat: lat, strat: st.Name}
					}
					call, err := st.build(nodes, 2)
					if err != nil {
						c.Inconclusive("cannot build " + st.Name + ": " + err.Error())
						return
					}
					start := time.Now()
					for _, nd := range nodes {
						nd.start = start
					}
					wg.Add(1)
					notReturned.Add(1)
					go func() {
						defer wg.Done()
						_, _ = call(bg)
						notReturned.Add(-1)
					}()
				}
				done := make(chan struct{})
				go func() { wg.Wait(); close(done) }()
				select {
				case <-done:
				case <-time.After(15 * time.Second):
					c.Violate("call-never-returns:"+st.Name, fmt.Sprintf("%d of %d calls of %s over %s nodes had not returned 15 s after they were made (timeout %v)", notReturned.Load(), rounds, st.Name, sh.name, timeout), id, nil)
					return
				}
				c.Eval(rounds)
				// every node has answered by timeout + 0.5 s (the "hang" kind); give the rest time to drain
				left := quiesce(baseline, 8*time.Second)
				if len(left) > 0 {
					c.Violate("goroutine-leak:"+st.Name, fmt.Sprintf("after %d calls of %s with nodes answering %s, %d goroutine(s) are still inside the strategy long after every node has answered, e.g. %s", rounds, st.Name, sh.name, len(left), strip(left[0])), id,
						map[string]any{"goroutines": first(left, 5), "calls": rounds, "shape": sh.name})
				}
				c.Count("strategy_calls", int64(rounds))
				c.Distinct(st.Name + "|" + sh.name)
			})
		}
	}
}

func first(s []string, n int) []string {
	if len(s) > n {
		return s[:n]
	}
	return s
}

// pworld is the surroundings of the real proposer for the unblinding cases.
type pworld struct {
	mu        sync.Mutex
	acct      harness.Acct
	real      *signerstd.Service
	proposal  *api.VersionedProposal
	relays    []*harness.Relay
	submitted int
}

func (w *pworld) ValidatingAccountsForEpoch(context.Context, phase0.Epoch) (map[phase0.ValidatorIndex]e2wtypes.Account, error) {
	return map[phase0.ValidatorIndex]e2wtypes.Account{harness.AcctIndex(w.acct): w.acct}, nil
}
func (w *pworld) ValidatingAccountsForEpochByIndex(ctx context.Context, e phase0.Epoch, _ []phase0.ValidatorIndex) (map[phase0.ValidatorIndex]e2wtypes.Account, error) {
	return w.ValidatingAccountsForEpoch(ctx, e)
}
func (w *pworld) SyncCommitteeAccountsForEpoch(context.Context, phase0.Epoch) (map[phase0.ValidatorIndex]e2wtypes.Account, error) {
	return nil, nil
}
func (w *pworld) SyncCommitteeAccountsForEpochByIndex(context.Context, phase0.Epoch, []phase0.ValidatorIndex) (map[phase0.ValidatorIndex]e2wtypes.Account, error) {
	return nil, nil
}
func (w *pworld) SignRANDAOReveal(ctx context.Context, account e2wtypes.Account, slot phase0.Slot) (phase0.BLSSignature, error) {
	return w.real.SignRANDAOReveal(ctx, account, slot)
}
func (w *pworld) SignBeaconBlockProposal(ctx context.Context, account e2wtypes.Account, slot phase0.Slot, proposerIndex phase0.ValidatorIndex, parentRoot, stateRoot, bodyRoot phase0.Root) (phase0.BLSSignature, error) {
	return w.real.SignBeaconBlockProposal(ctx, account, slot, proposerIndex, parentRoot, stateRoot, bodyRoot)
}
func (w *pworld) SignBlobSidecar(context.Context, e2wtypes.Account, phase0.Slot, phase0.Root) (phase0.BLSSignature, error) {
	return phase0.BLSSignature{}, errors.New("not used")
}
func (w *pworld) ExecutionChainHead(context.Context) (phase0.Hash32, uint64) {
	return phase0.Hash32{4, 2}, 99
}
func (w *pworld) Proposal(context.Context, *api.ProposalOpts) (*api.Response[*api.VersionedProposal], error) {
	return &api.Response[*api.VersionedProposal]{Data: w.proposal, Metadata: map[string]any{}}, nil
}
func (w *pworld) SubmitProposal(context.Context, *api.VersionedSignedProposal) error {
	w.mu.Lock()
	w.submitted++
	w.mu.Unlock()
	return nil
}
func (w *pworld) AuctionBlock(context.Context, phase0.Slot, phase0.Hash32, phase0.BLSPubKey) (*blockauctioneer.Results, error) {
	res := &blockauctioneer.Results{Participation: map[string]*blockauctioneer.Participation{}, WinningParticipation: &blockauctioneer.Participation{Category: "standard"}}
	for _, rl := range w.relays {
		res.AllProviders = append(res.AllProviders, rl)
		res.Providers = append(res.Providers, rl)
	}
	return res, nil
}

// unblindFn builds a relay's scripted unblinding behaviour; gate (when not nil) makes all relays answer at the same instant.
func unblindFn(kind string, marker int, gate *sync.WaitGroup) func(ctx context.Context, opts *builderapi.UnblindProposalOpts) (*api.VersionedSignedProposal, error) {
	var once sync.Once
	return func(ctx context.Context, opts *builderapi.UnblindProposalOpts) (*api.VersionedSignedProposal, error) {
		if gate != nil {
			once.Do(gate.Done)
			gate.Wait()
		}
		switch kind {
		case "block":
			signed := &api.VersionedSignedProposal{Version: opts.Proposal.Version, BellatrixBlinded: opts.Proposal.Bellatrix, CapellaBlinded: opts.Proposal.Capella, DenebBlinded: opts.Proposal.Deneb}
			u := harness.Unblinded(signed, uint64(marker+1))
			if u == nil {
				return nil, errors.New("cannot unblind what was sent")
			}
			return u, nil
		case "400":
			return nil, errors.New("POST failed with status 400: unknown payload")
		case "timeout": // the HTTP client gives up after its own timeout
			time.Sleep(300 * time.Millisecond)
			return nil, errors.New("POST failed: context deadline exceeded (Client.Timeout exceeded while awaiting headers)")
		default:
			return nil, errors.New("POST failed with status 500: internal")
		}
	}
}

var unblindShapes = []struct {
	name    string
	kinds   []string
	gated   bool
	sameKey bool // the first two addresses are one relay (the same public key), as with a relay's regional endpoints
}{
	{name: "one-relay-at-two-addresses", kinds: []string{"block", "block", "400"}, sameKey: true},
	{name: "one-relay-at-two-addresses-rejects", kinds: []string{"400", "400"}, sameKey: true},
	{name: "three-succeed-at-once", kinds: []string{"block", "block", "block"}, gated: true},
	{name: "five-succeed-at-once", kinds: []string{"block", "block", "block", "block", "block"}, gated: true},
	{name: "one-succeeds", kinds: []string{"400", "block", "500"}, gated: false},
	{name: "all-reject", kinds: []string{"400", "400", "400"}, gated: false},
	{name: "all-fail-after-retries", kinds: []string{"500", "timeout"}, gated: false},
	{name: "single-relay-rejects", kinds: []string{"400"}, gated: false},
}

func proposerUnblinding(c *harness.Ctx, rounds int) {
	const pspe = 32
	for si, sh := range unblindShapes {
		id := "goroutines/proposer-unblinding/" + sh.name
		c.Case(id, func() {
			baseline := census() // goroutines leaked by earlier cases were reported there
			var wg sync.WaitGroup
			var notReturned, submitted atomic.Int64
			for k := 0; k < rounds; k++ {
				w := &pworld{acct: harness.NewAcct(harness.KindPlain, "W", "proposer", 1360+k%4, phase0.ValidatorIndex(4000+k), nil)}
				specP := harness.NewSpec(pspe, nil)
				var err error
				w.real, err = signerstd.New(bg, signerstd.WithLogLevel(zerolog.Disabled), signerstd.WithMonitor(nullmetrics.New()), signerstd.WithClientMonitor(nullmetrics.New()), signerstd.WithSpecProvider(specP), signerstd.WithDomainProvider(harness.RecDomains{}))
				if err != nil {
					c.Inconclusive(err.Error())
					return
				}
				dutySlot := phase0.Slot(pspe*200 + k%pspe)
				clock := harness.NewVClock(12*time.Second, pspe)
				clock.SetSlot(dutySlot)
				svc, err := propstd.New(bg, propstd.WithLogLevel(zerolog.TraceLevel), propstd.WithChainTime(clock), propstd.WithProposalDataProvider(w), propstd.WithMonitor(nullmetrics.New()), propstd.WithValidatingAccountsProvider(w),
					propstd.WithExecutionChainHeadProvider(w), propstd.WithProposalSubmitter(w), propstd.WithRANDAORevealSigner(w), propstd.WithBeaconBlockSigner(w), propstd.WithBlobSidecarSigner(w), propstd.WithBlockAuctioneer(w))
				if err != nil {
					c.Inconclusive("proposer New: " + err.Error())
					return
				}
				var gate *sync.WaitGroup
				if sh.gated {
					gate = &sync.WaitGroup{}
					gate.Add(len(sh.kinds))
				}
				for i, kind := range sh.kinds {
					rl := &harness.Relay{Addr: fmt.Sprintf("http://c20relay%d.example.com/", i), KeyNo: i, HasPubkey: k%2 == 0 || sh.sameKey}
					if sh.sameKey && i < 2 {
						rl.KeyNo = 0
					}
					rl.UnblindFn = unblindFn(kind, i, gate)
					w.relays = append(w.relays, rl)
				}
				version := []spec.DataVersion{spec.DataVersionBellatrix, spec.DataVersionCapella, spec.DataVersionDeneb}[(k+si)%3]
				w.proposal = harness.NewProposal(version, true, dutySlot, harness.AcctIndex(w.acct), uint64(k+1), [32]byte{})
				duty := beaconblockproposer.NewDuty(dutySlot, harness.AcctIndex(w.acct))
				if err := svc.Prepare(bg, duty); err != nil {
					c.Inconclusive("prepare: " + err.Error())
					return
				}
				wg.Add(1)
				notReturned.Add(1)
				go func() { // the scheduler's job goroutine; its context lives as long as the process
					defer wg.Done()
					svc.Propose(bg, duty)
					notReturned.Add(-1)
					w.mu.Lock()
					if w.submitted == 1 {
						submitted.Add(1)
					}
					w.mu.Unlock()
				}()
			}
			done := make(chan struct{})
			go func() { wg.Wait(); close(done) }()
			select {
			case <-done:
			case <-time.After(15 * time.Second):
				c.Violate("proposal-job-never-ends", fmt.Sprintf("%d of %d proposal jobs with relays %v had not ended 15 s after every relay had given its final answer: each holds its job goroutine for ever", notReturned.Load(), rounds, sh.kinds), id, map[string]any{"goroutines": first(quiesce(baseline, 0), 5)})
				return
			}
			c.Eval(rounds)
			if want := strings.Contains(strings.Join(sh.kinds, ","), "block"); (submitted.Load() == int64(rounds)) != want && (submitted.Load() == 0) == want {
				c.Inconclusive(fmt.Sprintf("%s: %d of %d proposals were submitted, the scenario did not play out", id, submitted.Load(), rounds))
			}
			if left := quiesce(baseline, 8*time.Second); len(left) > 0 {
				c.Violate("goroutine-leak:proposer-unblinding", fmt.Sprintf("after %d proposals unblinded with relays %v (%s), %d goroutine(s) are still inside the proposer long after every relay has answered, e.g. %s", rounds, sh.kinds, sh.name, len(left), strip(left[0])), id,
					map[string]any{"goroutines": first(left, 5)})
			}
			c.Count("proposals_unblinded", int64(rounds))
			c.Distinct("proposer-unblinding|" + sh.name)
		})
	}
}

func relayUnblinding(c *harness.Ctx, rounds int) {
	for si, sh := range unblindShapes {
		id := "goroutines/blockrelay-unblinding/" + sh.name
		c.Case(id, func() {
			baseline := census() // goroutines leaked by earlier cases were reported there
			env, err := relaycommon.NewEnv([]harness.Acct{harness.NewAcct(harness.KindPlain, "W", "ru", 1350, 9200, nil)}, 0, relaycommon.Outcome{Kind: "error"}, nil)
			if err != nil {
				c.Inconclusive(err.Error())
				return
			}
			one := 5
			doc := &refcfg.Doc2{Opts: refcfg.Opts{FR: &one}, Relays: map[string]*refcfg.Relay{}}
			if len(sh.kinds) > 4 {
				return // the environment has four relays
			}
			for i := range sh.kinds {
				doc.Relays[env.RelayAddr(i)] = &refcfg.Relay{}
			}
			env.Config.Set(relaycommon.Outcome{Kind: "valid", Doc: doc.JSON()})
			env.Refresh()
			var wg sync.WaitGroup
			var notReturned atomic.Int64
			for k := 0; k < rounds; k++ {
				var gate *sync.WaitGroup
				if sh.gated {
					gate = &sync.WaitGroup{}
					gate.Add(len(sh.kinds))
				}
				// one request at a time per environment: the relays' behaviour is per request
				for i, kind := range sh.kinds {
					rl := env.Relays[env.RelayAddr(i)]
					if sh.sameKey && k == 0 {
						rl.HasPubkey = true
						if i < 2 {
							rl.KeyNo = 0
						}
					}
					f := unblindFn(kind, i, gate)
					rl.SetUnblindFn(f)
				}
				version := []spec.DataVersion{spec.DataVersionBellatrix, spec.DataVersionCapella, spec.DataVersionDeneb}[(k+si)%3]
				p := harness.NewProposal(version, true, phase0.Slot(3200+k), phase0.ValidatorIndex(k%8), uint64(k+1), [32]byte{})
				blk := harness.SignedBlindedBlock(p)
				wg.Add(1)
				notReturned.Add(1)
				fin := make(chan struct{})
				go func() { // the REST handler's goroutine; the request context of a waiting beacon node
					defer wg.Done()
					res, err := env.Svc.UnblindBlock(bg, blk)
					if (res != nil && err == nil) != strings.Contains(strings.Join(sh.kinds, ","), "block") {
						c.Inconclusive(fmt.Sprintf("%s: unblinding request ended with block=%v err=%v, the scenario did not play out", id, res != nil, err))
					}
					notReturned.Add(-1)
					close(fin)
				}()
				select {
				case <-fin:
				case <-time.After(10 * time.Second):
					c.Violate("unblind-request-never-ends", fmt.Sprintf("an unblinding request to the block relay with relays %v had not ended 10 s after every relay had given its final answer", sh.kinds), id, map[string]any{"goroutines": first(quiesce(baseline, 0), 5)})
					return
				}
			}
			wg.Wait()
			c.Eval(rounds)
			if left := quiesce(baseline, 8*time.Second); len(left) > 0 {
				c.Violate("goroutine-leak:blockrelay-unblinding", fmt.Sprintf("after %d unblinding requests with relays %v (%s), %d goroutine(s) are still inside the block relay long after every relay has answered, e.g. %s", rounds, sh.kinds, sh.name, len(left), strip(left[0])), id,
					map[string]any{"goroutines": first(left, 5)})
			}
			c.Count("relay_unblinding_requests", int64(rounds))
			c.Distinct("blockrelay-unblinding|" + sh.name)
		})
	}
}

func run(c *harness.Ctx) {
	harness.InitBLS()
	switch part := c.Batch % 6; part {
	case 0:
		n, epochs := 6, 110
		if !c.Quick() {
			n, epochs = 30, 400
		}
		var wg sync.WaitGroup
		sem := make(chan struct{}, 6)
		for i := 0; i < n; i++ {
			id := fmt.Sprintf("long%d", i)
			c.Case(id, func() {
				wg.Add(1)
				sem <- struct{}{}
				go func() {
					defer wg.Done()
					defer func() { <-sem }()
					longRun(c, id, c.Rand("long", c.Batch, i), epochs)
				}()
			})
		}
		wg.Wait()
	case 1:
		n := 2
		if !c.Quick() {
			n = 12
		}
		for i := 0; i < n; i++ {
			id := fmt.Sprintf("relay-cache%d", i)
			c.Case(id, func() { relayCache(c, id, c.Rand("relay", i), 400+200*i) })
		}
		nd, dslots := 10, 1500
		if !c.Quick() {
			nd, dslots = 60, 6000
		}
		for i := 0; i < nd; i++ {
			id := fmt.Sprintf("direct%d", i)
			c.Case(id, func() { directLong(c, id, c.Rand("direct", c.Batch, i), dslots) })
		}
		rounds := 6
		if !c.Quick() {
			rounds = 40
		}
		installDelayHook()
		proposerUnblinding(c, rounds)
		relayUnblinding(c, rounds)
	default:
		rounds := 8
		if !c.Quick() {
			rounds = 60
		}
		strategyGoroutines(c, c.Rand("strategies", c.Batch), rounds, part-2, 4)
	}
}

func main() {
	harness.Main(&harness.Spec{
		Property: "C20",
		Level:    "exploration",
		Rule:     "A: long runs (quick 110, thorough 400 epochs each) of the real controller, attester, sync committee messenger and aggregator in virtual time with reorgs that withdraw duties (before and after the slot's attestation), reorgs of the next epoch, epochs without head events, epochs whose duties cannot be fetched: after every slot HasPendingAttestations(x) == (attestation job for x scheduled or running) for x within three epochs of the clock, every marked slot has a job, inside each attestation job its slot is pending, and each bookkeeping map stays within a fixed window (4 epochs / 140 slots / 600 jobs). B: the block relay's bid cache over 400+ slots of auctions. C: all 17 strategies (nodes answering all at once, late, never, all failing, mixed) and both unblinding implementations (relays succeeding at once, rejecting, failing after retries): every call returns and, after the nodes have answered and a settle period, a goroutine dump shows no goroutine inside a vouch strategy / proposer / block relay unblinding frame. distinct = run shape",
		Batches: func(tier string) int {
			if tier == "thorough" {
				return 12
			}
			return 6
		},
		Parallel:    6,
		Run:         run,
		MinDistinct: 20,
		ChildTimeout: func(tier string) time.Duration {
			if tier == "thorough" {
				return 3 * time.Hour
			}
			return 30 * time.Minute
		},
		Assumptions: []string{"virtual clock and job-capturing scheduler; the real scheduler's own table is judged under C02", "a goroutine still inside a strategy 8 s after the last node has answered (nodes answer within 1.3 s) is counted as leaked; one that has not returned after 15 s as never returning", "nodes and relays that never answer end when their request context ends (as HTTP clients do); unblinding requests have no deadline of their own, so a relay that never answers there is modelled as a client timeout error"},
	})
}
