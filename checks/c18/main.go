// C18: a block root always maps to that block's slot.
// Monitor: the real cache service (handlers and clean job captured from fakes) against a reference map and a
// scripted, counting header provider; sequential histories plus a concurrent variant under the race detector.
package main

import (
	"context"
	"encoding/binary"
	"errors"
	"fmt"
	eth2client "github.com/attestantio/go-eth2-client"
	rootlatest "github.com/attestantio/vouch/strategies/beaconblockroot/latest"
	rootmaj "github.com/attestantio/vouch/strategies/beaconblockroot/majority"
	"runtime"
	"strings"
	"sync"
	"sync/atomic"
	"time"

	"github.com/attestantio/go-eth2-client/api"
	apiv1 "github.com/attestantio/go-eth2-client/api/v1"
	"github.com/attestantio/go-eth2-client/spec"
	"github.com/attestantio/go-eth2-client/spec/altair"
	"github.com/attestantio/go-eth2-client/spec/phase0"
	cache "github.com/attestantio/vouch/services/cache/standard"
	nullmetrics "github.com/attestantio/vouch/services/metrics/null"
	"github.com/rs/zerolog"
	"verif/harness"
)

type headers struct {
	mu     sync.Mutex
	truth  map[phase0.Root]phase0.Slot
	parent map[phase0.Root]phase0.Root
	fail   map[phase0.Root]int // how the next fetch of this root fails (0 = succeeds)
	calls  atomic.Int64
}

// failure kinds a client library can deliver
func failure(kind int) error {
	switch kind {
	case 1:
		return errors.New("scripted fetch failure")
	case 2:
		return &api.Error{Method: "GET", Endpoint: "/eth/v1/beacon/headers", StatusCode: 404, Data: []byte(`{"code":404,"message":"NOT_FOUND"}`)}
	case 3:
		return fmt.Errorf("failed to request beacon block header: %w", &api.Error{Method: "GET", StatusCode: 404})
	case 4:
		return &api.Error{Method: "GET", StatusCode: 503}
	default:
		return context.DeadlineExceeded
	}
}

// SignedBeaconBlock serves the block of a root (for head events), in a version that depends on the root.
func (h *headers) SignedBeaconBlock(_ context.Context, opts *api.SignedBeaconBlockOpts) (*api.Response[*spec.VersionedSignedBeaconBlock], error) {
	h.mu.Lock()
	defer h.mu.Unlock()
	for r, s := range h.truth {
		if r.String() != opts.Block {
			continue
		}
		var blk *spec.VersionedSignedBeaconBlock
		if r[31]%2 == 0 {
			blk = &spec.VersionedSignedBeaconBlock{Version: spec.DataVersionPhase0, Phase0: &phase0.SignedBeaconBlock{Message: &phase0.BeaconBlock{Slot: s, ParentRoot: h.parent[r], Body: &phase0.BeaconBlockBody{ETH1Data: &phase0.ETH1Data{}}}}}
		} else {
			blk = &spec.VersionedSignedBeaconBlock{Version: spec.DataVersionAltair, Altair: &altair.SignedBeaconBlock{Message: &altair.BeaconBlock{Slot: s, ParentRoot: h.parent[r], Body: &altair.BeaconBlockBody{ETH1Data: &phase0.ETH1Data{}}}}}
		}
		return &api.Response[*spec.VersionedSignedBeaconBlock]{Data: blk, Metadata: map[string]any{}}, nil
	}
	return nil, errors.New("404 block not found")
}

func (h *headers) BeaconBlockHeader(ctx context.Context, opts *api.BeaconBlockHeaderOpts) (*api.Response[*apiv1.BeaconBlockHeader], error) {
	if ctx.Err() != nil {
		return nil, ctx.Err() // as an HTTP client does with a request whose context has ended
	}
	h.calls.Add(1)
	h.mu.Lock()
	defer h.mu.Unlock()
	for r, s := range h.truth {
		if r.String() == opts.Block {
			if k := h.fail[r]; k != 0 {
				return nil, failure(k)
			}
			return &api.Response[*apiv1.BeaconBlockHeader]{Data: &apiv1.BeaconBlockHeader{
				Root: r, Canonical: r[31]%3 != 0, // a third of the blocks have been orphaned: the node still knows them

				Header: &phase0.SignedBeaconBlockHeader{Message: &phase0.BeaconBlockHeader{Slot: s}},
			}, Metadata: map[string]any{}}, nil
		}
	}
	return nil, errors.New("404 block not found")
}

func mkRoot(n uint64) phase0.Root {
	var r phase0.Root
	binary.BigEndian.PutUint64(r[:8], n+1)
	r[31] = byte(n*7 + 1)
	return r
}

type op struct {
	Op   string `json:"op"`
	Root uint64 `json:"root,omitempty"`
	Slot uint64 `json:"slot,omitempty"`
	Res  string `json:"res,omitempty"`
}

func newService(clock *harness.VClock, h *headers) (*cache.Service, *harness.CapSched, *harness.CapEvents, error) {
	sched := harness.NewCapSched()
	ev := harness.NewCapEvents()
	s, err := cache.New(context.Background(),
		cache.WithLogLevel(zerolog.Disabled),
		cache.WithMonitor(nullmetrics.New()),
		cache.WithChainTime(clock),
		cache.WithScheduler(sched),
		cache.WithEventsProvider(ev),
		cache.WithSignedBeaconBlockProvider(h),
		cache.WithBeaconBlockHeadersProvider(h),
	)
	return s, sched, ev, err
}

const cleanJob = "Clean block root to slot cache"

func sequential(c *harness.Ctx) {
	n := c.N(4000, 200000)
	ctx := context.Background()
	for i := 0; i < n; i++ {
		id := fmt.Sprintf("seq%d", i)
		c.Case(id, func() {
			r := c.Rand("seq", i)
			spe := uint64(1 + r.Intn(32))
			clock := harness.NewVClock(12e9, spe)
			h := &headers{truth: map[phase0.Root]phase0.Slot{}, parent: map[phase0.Root]phase0.Root{}, fail: map[phase0.Root]int{}}
			s, sched, ev, err := newService(clock, h)
			if err != nil {
				c.Inconclusive("cache.New failed: " + err.Error())
				return
			}
			if sched.Job(cleanJob) == nil || len(ev.Handlers["block"]) == 0 {
				c.Inconclusive("clean job or block handler not captured")
				return
			}
			nRoots := uint64(2 + r.Intn(6))
			maxEpoch := uint64(60 + r.Intn(200))
			// ground truth for all roots (those a node knows); some roots unknown to the node.
			for k := uint64(0); k < nRoots; k++ {
				slot := phase0.Slot(r.Int63n(int64(maxEpoch*spe) + 1))
				if r.Intn(12) == 0 {
					slot = 0
				}
				h.truth[mkRoot(k)] = slot
			}
			// parent of each root: a known root with a lower slot where one exists (slots in between are skipped)
			for k := uint64(0); k < nRoots; k++ {
				for j := uint64(0); j < nRoots; j++ {
					if h.truth[mkRoot(j)] < h.truth[mkRoot(k)] {
						h.parent[mkRoot(k)] = mkRoot(j)
					}
				}
			}
			unknown := mkRoot(1000)
			cached := map[phase0.Root]bool{} // reference: entries that must be present
			maybe := map[phase0.Root]bool{}  // entries that cleaning was allowed (not required) to remove
			var hist []op
			classes := map[string]bool{}
			bad := func(key, what string) {
				c.Violate(key, what, id, map[string]any{"slots_per_epoch": spe, "history": hist, "truth": fmt.Sprint(h.truth)})
			}
			steps := 4 + r.Intn(14)
			for st := 0; st < steps; st++ {
				k := uint64(r.Intn(int(nRoots)))
				root := mkRoot(k)
				switch x := r.Intn(10); {
				case x < 2: // block event
					ev.Emit("block", &apiv1.BlockEvent{Slot: h.truth[root], Block: root})
					cached[root] = true
					delete(maybe, root)
					hist = append(hist, op{Op: "block", Root: k, Slot: uint64(h.truth[root])})
				case x < 7: // lookup
					failKind := 0
					if r.Intn(4) == 0 {
						failKind = 1 + r.Intn(5)
					}
					target := root
					if r.Intn(10) == 0 {
						target = unknown
						k = 1000
					}
					h.mu.Lock()
					h.fail[target] = failKind
					h.mu.Unlock()
					before := h.calls.Load()
					got, err := s.BlockRootToSlot(ctx, target)
					fetched := h.calls.Load() - before
					o := op{Op: "lookup", Root: k}
					want, known := h.truth[target]
					if fetched == 0 {
						// answered from the cache (from whatever source the entry came)
						o.Res = fmt.Sprintf("hit->%d,%v", got, err)
						hist = append(hist, o)
						switch {
						case cached[target]:
							classes["hit"] = true
						case maybe[target]:
							classes["kept-old"] = true
						default:
							classes["hit-unmodelled-entry"] = true
						}
						if !known {
							if err == nil {
								bad("unknown-root-gives-slot", fmt.Sprintf("root no node knows returned slot %d without error and without a fetch", got))
							}
						} else if err != nil || got != want {
							bad("hit-wrong", fmt.Sprintf("lookup answered without a fetch returned (%d,%v), block's slot is %d", got, err, want))
						}
						if known {
							cached[target] = true
							delete(maybe, target)
						}
						break
					}
					if cached[target] {
						bad("retained-refetched", "an entry that had to be retained was fetched again")
					}
					if maybe[target] {
						classes["cleaned-observed"] = true
						c.Count("cleaned_entries_observed", 1)
					}
					delete(maybe, target)
					if failKind != 0 || !known {
						classes[fmt.Sprintf("miss-fail-%d", failKind)] = true
						o.Res = fmt.Sprintf("miss-fail(kind %d)->%d,%v", failKind, got, err)
						hist = append(hist, o)
						if err == nil {
							bad(fmt.Sprintf("failed-fetch-gives-slot:kind%d", failKind), fmt.Sprintf("fetch failed (%v) but lookup returned slot %d without error", failure(failKind), got))
						}
					} else {
						classes["miss-ok"] = true
						o.Res = fmt.Sprintf("miss->%d,%v", got, err)
						hist = append(hist, o)
						if err != nil {
							bad("miss-error", "fetch succeeded but lookup returned error "+err.Error())
						} else if got != want {
							bad("miss-wrong-slot", fmt.Sprintf("lookup through fetch returned %d, block's slot is %d", got, want))
						}
						if fetched != 1 {
							bad("miss-fetch-count", fmt.Sprintf("miss issued %d fetches", fetched))
						}
						cached[target] = true
					}
				case x < 8: // head event for a block whose parent is another known root (slots may be skipped in between)
					ev.Emit("head", &apiv1.HeadEvent{Slot: h.truth[root], Block: root})
					hist = append(hist, op{Op: "head", Root: k, Slot: uint64(h.truth[root])})
					classes["head"] = true
				default: // clean at some epoch
					e := uint64(r.Intn(int(maxEpoch + 80)))
					clock.SetSlot(phase0.Slot(e*spe + uint64(r.Intn(int(spe)))))
					sched.RunSync(cleanJob)
					hist = append(hist, op{Op: "clean", Slot: uint64(clock.CurrentSlot())})
					if e > 64 {
						minSlot := phase0.Slot((e - 64) * spe)
						for rt := range cached {
							if h.truth[rt] < minSlot {
								delete(cached, rt)
								maybe[rt] = true
								classes["clean-old"] = true
							} else {
								classes["clean-retain"] = true
							}
						}
					}
				}
			}
			ks := make([]string, 0, len(classes))
			for k := range classes {
				ks = append(ks, k)
			}
			if len(ks) >= 3 {
				sortStrings(ks)
				c.Distinct(fmt.Sprintf("%d|%s|%d", steps, strings.Join(ks, ","), nRoots))
			}
			for k := range classes {
				c.Count("class_"+k, 1)
			}
			if i < 2 {
				c.Sample(map[string]any{"slots_per_epoch": spe, "history": hist})
			}
		})
	}
}

func sortStrings(s []string) {
	for i := 1; i < len(s); i++ {
		for j := i; j > 0 && s[j] < s[j-1]; j-- {
			s[j], s[j-1] = s[j-1], s[j]
		}
	}
}

// concurrent: lookups, block events and cleans from several goroutines; every non-error answer is the truth.
func concurrent(c *harness.Ctx) {
	n := c.N(60, 2000)
	ctx := context.Background()
	for i := 0; i < n; i++ {
		id := fmt.Sprintf("conc%d", i)
		c.Case(id, func() {
			r := c.Rand("conc", i)
			spe := uint64(8)
			clock := harness.NewVClock(12e9, spe)
			h := &headers{truth: map[phase0.Root]phase0.Slot{}, parent: map[phase0.Root]phase0.Root{}, fail: map[phase0.Root]int{}}
			s, sched, ev, err := newService(clock, h)
			if err != nil {
				c.Inconclusive("cache.New failed")
				return
			}
			nRoots := 4
			for k := 0; k < nRoots; k++ {
				h.truth[mkRoot(uint64(k))] = phase0.Slot(1 + r.Intn(3000))
			}
			var wg sync.WaitGroup
			var wrong atomic.Int64
			var answers atomic.Int64
			workers := 6
			seeds := make([]int64, workers)
			for w := range seeds {
				seeds[w] = r.Int63()
			}
			for w := 0; w < workers; w++ {
				wg.Add(1)
				go func(w int) {
					defer wg.Done()
					rr := c.Rand("concw", i, w, seeds[w])
					for st := 0; st < 60; st++ {
						root := mkRoot(uint64(rr.Intn(nRoots)))
						switch w % 3 {
						case 0, 1:
							got, err := s.BlockRootToSlot(ctx, root)
							if err == nil {
								answers.Add(1)
								if got != h.truth[root] {
									wrong.Add(1)
								}
							}
						case 2:
							if st%2 == 0 {
								ev.Emit("block", &apiv1.BlockEvent{Slot: h.truth[root], Block: root})
							} else {
								clock.SetSlot(phase0.Slot(rr.Intn(500) * int(spe)))
								sched.RunSync(cleanJob)
							}
						}
					}
				}(w)
			}
			wg.Wait()
			c.Count("concurrent_answers", answers.Load())
			if wrong.Load() > 0 {
				c.Violate("concurrent-wrong-slot", fmt.Sprintf("%d of %d concurrent lookups returned a slot that is not the block's", wrong.Load(), answers.Load()), id, nil)
			}
			c.Distinct(fmt.Sprintf("conc|%d", answers.Load()/20))
		})
	}
}

// cleanRace: block events for fresh roots arrive while a clean is scanning a large map of stale entries; every
// fresh entry is inside the retention window and must still be cached afterwards (the provider fails every fetch,
// so a lost entry shows up as an error).
func cleanRace(c *harness.Ctx) {
	rounds := c.N(12, 300)
	ctx := context.Background()
	c.Case("cleanrace", func() {
		spe := uint64(8)
		clock := harness.NewVClock(12e9, spe)
		h := &headers{truth: map[phase0.Root]phase0.Slot{}, parent: map[phase0.Root]phase0.Root{}, fail: map[phase0.Root]int{}}
		s, sched, ev, err := newService(clock, h)
		if err != nil {
			c.Inconclusive("cache.New failed")
			return
		}
		curEpoch := uint64(200)
		clock.SetSlot(phase0.Slot(curEpoch * spe))
		n := uint64(0)
		lost := 0
		total := 0
		for rd := 0; rd < rounds; rd++ {
			for k := 0; k < 20000; k++ { // stale entries (older than 64 epochs)
				n++
				ev.Emit("block", &apiv1.BlockEvent{Slot: phase0.Slot(n % (100 * spe)), Block: mkRoot(1_000_000 + n)})
			}
			fresh := make([]phase0.Root, 150)
			for k := range fresh {
				n++
				fresh[k] = mkRoot(1_000_000 + n)
			}
			var wg sync.WaitGroup
			wg.Add(2)
			go func() { defer wg.Done(); sched.RunSync(cleanJob) }()
			go func() {
				defer wg.Done()
				for _, rt := range fresh {
					ev.Emit("block", &apiv1.BlockEvent{Slot: phase0.Slot(curEpoch*spe - 1), Block: rt})
					runtime.Gosched()
				}
			}()
			wg.Wait()
			for _, rt := range fresh {
				total++
				got, err := s.BlockRootToSlot(ctx, rt)
				if err != nil || got != phase0.Slot(curEpoch*spe-1) {
					lost++
				}
			}
		}
		c.Count("cleanrace_fresh_entries_checked", int64(total))
		c.Eval(total)
		if lost > 0 {
			c.Violate("clean-removed-fresh-entry", fmt.Sprintf("%d of %d entries inside the retention window, inserted while a clean was running, were gone afterwards", lost, total), "cleanrace", nil)
		}
		c.Distinct("cleanrace")
	})
}

// rootNode reports one head root.
type rootNode struct{ root phase0.Root }

func (n rootNode) BeaconBlockRoot(context.Context, *api.BeaconBlockRootOpts) (*api.Response[*phase0.Root], error) {
	r := n.root
	return &api.Response[*phase0.Root]{Data: &r, Metadata: map[string]any{}}, nil
}

// consumers: the strategies that ask the cache for slots, over the real cache (cold: every root has to be fetched) and a
// healthy node. With the votes tied (majority) or always (latest) the root of the block with the higher slot must win.
func consumers(c *harness.Ctx) {
	n := c.N(150, 6000)
	ctx := context.Background()
	for i := 0; i < n; i++ {
		id := fmt.Sprintf("consumer%d", i)
		c.Case(id, func() {
			r := c.Rand("consumer", i)
			clock := harness.NewVClock(12*time.Second, 32)
			clock.SetSlot(5000)
			h := &headers{truth: map[phase0.Root]phase0.Slot{}, parent: map[phase0.Root]phase0.Root{}, fail: map[phase0.Root]int{}}
			a, b := mkRoot(uint64(2*i)), mkRoot(uint64(2*i+1))
			sa := phase0.Slot(4000 + r.Intn(900))
			sb := sa + phase0.Slot(1+r.Intn(20))
			if r.Intn(2) == 0 {
				sa, sb = sb, sa
			}
			h.truth[a], h.truth[b] = sa, sb
			svc, _, _, err := newService(clock, h)
			if err != nil {
				c.Inconclusive("cache.New: " + err.Error())
				return
			}
			want := a
			if sb > sa {
				want = b
			}
			nodes := map[string]eth2client.BeaconBlockRootProvider{"n1": rootNode{a}, "n2": rootNode{b}}
			which := []string{"majority", "latest"}[i%2]
			var got *api.Response[*phase0.Root]
			if which == "majority" {
				st, err := rootmaj.New(ctx, rootmaj.WithLogLevel(zerolog.Disabled), rootmaj.WithClientMonitor(nullmetrics.New()), rootmaj.WithProcessConcurrency(2), rootmaj.WithBeaconBlockRootProviders(nodes),
					rootmaj.WithTimeout(2*time.Second), rootmaj.WithBlockRootToSlotCache(svc))
				if err != nil {
					c.Inconclusive("majority strategy: " + err.Error())
					return
				}
				got, err = st.BeaconBlockRoot(ctx, &api.BeaconBlockRootOpts{Block: "head"})
				if err != nil {
					c.Violate("consumer-error:majority", "the majority strategy over two healthy nodes returned an error: "+err.Error(), id, nil)
					return
				}
			} else {
				st, err := rootlatest.New(ctx, rootlatest.WithLogLevel(zerolog.Disabled), rootlatest.WithClientMonitor(nullmetrics.New()), rootlatest.WithProcessConcurrency(2), rootlatest.WithBeaconBlockRootProviders(nodes),
					rootlatest.WithTimeout(2*time.Second), rootlatest.WithBlockRootToSlotCache(svc))
				if err != nil {
					c.Inconclusive("latest strategy: " + err.Error())
					return
				}
				got, err = st.BeaconBlockRoot(ctx, &api.BeaconBlockRootOpts{Block: "head"})
				if err != nil {
					c.Violate("consumer-error:latest", "the latest strategy over two healthy nodes returned an error: "+err.Error(), id, nil)
					return
				}
			}
			c.Count("consumer_decisions_checked", 1)
			if got == nil || got.Data == nil || *got.Data != want {
				c.Violate("consumer-did-not-get-the-slot:"+which, fmt.Sprintf("the %s strategy had to choose between the blocks of slots %d and %d (roots not yet cached, node healthy) and did not choose the later one: the slots it was given by the cache cannot be the blocks' slots", which, sa, sb), id, map[string]any{"header_fetches": h.calls.Load()})
			}
			c.Distinct(fmt.Sprintf("consumer|%s|%v", which, sb > sa))
		})
	}
}

func main() {
	harness.Main(&harness.Spec{
		Property: "C18",
		Level:    "exploration",
		Rule:     "random histories of {block event, lookup hit/miss/unknown root, scripted fetch failure, clean at a random epoch} over 2-7 roots and 1-32 slots per epoch, judged step by step against a reference map and the provider's call counter; distinct = (length, set of step classes seen, roots); non-trivial = history exercised >=3 of {hit, miss-ok, miss-fail, clean-retain, clean-old, cleaned-observed, kept-old}; plus concurrent lookup/event/clean runs under the race detector; plus the majority and latest beacon block root strategies over the real, cold cache and a node that refuses ended contexts (the later block must win a tie)",
		Run: func(c *harness.Ctx) {
			sequential(c)
			concurrent(c)
			cleanRace(c)
			consumers(c)
		},
		MinDistinct: 20,
		Assumptions: []string{"a root identifies one block, so block events and headers agree on its slot", "cleaning is only required not to remove entries inside the 64-epoch window; removal of older entries is observed, not required"},
	})
}
