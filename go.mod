module verif

go 1.22.7

toolchain go1.23.2

require (
	github.com/anishathalye/porcupine v1.3.0
	github.com/attestantio/go-block-relay v0.4.1
	github.com/attestantio/go-builder-client v0.5.1
	github.com/attestantio/go-eth2-client v0.21.11
	github.com/attestantio/vouch v0.0.0
	github.com/google/uuid v1.6.0
	github.com/holiman/uint256 v1.3.1
	github.com/petermattis/goid v0.0.0-20241025130422-66cb2e6d7274
	github.com/prysmaticlabs/go-bitfield v0.0.0-20240618144021-706c95b2dd15
	github.com/rs/zerolog v1.33.0
	github.com/shopspring/decimal v1.4.0
	github.com/spf13/viper v1.19.0
	github.com/wealdtech/go-eth2-types/v2 v2.8.2
	github.com/wealdtech/go-eth2-wallet-encryptor-keystorev4 v1.4.1
	github.com/wealdtech/go-eth2-wallet-nd/v2 v2.5.0
	github.com/wealdtech/go-eth2-wallet-store-filesystem v1.18.1
	github.com/wealdtech/go-eth2-wallet-types/v2 v2.12.0
	github.com/wealdtech/go-majordomo v1.1.1
)

require (
	github.com/aws/aws-sdk-go v1.55.5 // indirect
	github.com/beorn7/perks v1.0.1 // indirect
	github.com/cespare/xxhash/v2 v2.3.0 // indirect
	github.com/emicklei/dot v1.6.2 // indirect
	github.com/fatih/color v1.18.0 // indirect
	github.com/ferranbt/fastssz v0.1.4 // indirect
	github.com/fsnotify/fsnotify v1.8.0 // indirect
	github.com/gabriel-vasile/mimetype v1.4.6 // indirect
	github.com/gin-contrib/sse v0.1.0 // indirect
	github.com/gin-gonic/gin v1.10.0 // indirect
	github.com/go-logr/logr v1.4.2 // indirect
	github.com/go-logr/stdr v1.2.2 // indirect
	github.com/go-playground/locales v0.14.1 // indirect
	github.com/go-playground/universal-translator v0.18.1 // indirect
	github.com/go-playground/validator/v10 v10.22.1 // indirect
	github.com/goccy/go-yaml v1.13.6 // indirect
	github.com/gorilla/mux v1.8.1 // indirect
	github.com/hashicorp/hcl v1.0.0 // indirect
	github.com/herumi/bls-eth-go-binary v1.36.1 // indirect
	github.com/huandu/go-clone v1.7.2 // indirect
	github.com/jackc/puddle/v2 v2.2.2 // indirect
	github.com/jmespath/go-jmespath v0.4.0 // indirect
	github.com/klauspost/cpuid/v2 v2.2.9 // indirect
	github.com/leodido/go-urn v1.4.0 // indirect
	github.com/magiconair/properties v1.8.7 // indirect
	github.com/mattn/go-colorable v0.1.13 // indirect
	github.com/mattn/go-isatty v0.0.20 // indirect
	github.com/minio/sha256-simd v1.0.1 // indirect
	github.com/mitchellh/mapstructure v1.5.0 // indirect
	github.com/munnerz/goautoneg v0.0.0-20191010083416-a7dc8b61c822 // indirect
	github.com/pelletier/go-toml/v2 v2.2.3 // indirect
	github.com/pkg/errors v0.9.1 // indirect
	github.com/prometheus/client_golang v1.20.5 // indirect
	github.com/prometheus/client_model v0.6.1 // indirect
	github.com/prometheus/common v0.60.1 // indirect
	github.com/prometheus/procfs v0.15.1 // indirect
	github.com/sagikazarmark/slog-shim v0.1.0 // indirect
	github.com/sasha-s/go-deadlock v0.3.5 // indirect
	github.com/shibukawa/configdir v0.0.0-20170330084843-e180dbdc8da0 // indirect
	github.com/spf13/afero v1.11.0 // indirect
	github.com/spf13/cast v1.7.0 // indirect
	github.com/spf13/pflag v1.0.5 // indirect
	github.com/subosito/gotenv v1.6.0 // indirect
	github.com/ugorji/go/codec v1.2.12 // indirect
	github.com/wealdtech/eth2-signer-api v1.7.2 // indirect
	github.com/wealdtech/go-bytesutil v1.2.1 // indirect
	github.com/wealdtech/go-ecodec v1.1.4 // indirect
	github.com/wealdtech/go-eth2-util v1.8.2 // indirect
	github.com/wealdtech/go-eth2-wallet v1.17.0 // indirect
	github.com/wealdtech/go-eth2-wallet-dirk v1.5.1 // indirect
	github.com/wealdtech/go-eth2-wallet-distributed v1.2.1 // indirect
	github.com/wealdtech/go-eth2-wallet-hd/v2 v2.7.0 // indirect
	github.com/wealdtech/go-eth2-wallet-keystore v1.0.0 // indirect
	github.com/wealdtech/go-eth2-wallet-store-s3 v1.12.0 // indirect
	github.com/wealdtech/go-eth2-wallet-store-scratch v1.7.2 // indirect
	github.com/wealdtech/go-indexer v1.1.0 // indirect
	go.opentelemetry.io/contrib/instrumentation/google.golang.org/grpc/otelgrpc v0.57.0 // indirect
	go.opentelemetry.io/otel v1.32.0 // indirect
	go.opentelemetry.io/otel/metric v1.32.0 // indirect
	go.opentelemetry.io/otel/trace v1.32.0 // indirect
	go.uber.org/atomic v1.11.0 // indirect
	golang.org/x/crypto v0.29.0 // indirect
	golang.org/x/net v0.31.0 // indirect
	golang.org/x/sync v0.9.0 // indirect
	golang.org/x/sys v0.27.0 // indirect
	golang.org/x/text v0.20.0 // indirect
	google.golang.org/genproto/googleapis/api v0.0.0-20241104194629-dd2ea8efbc28 // indirect
	google.golang.org/genproto/googleapis/rpc v0.0.0-20241104194629-dd2ea8efbc28 // indirect
	google.golang.org/grpc v1.68.0 // indirect
	google.golang.org/protobuf v1.35.1 // indirect
	gopkg.in/ini.v1 v1.67.0 // indirect
	gopkg.in/yaml.v2 v2.4.0 // indirect
	gopkg.in/yaml.v3 v3.0.1 // indirect
)

replace github.com/attestantio/vouch => /repo
