#!/bin/bash
# Offline setup: verify the module graph and pre-build every check binary to warm the build cache.
set -u
cd "$(dirname "$0")"
export GOFLAGS=-mod=mod GOPROXY=off GOSUMDB=off GOTOOLCHAIN=local
mkdir -p bin evidence replays
cat /repo/go.sum go.sum.extra | sort -u > go.sum
rc=0
for d in checks/*/; do
  n=$(basename "$d")
  race=""; [ -f "$d/RACE" ] && race="-race"
  go build -tags verif $race -o "bin/$n$race" "./$d" || rc=1
done
exit $rc
